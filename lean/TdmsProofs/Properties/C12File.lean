/-
  C12 at FILE level ("writing any microsecond-resolution datetime — as a property or as channel data — and reading it
  back yields the identical datetime64[us]"), through the writer and the reader.

  C12 has the integer theorems (writer: microseconds → (seconds, 2^-64 fractions); reader: (seconds, fractions) →
  microseconds); C07Whole proves that reading what the writer wrote returns the promised content.  Composed here,
  with the names of C16File (`comps`, `handed`, `viewOfNames`):

  0. value level — `tsBytes us` (the 16 bytes `TimeStamp(value).bytes`), `readUs` / `readUsArr` (the reader's scalar /
     array conversion to `datetime64[us]`, as Unix microseconds), `AcceptedUs` (the range the writer accepts: seconds
     in struct `'q'`; the `'Q'` fractions are ALWAYS in range), `timestamp_value_roundtrip`;
  1. `datetime_property_roundtrip` — the last write of a property under an object's names being `datetime us`, the
     property read back has type `TimeStamp`, 16 bytes, and they decode to exactly `us` (any accepted integer);
     `raw_timestamp_property_roundtrip` — a `TdmsTimestamp(seconds, fractions)` comes back bit-exact;
     `property_roundtrip` — the general statement for any property value;
  2. `datetime_channel_roundtrip` — timestamp CHANNEL data built from microseconds, over any number of
     `write_segment` calls and sessions, reads back (scalar and array path) as exactly the microseconds written, in
     order; `raw_timestamp_channel_roundtrip` — bit-exact;
  3. `defragment_keeps_timestamps` — `TdmsWriter.defragment` of ANY (canonical, re-writable) source copies timestamp
     properties and channel values verbatim (`timestamp_property_length`: every `TimeStamp` property of every
     successful read has 16 bytes); `datetime_survives_defragment`, `datetime_channel_survives_defragment` — the
     chain write → read → defragment → read.

  Hypotheses: those of `write_then_read` (C07Whole) and of `defragment_same_content` (C10Whole).
  Lemmas: `TdmsProofs/Lemmas/C12File{Values,Read,Readable,Defrag}.lean`.
-/
import TdmsProofs.Lemmas.C12FileDefrag
import TdmsProofs.Lemmas.C16FileView

namespace Tdms.Proofs.C12File

open Tdms Tdms.Generated Tdms.Model Tdms.Model.Writer Tdms.Model.Path Tdms.Model.Timestamp
open Tdms.Proofs.C08 Tdms.Proofs.C07Whole Tdms.Proofs.C07Checked Tdms.Proofs.C16File
open Tdms.Proofs.C10 Tdms.Proofs.C10Whole
open Tdms.Proofs.C01Compose (content contentOfDenote ObjView)

/-! ## 0. one value -/

/-- the writer's side, for EVERY integer `us`: type `TimeStamp`, 16 bytes, holding
    seconds = ⌊(us − epoch) / 10^6⌋ (two's complement, 8 bytes) and
    fractions = ⌊((us − epoch) mod 10^6) · 2^64 / 10^6⌋ < 2^64 — the struct `'Q'` field never overflows -/
theorem timestamp_value_written (us : Int) :
    (toTdmsValue (.datetime us)).1 = tyTimeStamp ∧ tyTimeStamp = 0x44 ∧ (tsBytes us).length = 16 ∧
    tsBytes us = toBytesLE ((us - epochMicros) / 10 ^ 6) (encodeUs ((us - epochMicros) % 10 ^ 6).toNat) ∧
    encodeUs ((us - epochMicros) % 10 ^ 6).toNat < 2 ^ 64 ∧ epochMicros = -2082844800 * 10 ^ 6 := by
  refine ⟨rfl, rfl, tsBytes_length us, tsBytes_eq us, ?_, by decide⟩
  have h := fractions_in_range us
  have hc := Tdms.Proofs.C12.encode_canonical (us - epochMicros) ((us - epochMicros) / 1000000)
    (by constructor <;> omega)
  unfold encodeFloor at h
  rw [hc] at h
  exact h

/-- **C12, value level**: for every integer `us` in the range the writer accepts (struct `'q'`: the floor of the
    seconds since 1904-01-01 fits a signed 64-bit integer — every `np.datetime64[us]`, every Python `datetime`), the
    16 bytes written are read back as exactly `us`, by the scalar path (`TdmsTimestamp.as_datetime64('us')`) and by
    the array path (`TimestampArray.as_datetime64('us')`); the reader's and the writer's epoch constants agree -/
theorem timestamp_value_roundtrip (us : Int) (h : AcceptedUs us) :
    readUs (tsBytes us) = us ∧ readUsArr (tsBytes us) = us ∧ readerEpochMicros = epochMicros :=
  ⟨readUs_tsBytes us h, readUsArr_tsBytes us h, reader_epoch_eq_writer_epoch⟩

/-- every int64 microsecond count is accepted -/
theorem accepted_int64 (us : Int) (h1 : -2 ^ 63 ≤ us) (h2 : us < 2 ^ 63) : AcceptedUs us :=
  accepted_of_int64 us h1 h2

/-- **outside the range the MODEL wraps** (`toBytesLE` reduces the seconds modulo 2^64, and `WritableVal (.datetime _)`
    is `True`), whereas the real `struct.pack('<Qq', …)` raises `struct.error`: a modelling gap, unreachable from
    `np.datetime64[us]` / `datetime`.  The first second that does not fit: -/
theorem outside_range_wraps :
    ¬ AcceptedUs (2 ^ 63 * 10 ^ 6 + epochMicros) ∧
    readUs (tsBytes (2 ^ 63 * 10 ^ 6 + epochMicros)) = 2 ^ 63 * 10 ^ 6 + epochMicros - 2 ^ 64 * 10 ^ 6 ∧
    AcceptedUs (2 ^ 63 * 10 ^ 6 + epochMicros - 1) ∧ AcceptedUs (-2 ^ 63 * 10 ^ 6 + epochMicros) ∧
    ¬ AcceptedUs (-2 ^ 63 * 10 ^ 6 + epochMicros - 1) := by
  decide +kernel

/-! ## 1. properties -/

/-- **any property**: under the hypotheses of `write_then_read`, if the last write of property `n` under the names
    `cs` (program order of the objects handed to `write_segment`) has the Python value `val`, then the object read
    under the path of `cs` has the property `n` with the TDMS type and bytes `_to_tdms_value` gives `val` -/
theorem property_roundtrip (v : Nat) (hv : v = 4712 ∨ v = 4713) (prog : Program) (d i : Bytes)
    (hw : writeProgram v prog = some (d, i)) (hW : WritableProgram prog) (hc : typesConsistent prog)
    (hs : stringTotalsFit prog) (hlen : d.length < 2 ^ 63)
    (cs : List Bytes) (n : Bytes) (val : PyVal) (hlast : lastProp prog cs n = some val) :
    ∃ r o, readFile d = .ok r ∧ (content r).find? (·.path = componentsToPathBytes cs) = some o ∧
      o.props.find? (·.name = n) = some (propRead n val) := by
  obtain ⟨r, hr, _, _, hfind⟩ := read_object v hv prog d i hw hW hc hs hlen
  obtain ⟨hl, hex⟩ := lastProp_some hlast
  refine ⟨r, _, hr, hfind cs hex, ?_⟩
  rw [find_view_prop]
  unfold mine at hl
  rw [hl]
  rfl

/-- **C12 at file level, properties: a datetime written as a property is read back as the identical
    datetime64[us].**  For every program accepted by the writer (hypotheses of `write_then_read`), every object
    (names `cs`: root `[]`, group `[g]`, channel `[g, c]`), every property name `n` whose last write under these names
    is `datetime us`, and EVERY integer `us` the writer accepts: the eager read of the written file succeeds, the object
    at the path of `cs` has exactly one value for `n`: type `TimeStamp` (0x44), 16 bytes, and these bytes converted by
    the reader (`as_datetime64('us')`) are exactly `us`. -/
theorem datetime_property_roundtrip (v : Nat) (hv : v = 4712 ∨ v = 4713) (prog : Program) (d i : Bytes)
    (hw : writeProgram v prog = some (d, i)) (hW : WritableProgram prog) (hc : typesConsistent prog)
    (hs : stringTotalsFit prog) (hlen : d.length < 2 ^ 63)
    (cs : List Bytes) (n : Bytes) (us : Int) (hlast : lastProp prog cs n = some (.datetime us))
    (hacc : AcceptedUs us) :
    ∃ r o pv, readFile d = .ok r ∧ (content r).find? (·.path = componentsToPathBytes cs) = some o ∧
      o.props.find? (·.name = n) = some pv ∧ pv = ⟨n, tyTimeStamp, tsBytes us⟩ ∧
      pv.ty = tyTimeStamp ∧ pv.val.length = 16 ∧ readUs pv.val = us := by
  obtain ⟨r, o, hr, hf, hp⟩ := property_roundtrip v hv prog d i hw hW hc hs hlen cs n _ hlast
  exact ⟨r, o, _, hr, hf, hp, propRead_datetime n us, rfl, tsBytes_length us, readUs_tsBytes us hacc⟩

/-- **raw timestamps, properties: bit-exact.**  A `TdmsTimestamp(seconds, second_fractions)` written as a property
    (seconds in the signed, fractions in the unsigned 64-bit range) is read back as the same pair -/
theorem raw_timestamp_property_roundtrip (v : Nat) (hv : v = 4712 ∨ v = 4713) (prog : Program) (d i : Bytes)
    (hw : writeProgram v prog = some (d, i)) (hW : WritableProgram prog) (hc : typesConsistent prog)
    (hs : stringTotalsFit prog) (hlen : d.length < 2 ^ 63)
    (cs : List Bytes) (n : Bytes) (s : Int) (f : Nat) (hlast : lastProp prog cs n = some (.rawTimestamp s f))
    (hacc : AcceptedRaw (s, f)) :
    ∃ r o pv, readFile d = .ok r ∧ (content r).find? (·.path = componentsToPathBytes cs) = some o ∧
      o.props.find? (·.name = n) = some pv ∧ pv = ⟨n, tyTimeStamp, rawBytes (s, f)⟩ ∧
      pv.val.length = 16 ∧ ofBytesLE pv.val = (s, f) := by
  obtain ⟨r, o, hr, hf, hp⟩ := property_roundtrip v hv prog d i hw hW hc hs hlen cs n _ hlast
  exact ⟨r, o, _, hr, hf, hp, propRead_raw n s f, rawBytes_length (s, f), ofBytesLE_rawBytes (s, f) hacc⟩

/-! ## 2. channel data -/

/-- **any channel data**: the values read under channel `(g, c)` are the data handed over under `(g, c)`, in
    program order; the type is `ty` if some write under `(g, c)` has type `ty` -/
theorem channel_data_roundtrip (v : Nat) (hv : v = 4712 ∨ v = 4713) (prog : Program) (d i : Bytes)
    (hw : writeProgram v prog = some (d, i)) (hW : WritableProgram prog) (hc : typesConsistent prog)
    (hs : stringTotalsFit prog) (hlen : d.length < 2 ^ 63)
    (g c : Bytes) (hex : ∃ o ∈ handed prog, comps o = [g, c]) :
    ∃ r o, readFile d = .ok r ∧ (content r).find? (·.path = componentsToPathBytes [g, c]) = some o ∧
      o.values = dataHanded prog [g, c] ∧
      ∀ ty, (∃ w ∈ handed prog, comps w = [g, c] ∧ tyOfW w = some ty) → o.dataType = some ty := by
  obtain ⟨r, hr, _, _, hfind⟩ := read_object v hv prog d i hw hW hc hs hlen
  refine ⟨r, _, hr, hfind [g, c] hex, rfl, ?_⟩
  rintro ty ⟨w, hwm, hwc, hwt⟩
  refine view_type _ _ ty ?_ ⟨w, hwm, hwc, hwt⟩
  intro o ho hoc
  have ha := accepted_of_writable hW
  have h1 := handed_written ha o ho
  have h2 := handed_written ha w hwm
  have hp : o.path = w.path := by rw [path_comps, path_comps, hoc, hwc]
  rcases hc o h1 w h2 hp with h | h | h
  · exact .inr h
  · rw [hwt] at h; cases h
  · rw [hwt] at h; exact .inl h

/-- **C12 at file level, channel data: datetimes written as channel data are read back as the identical
    datetime64[us] array.**  If the data handed to `write_segment` under the channel names `(g, c)` — over all calls
    of all sessions, in program order — are the 16-byte values the writer builds (`TimeStamp(value).bytes`) from the
    microsecond datetimes `uss`, all accepted, then the channel read back holds these bytes, and the reader's
    conversion — element-wise scalar path and the uint64 array path — returns exactly `uss`; the channel's type is
    `TimeStamp` as soon as one write declares it (an empty datetime64 array does). -/
theorem datetime_channel_roundtrip (v : Nat) (hv : v = 4712 ∨ v = 4713) (prog : Program) (d i : Bytes)
    (hw : writeProgram v prog = some (d, i)) (hW : WritableProgram prog) (hc : typesConsistent prog)
    (hs : stringTotalsFit prog) (hlen : d.length < 2 ^ 63)
    (g c : Bytes) (hex : ∃ o ∈ handed prog, comps o = [g, c]) (uss : List Int)
    (hdata : dataHanded prog [g, c] = uss.map tsBytes) (hacc : ∀ us ∈ uss, AcceptedUs us) :
    ∃ r o, readFile d = .ok r ∧ (content r).find? (·.path = componentsToPathBytes [g, c]) = some o ∧
      o.values = uss.map tsBytes ∧ o.values.map readUs = uss ∧ o.values.map readUsArr = uss ∧
      ((∃ w ∈ handed prog, comps w = [g, c] ∧ tyOfW w = some tyTimeStamp) → o.dataType = some tyTimeStamp) := by
  obtain ⟨r, o, hr, hf, hvals, hty⟩ := channel_data_roundtrip v hv prog d i hw hW hc hs hlen g c hex
  rw [hdata] at hvals
  refine ⟨r, o, hr, hf, hvals, ?_, ?_, hty tyTimeStamp⟩
  · rw [hvals]; exact map_readUs_tsBytes uss hacc
  · rw [hvals]; exact map_readUsArr_tsBytes uss hacc

/-- a channel object holding the datetimes `uss` (what `ChannelObject(g, c, np.array(..., dtype='datetime64[us]'))`
    becomes after `_to_np_array` / `write_values`) -/
def dtChannel (g c : Bytes) (uss : List Int) (props : List WProp) : WObj :=
  .channel g c ⟨tyTimeStamp, uss.map tsBytes⟩ props

/-- the hypothesis `hdata` of `datetime_channel_roundtrip` when every write under `(g, c)` is a `dtChannel` -/
theorem dataHanded_dtChannels (prog : Program) (g c : Bytes) (writes : List (List Int × List WProp))
    (h : mine prog [g, c] = writes.map fun w => dtChannel g c w.1 w.2) :
    dataHanded prog [g, c] = (writes.flatMap (·.1)).map tsBytes := by
  unfold dataHanded
  rw [h]
  clear h
  induction writes with
  | nil => rfl
  | cons w ws ih =>
    rw [List.map_cons, List.flatMap_cons, List.flatMap_cons, List.map_append, ih]
    rfl

/-- **raw timestamps, channel data: bit-exact** -/
theorem raw_timestamp_channel_roundtrip (v : Nat) (hv : v = 4712 ∨ v = 4713) (prog : Program) (d i : Bytes)
    (hw : writeProgram v prog = some (d, i)) (hW : WritableProgram prog) (hc : typesConsistent prog)
    (hs : stringTotalsFit prog) (hlen : d.length < 2 ^ 63)
    (g c : Bytes) (hex : ∃ o ∈ handed prog, comps o = [g, c]) (sfs : List (Int × Nat))
    (hdata : dataHanded prog [g, c] = sfs.map rawBytes) (hacc : ∀ sf ∈ sfs, AcceptedRaw sf) :
    ∃ r o, readFile d = .ok r ∧ (content r).find? (·.path = componentsToPathBytes [g, c]) = some o ∧
      o.values = sfs.map rawBytes ∧ o.values.map ofBytesLE = sfs := by
  obtain ⟨r, o, hr, hf, hvals, _⟩ := channel_data_roundtrip v hv prog d i hw hW hc hs hlen g c hex
  rw [hdata] at hvals
  exact ⟨r, o, hr, hf, hvals, by rw [hvals]; exact map_ofBytesLE_rawBytes sfs hacc⟩

/-! ## 2b. the checked writer -/

/-- the property theorem for the CHECKED writer (`TdmsWriter` with its per-session type table): `typesConsistent` is
    replaced by "no type change across sessions" (trivial for one session) -/
theorem datetime_property_roundtrip_checked (v : Nat) (hv : v = 4712 ∨ v = 4713) (prog : Program) (d i : Bytes)
    (hw : writeProgramChecked v prog = some (d, i)) (hW : WritableProgram prog) (hx : CrossConsistent prog)
    (hs : stringTotalsFit prog) (hlen : d.length < 2 ^ 63)
    (cs : List Bytes) (n : Bytes) (us : Int) (hlast : lastProp prog cs n = some (.datetime us))
    (hacc : AcceptedUs us) :
    ∃ r o pv, readFile d = .ok r ∧ (content r).find? (·.path = componentsToPathBytes cs) = some o ∧
      o.props.find? (·.name = n) = some pv ∧ pv = ⟨n, tyTimeStamp, tsBytes us⟩ ∧
      pv.ty = tyTimeStamp ∧ pv.val.length = 16 ∧ readUs pv.val = us := by
  obtain ⟨hw', hc⟩ := hyps_of_checked hw hW hx
  exact datetime_property_roundtrip v hv prog d i hw' hW hc hs hlen cs n us hlast hacc

/-- the channel theorem for the CHECKED writer -/
theorem datetime_channel_roundtrip_checked (v : Nat) (hv : v = 4712 ∨ v = 4713) (prog : Program) (d i : Bytes)
    (hw : writeProgramChecked v prog = some (d, i)) (hW : WritableProgram prog) (hx : CrossConsistent prog)
    (hs : stringTotalsFit prog) (hlen : d.length < 2 ^ 63)
    (g c : Bytes) (hex : ∃ o ∈ handed prog, comps o = [g, c]) (uss : List Int)
    (hdata : dataHanded prog [g, c] = uss.map tsBytes) (hacc : ∀ us ∈ uss, AcceptedUs us) :
    ∃ r o, readFile d = .ok r ∧ (content r).find? (·.path = componentsToPathBytes [g, c]) = some o ∧
      o.values = uss.map tsBytes ∧ o.values.map readUs = uss ∧ o.values.map readUsArr = uss ∧
      ((∃ w ∈ handed prog, comps w = [g, c] ∧ tyOfW w = some tyTimeStamp) → o.dataType = some tyTimeStamp) := by
  obtain ⟨hw', hc⟩ := hyps_of_checked hw hW hx
  exact datetime_channel_roundtrip v hv prog d i hw' hW hc hs hlen g c hex uss hdata hacc

/-! ## 3. defragment -/

/-- every property of type `TimeStamp` of every object of every successful eager read holds exactly 16 bytes -/
theorem timestamp_property_length (file : Bytes) (r : EagerResult) (h : readFile file = .ok r)
    (o : ObjView) (ho : o ∈ content r) (pv : PropVal) (hp : pv ∈ o.props) (hty : pv.ty = tyTimeStamp) :
    pv.val.length = 16 :=
  content_timestamp_length h ho hp hty

/-- **`defragment` copies timestamps verbatim.**  For ANY source whose eager read `r` succeeds, with canonically
    spelled paths, that can be re-written (`CopyWritable r`): the eager read of the defragmented copy succeeds and
    under the path of every source object `o` holds an object `o'` with
    * the same values, byte for byte (so the same `datetime64[us]` array for a timestamp channel),
    * every `TimeStamp` property of `o` unchanged (same name, type, 16 bytes; same lookup result),
    * type `TimeStamp` if `o` is a non-empty `TimeStamp` channel. -/
theorem defragment_keeps_timestamps (src : Bytes) (v : Nat) (hv : v = 4712 ∨ v = 4713) (r : EagerResult) (d i : Bytes)
    (hr : readFile src = .ok r) (hd : defragment src v = some (d, i)) (hW : CopyWritable r)
    (hcan : SourceCanonical r) (hlen : d.length < 2 ^ 63) :
    ∃ r', readFile d = .ok r' ∧ ∀ o ∈ content r, ∃ o', (content r').find? (·.path = o.path) = some o' ∧
      o'.values = o.values ∧ o'.values.map readUs = o.values.map readUs ∧
      (∀ n pv, o.props.find? (·.name = n) = some pv → pv.ty = tyTimeStamp → o'.props.find? (·.name = n) = some pv) ∧
      (∀ pv ∈ o.props, pv.ty = tyTimeStamp → pv ∈ o'.props) ∧
      (isChannelPath o.path = true → o.dataType = some tyTimeStamp → o.values ≠ [] →
        o'.dataType = some tyTimeStamp) := by
  obtain ⟨r', hr', hcopy⟩ := defragment_copy_object src v hv r d i hr hd hW hcan hlen
  refine ⟨r', hr', fun o ho => ⟨copyOf o, hcopy o ho, rfl, rfl, ?_, ?_, ?_⟩⟩
  · intro n pv hf hty
    show (o.props.map rereadProp).find? (·.name = n) = some pv
    rw [find_map_reread, hf]
    have hl := content_timestamp_length hr ho (List.mem_of_find?_eq_some hf) hty
    simp only [Option.map_some, rereadProp_timestamp pv hty hl]
  · intro pv hp hty
    show pv ∈ o.props.map rereadProp
    have hl := content_timestamp_length hr ho hp hty
    exact List.mem_map.2 ⟨pv, hp, rereadProp_timestamp pv hty hl⟩
  · intro hch hty hne
    show (if isChannelPath o.path then retype o else none) = some tyTimeStamp
    rw [hch, if_pos rfl, retype_timestamp o hty hne]

/-- **the chain write → read → defragment → read, properties**: a datetime property written by a program still
    reads as the identical `datetime64[us]` from the defragmented copy of the written file -/
theorem datetime_survives_defragment (v : Nat) (hv : v = 4712 ∨ v = 4713) (prog : Program) (d i : Bytes)
    (hw : writeProgram v prog = some (d, i)) (hW : WritableProgram prog) (hc : typesConsistent prog)
    (hs : stringTotalsFit prog) (hlen : d.length < 2 ^ 63)
    (r : EagerResult) (hr : readFile d = .ok r) (hCW : CopyWritable r)
    (v' : Nat) (hv' : v' = 4712 ∨ v' = 4713) (d' i' : Bytes) (hd : defragment d v' = some (d', i'))
    (hlen' : d'.length < 2 ^ 63)
    (cs : List Bytes) (n : Bytes) (us : Int) (hlast : lastProp prog cs n = some (.datetime us))
    (hacc : AcceptedUs us) :
    ∃ r' o' pv, readFile d' = .ok r' ∧ (content r').find? (·.path = componentsToPathBytes cs) = some o' ∧
      o'.props.find? (·.name = n) = some pv ∧ pv = ⟨n, tyTimeStamp, tsBytes us⟩ ∧ readUs pv.val = us := by
  obtain ⟨r0, o, pv, hr0, hf, hp, hpv, hty, _, hus⟩ :=
    datetime_property_roundtrip v hv prog d i hw hW hc hs hlen cs n us hlast hacc
  rw [hr] at hr0
  cases hr0
  obtain ⟨r1, hr1, _, hpaths, _⟩ := read_object v hv prog d i hw hW hc hs hlen
  rw [hr] at hr1
  cases hr1
  have hcan := sourceCanonical_of_paths hpaths
  obtain ⟨r', hr', hall⟩ := defragment_keeps_timestamps d v' hv' r d' i' hr hd hCW hcan hlen'
  have ho := List.mem_of_find?_eq_some hf
  have hpath := List.find?_some hf
  simp only [decide_eq_true_eq] at hpath
  obtain ⟨o', hf', _, _, hprops, _⟩ := hall o ho
  rw [hpath] at hf'
  exact ⟨r', o', pv, hr', hf', hprops n pv hp hty, hpv, hus⟩

/-- **the chain write → read → defragment → read, channel data**: datetime channel data written by a program
    (possibly fragmented over many segments) still read as the identical `datetime64[us]` array from the
    defragmented copy, where they stand in ONE segment -/
theorem datetime_channel_survives_defragment (v : Nat) (hv : v = 4712 ∨ v = 4713) (prog : Program) (d i : Bytes)
    (hw : writeProgram v prog = some (d, i)) (hW : WritableProgram prog) (hc : typesConsistent prog)
    (hs : stringTotalsFit prog) (hlen : d.length < 2 ^ 63)
    (r : EagerResult) (hr : readFile d = .ok r) (hCW : CopyWritable r)
    (v' : Nat) (hv' : v' = 4712 ∨ v' = 4713) (d' i' : Bytes) (hd : defragment d v' = some (d', i'))
    (hlen' : d'.length < 2 ^ 63)
    (g c : Bytes) (hex : ∃ o ∈ handed prog, comps o = [g, c]) (uss : List Int)
    (hdata : dataHanded prog [g, c] = uss.map tsBytes) (hacc : ∀ us ∈ uss, AcceptedUs us) :
    ∃ r' o', readFile d' = .ok r' ∧ (content r').find? (·.path = componentsToPathBytes [g, c]) = some o' ∧
      o'.values = uss.map tsBytes ∧ o'.values.map readUs = uss ∧ o'.values.map readUsArr = uss ∧
      ((∃ w ∈ handed prog, comps w = [g, c] ∧ tyOfW w = some tyTimeStamp) → uss ≠ [] →
        o'.dataType = some tyTimeStamp) := by
  obtain ⟨r0, o, hr0, hf, hvals, hus, _, hty⟩ :=
    datetime_channel_roundtrip v hv prog d i hw hW hc hs hlen g c hex uss hdata hacc
  rw [hr] at hr0
  cases hr0
  obtain ⟨r1, hr1, _, hpaths, _⟩ := read_object v hv prog d i hw hW hc hs hlen
  rw [hr] at hr1
  cases hr1
  have hcan := sourceCanonical_of_paths hpaths
  obtain ⟨r', hr', hall⟩ := defragment_keeps_timestamps d v' hv' r d' i' hr hd hCW hcan hlen'
  have ho := List.mem_of_find?_eq_some hf
  have hpath := List.find?_some hf
  simp only [decide_eq_true_eq] at hpath
  obtain ⟨o', hf', hv1, _, _, _, hty'⟩ := hall o ho
  rw [hpath] at hf'
  have hv2 : o'.values = uss.map tsBytes := by rw [hv1, hvals]
  refine ⟨r', o', hr', hf', hv2, ?_, ?_, ?_⟩
  · rw [hv2]; exact map_readUs_tsBytes uss hacc
  · rw [hv2]; exact map_readUsArr_tsBytes uss hacc
  · intro hw' hne
    apply hty'
    · rw [hpath]
      unfold isChannelPath
      rw [classifyPath_channel]
    · exact hty hw'
    · rw [hvals]
      cases uss with
      | nil => exact absurd rfl hne
      | cons a as => simp

/-! ## 4. non-vacuity: concrete datetimes, computed by the kernel -/

section Example

/-- the datetimes of the example, as Unix microseconds: 1970-01-01T00:00:00, 1969-12-31T23:59:59.999999,
    1970-01-01T00:00:00.999999, the TDMS epoch 1904-01-01T00:00:00, one microsecond before it
    (1903-12-31T23:59:59.999999), 0001-01-01T00:00:00 (the first Python `datetime`), 9999-12-31T23:59:59.999999 (the
    last), 2023-11-14T22:13:20.123456, and the ends of the int64 microsecond range (`-2^63` is the bit pattern NumPy
    reserves for NaT — here it is just an integer: the model has no NaT) -/
def usList : List Int :=
  [0, -1, 999999, -2082844800000000, -2082844800000001, -62135596800000000, 253402300799999999,
   1700000000123456, 2 ^ 63 - 1, -2 ^ 63 + 1, -2 ^ 63]

theorem usList_accepted : ∀ us ∈ usList, AcceptedUs us := by decide +kernel

/-- the written `(seconds, fractions)` of some of them: before 1904 the seconds are negative and the fractions
    count up from the second below; `.999999` is `⌊999999 · 2^64 / 10^6⌋` -/
example :
    ofBytesLE (tsBytes 0) = (2082844800, 0) ∧
    ofBytesLE (tsBytes (-2082844800000001)) = (-1, 18446725626965477906) ∧
    ofBytesLE (tsBytes 999999) = (2082844800, 18446725626965477906) ∧
    ofBytesLE (tsBytes (-62135596800000000)) = (-60052752000, 0) ∧
    ofBytesLE (tsBytes 253402300799999999) = (255485145599, 18446725626965477906) ∧
    ofBytesLE (tsBytes 1700000000123456) = (3782844800, 2277361236363886404) ∧
    tsBytes (-2082844800000001) = [18, 74, 95, 8, 57, 239, 255, 255, 255, 255, 255, 255, 255, 255, 255, 255] := by
  decide +kernel

/-- value-level round trip, evaluated (independently of the theorem) on all of them, scalar and array path -/
example : usList.map (fun us => readUs (tsBytes us)) = usList ∧ usList.map (fun us => readUsArr (tsBytes us)) = usList := by
  decide +kernel

/-- two sessions.  Root: datetime properties `t` (Unix epoch) and `u` (one µs before 1904).  Group `g`: a far-future
    datetime and a raw timestamp.  Channel `g/c`: datetime data in THREE writes (4 + 7 + 0 values, the last one an
    empty datetime array in a second session), its property `t` written three times (the last value wins), a
    property `s` at the end of the int64 range.  Channel `g/r`: raw timestamps at the corners of the raw range. -/
def exTime : Program :=
  [ [ [ .root [⟨[0x74], .datetime 0⟩, ⟨[0x75], .datetime (-2082844800000001)⟩],
        .group [0x67] [⟨[0x74], .datetime 253402300799999999⟩, ⟨[0x72], .rawTimestamp (-1) (2 ^ 64 - 1)⟩],
        dtChannel [0x67] [0x63] (usList.take 4) [⟨[0x74], .datetime 1⟩, ⟨[0x74], .datetime (-62135596800000000)⟩],
        .channel [0x67] [0x72] ⟨tyTimeStamp, [(-2 ^ 63, 0), (2 ^ 63 - 1, 2 ^ 64 - 1), (0, 1)].map rawBytes⟩ [] ],
      [ dtChannel [0x67] [0x63] (usList.drop 4) [⟨[0x74], .datetime 1700000000999999⟩] ] ],
    [ [ dtChannel [0x67] [0x63] [] [⟨[0x73], .datetime (2 ^ 63 - 1)⟩] ] ] ]

theorem exTime_hyps : WritableProgram exTime ∧ typesConsistent exTime ∧ stringTotalsFit exTime := by
  decide +kernel

theorem exTime_length : (writeProgram 4713 exTime).map (·.1.length) = some 722 := by decide +kernel

/-- the hypotheses about the program of the property and channel theorems, for the example -/
theorem exTime_facts :
    lastProp exTime [] [0x75] = some (.datetime (-2082844800000001)) ∧
    lastProp exTime [[0x67]] [0x74] = some (.datetime 253402300799999999) ∧
    lastProp exTime [[0x67]] [0x72] = some (.rawTimestamp (-1) (2 ^ 64 - 1)) ∧
    lastProp exTime [[0x67], [0x63]] [0x74] = some (.datetime 1700000000999999) ∧
    lastProp exTime [[0x67], [0x63]] [0x73] = some (.datetime (2 ^ 63 - 1)) ∧
    dataHanded exTime [[0x67], [0x63]] = usList.map tsBytes ∧
    dataHanded exTime [[0x67], [0x72]] = [(-2 ^ 63, 0), (2 ^ 63 - 1, 2 ^ 64 - 1), (0, 1)].map rawBytes ∧
    (∀ sf ∈ [((-2 : Int) ^ 63, 0), (2 ^ 63 - 1, 2 ^ 64 - 1), (0, 1)], AcceptedRaw sf) := by
  decide +kernel

/-- a property as the example shows it: name, TDMS type, the bytes converted by the reader's scalar conversion -/
structure PropRow where
  name : Bytes
  ty : Nat
  us : Int
deriving DecidableEq, Repr

/-- an object as the example shows it: path, type code (0 = none), properties, the values converted by the reader's
    array conversion -/
structure Row where
  path : Bytes
  ty : Nat
  props : List PropRow
  us : List Int
deriving DecidableEq, Repr

def rowsOf (vs : List ObjView) : List Row :=
  vs.map fun o => ⟨o.path, o.dataType.getD 0, o.props.map (fun p => ⟨p.name, p.ty, readUs p.val⟩), o.values.map readUsArr⟩

/-- what the example reads back -/
def exRows : List Row :=
  [ ⟨[47], 0, [⟨[0x74], 0x44, 0⟩, ⟨[0x75], 0x44, -2082844800000001⟩], []⟩,
    ⟨[47, 39, 0x67, 39], 0, [⟨[0x74], 0x44, 253402300799999999⟩, ⟨[0x72], 0x44, -2082844800000001⟩], []⟩,
    ⟨[47, 39, 0x67, 39, 47, 39, 0x63, 39], 0x44, [⟨[0x74], 0x44, 1700000000999999⟩, ⟨[0x73], 0x44, 2 ^ 63 - 1⟩], usList⟩,
    ⟨[47, 39, 0x67, 39, 47, 39, 0x72, 39], 0x44, [],
      [-9223372038937620608000000, 9223372034771931007999999, -2082844800000000]⟩ ]

/-- independent check by kernel evaluation of the two models: write, read, convert every property and every value
    with the reader's conversion (data type shown as its code, 0 = none) -/
theorem exTime_read :
    ((writeProgram 4713 exTime).bind fun di => (readFile di.1).toOption.map fun r => rowsOf (content r)) =
      some exRows := by
  decide +kernel

/-- the headline theorems applied to the example: their hypotheses are satisfiable -/
example : ∃ d i r oc, writeProgram 4713 exTime = some (d, i) ∧ readFile d = .ok r ∧
    (content r).find? (·.path = componentsToPathBytes [[0x67], [0x63]]) = some oc ∧
    oc.props.find? (·.name = [0x74]) = some ⟨[0x74], tyTimeStamp, tsBytes 1700000000999999⟩ ∧
    oc.values.map readUsArr = usList ∧ oc.dataType = some tyTimeStamp := by
  obtain ⟨hW, hc, hs⟩ := exTime_hyps
  obtain ⟨d, i, hw⟩ := writeProgram_of_writable 4713 exTime hW
  have hl := exTime_length
  rw [hw] at hl
  simp only [Option.map_some, Option.some.injEq] at hl
  have hlen : d.length < 2 ^ 63 := by rw [hl]; decide
  obtain ⟨_, _, _, h4, _, h6, _, _⟩ := exTime_facts
  have hex : ∃ o ∈ handed exTime, comps o = [[0x67], [0x63]] :=
    ⟨dtChannel [0x67] [0x63] [] [⟨[0x73], .datetime (2 ^ 63 - 1)⟩], by decide +kernel, rfl⟩
  obtain ⟨r, o, pv, hr, hf, hp, hpv, _⟩ := datetime_property_roundtrip 4713 (.inr rfl) exTime d i hw hW hc hs hlen
    [[0x67], [0x63]] [0x74] 1700000000999999 h4 (by decide +kernel)
  obtain ⟨r2, o2, hr2, hf2, _, _, harr, hty⟩ := datetime_channel_roundtrip 4713 (.inr rfl) exTime d i hw hW hc hs hlen
    [0x67] [0x63] hex usList h6 usList_accepted
  rw [hr] at hr2
  cases hr2
  rw [hf] at hf2
  cases hf2
  refine ⟨d, i, r, o, hw, hr, hf, by rw [hp, hpv], harr, hty ?_⟩
  exact ⟨dtChannel [0x67] [0x63] [] [⟨[0x73], .datetime (2 ^ 63 - 1)⟩], by decide +kernel, rfl, rfl⟩

set_option maxRecDepth 100000 in
/-- the written file meets the hypotheses of the defragment theorems, and — independent check by kernel evaluation —
    the defragmented copy (603 bytes, the 11 datetimes of channel `g/c` in one segment) reads back the same
    datetimes -/
theorem exTime_defragment :
    ((writeProgram 4713 exTime).bind fun di => (readFile di.1).toOption.map fun r =>
      (decide (CopyWritable r), decide (SourceCanonical r))) = some (true, true) ∧
    ((writeProgram 4713 exTime).bind fun di => (defragment di.1 4713).bind fun di' =>
      (readFile di'.1).toOption.map fun r' => (di'.1.length, rowsOf (content r'))) = some (603, exRows) := by
  decide +kernel

/-- the chain theorem applied to the example -/
example : ∃ d i d' i' r' oc, writeProgram 4713 exTime = some (d, i) ∧ defragment d 4713 = some (d', i') ∧
    readFile d' = .ok r' ∧ (content r').find? (·.path = componentsToPathBytes [[0x67], [0x63]]) = some oc ∧
    oc.values.map readUsArr = usList := by
  obtain ⟨hW, hc, hs⟩ := exTime_hyps
  obtain ⟨d, i, hw⟩ := writeProgram_of_writable 4713 exTime hW
  have hl := exTime_length
  rw [hw] at hl
  simp only [Option.map_some, Option.some.injEq] at hl
  have hlen : d.length < 2 ^ 63 := by rw [hl]; decide
  obtain ⟨h1, h2⟩ := exTime_defragment
  rw [hw] at h1 h2
  simp only [Option.bind_some] at h1 h2
  cases hr : readFile d with
  | error e => rw [hr] at h1; cases h1
  | ok r =>
    rw [hr] at h1
    simp only [Except.toOption, Option.map_some, Option.some.injEq, Prod.mk.injEq, decide_eq_true_eq] at h1
    cases hd : defragment d 4713 with
    | none => rw [hd] at h2; cases h2
    | some di' =>
      obtain ⟨d', i'⟩ := di'
      rw [hd] at h2
      simp only [Option.bind_some] at h2
      have hlen' : d'.length < 2 ^ 63 := by
        cases hr' : readFile d' with
        | error e => rw [hr'] at h2; cases h2
        | ok r' =>
          rw [hr'] at h2
          simp only [Except.toOption, Option.map_some, Option.some.injEq, Prod.mk.injEq] at h2
          rw [h2.1]; decide
      have hex : ∃ o ∈ handed exTime, comps o = [[0x67], [0x63]] :=
        ⟨dtChannel [0x67] [0x63] [] [⟨[0x73], .datetime (2 ^ 63 - 1)⟩], by decide +kernel, rfl⟩
      obtain ⟨r', o', hr', hf', _, _, harr, _⟩ := datetime_channel_survives_defragment 4713 (.inr rfl) exTime d i hw hW hc
        hs hlen r hr h1.1 4713 (.inr rfl) d' i' hd hlen' [0x67] [0x63] hex usList exTime_facts.2.2.2.2.2.1
        usList_accepted
      exact ⟨d, i, d', i', r', o', hw, hd, hr', hf', harr⟩

end Example

end Tdms.Proofs.C12File
