import TdmsProofs.Properties.C16
import TdmsProofs.Properties.C16Tied

/-!
# C16 (tied, composed): round-trip and non-aliasing stated on the GENERATED functions themselves

`C16.lean` proves round-trip and injectivity for the model functions `pathOf` / `pathComponents` over an
arbitrary alphabet; `C16Tied.lean` proves that the definitions regenerated from `nptdms/common.py`
(`_components_to_path`, `_path_components`) ARE those model functions at `Char` with quote `'` and slash
`/`.  The theorems below compose the two, so that the property is a statement about the source-derived
definitions alone: nothing hand-written remains between the statement and the translated Python.

Every `theorem` of this file is a registered proof obligation.
-/

namespace Tdms.Proofs.C16TiedRoundtrip
open Tdms Tdms.Model.Path Tdms.Generated Tdms.Generated.Code Tdms.Proofs.C16 Tdms.Proofs.C16Tied Tdms.Proofs.Tied

private def qs_ne : qChar ≠ sChar := by decide

/-- `list(_path_components(_components_to_path(g, c)))` is `[g, c]` without the `None`s, for ARBITRARY
    names (quotes, slashes, empty names, any code points) — on the generated functions. -/
theorem generated_roundtrip (group channel : Option (List Char)) :
    _path_components (_components_to_path group channel) = .ok (group.toList ++ channel.toList) := by
  rw [_components_to_path_tied, _path_components_tied]
  show (pathComponents qChar sChar (componentsToPath qChar sChar _)).mapError errName = _
  rw [path_roundtrip qs_ne]
  rfl

/-- `_path_components` never raises on a path that `_components_to_path` produced. -/
theorem generated_never_raises (group channel : Option (List Char)) :
    ∃ cs, _path_components (_components_to_path group channel) = .ok cs :=
  ⟨_, generated_roundtrip group channel⟩

/-- Non-aliasing on the generated function: two `(group, channel)` pairs that an `ObjectPath` can hold
    (no channel without a group) with the same path string are the same pair. -/
theorem generated_injective {g₁ c₁ g₂ c₂ : Option (List Char)}
    (hwf₁ : IsObjectPath g₁ c₁) (hwf₂ : IsObjectPath g₂ c₂)
    (heq : _components_to_path g₁ c₁ = _components_to_path g₂ c₂) : (g₁, c₁) = (g₂, c₂) := by
  rw [_components_to_path_tied, _components_to_path_tied] at heq
  exact object_path_injective qs_ne hwf₁ hwf₂ heq

/-- The component list is always recoverable, even for the pairs `ObjectPath` cannot hold. -/
theorem generated_components_injective {g₁ c₁ g₂ c₂ : Option (List Char)}
    (heq : _components_to_path g₁ c₁ = _components_to_path g₂ c₂) :
    g₁.toList ++ c₁.toList = g₂.toList ++ c₂.toList := by
  have h₁ := generated_roundtrip g₁ c₁
  rw [heq, generated_roundtrip g₂ c₂] at h₁
  exact (Except.ok.inj h₁).symm

/-- Root, group and channel paths produced by the generated function never coincide, and a channel path
    determines both of its names. -/
theorem generated_shapes (g g' c c' : List Char) :
    (_components_to_path none none ≠ _components_to_path (some g) none) ∧
    (_components_to_path none none ≠ _components_to_path (some g) (some c)) ∧
    (_components_to_path (some g) none ≠ _components_to_path (some g') (some c')) ∧
    (_components_to_path (some g) (some c) = _components_to_path (some g') (some c') → g = g' ∧ c = c') := by
  simp only [_components_to_path_tied]
  obtain ⟨h1, h2, h3, _, h5⟩ := object_path_injective_shapes qs_ne g g' c c'
  exact ⟨h1, h2, h3, h5⟩

/-! ### Non-vacuity: the generated functions computed on nasty names -/

example : _components_to_path (some "it's".toList) (some "a/b".toList) = "/'it''s'/'a/b'".toList := by
  decide +kernel
example : _path_components "/'it''s'/'a/b'".toList = .ok ["it's".toList, "a/b".toList] := by
  decide +kernel
example : _path_components "/'''/'''/'/''/'".toList = .ok ["'/'".toList, "/'/".toList] := by
  decide +kernel
example : _components_to_path (some "'/'".toList) (some "/'/".toList) = "/'''/'''/'/''/'".toList := by
  decide +kernel
example : _components_to_path (some []) (some []) ≠ _components_to_path (some []) none := by
  decide +kernel

end Tdms.Proofs.C16TiedRoundtrip
