/-
  C01 ("reading returns exactly the content the file encodes"): the COMPOSED theorem for files of ANY
  NUMBER OF SEGMENTS.

  The model reader (`Tdms/Model/Reader.lean`, `Tdms/Model/Data.lean`) applied to the spec encoding
  (`Tdms/Spec/Format.lean`) of a well-formed multi-segment file returns exactly the spec's meaning
  (`Tdms/Spec/Meaning.lean`).  Lemmas: `TdmsProofs/Lemmas/C01Multi{Parse,Spec,Content,Types,Meta,Loop,Data,
  File,Canon}.lean`, on top of the C01 layer theorems, the one-segment composition (`C01Compose*`), C02's
  refinement of the metadata state machine (`FileInv`, `segObjects_refines`, `fileStep_post`,
  `readSegmentObjects_eq`) and C06's loop lemmas.  Core Lean only.

  The class `MultiStd e` (defined in `C01MultiSpec.lean`):
    * every segment: `interleaved = false`, `lengthUnknown = false`, no DAQmx index listed
      (`stdListed`: every listed index is `noData`, `matchesPrev` or `full ty n total`);
    * `wellFormed e = true`.
  Segments may have `hasMeta = false` (the previous object list is reused), `newList = false`
  (incremental lists), `matchesPrev` indexes, changed `numberValues`, objects appearing, disappearing
  and re-appearing, properties added or overwritten later, either byte order per segment, any padding,
  any number of chunks, `rawFlag = false`.
  Size side conditions `FileFits e`: per segment fewer than 2^32 objects; per object fewer than 2^32
  properties, `propFits` for each, and the `total` of a listed string index below 2^32 (string offsets inside
  a chunk are 4-byte fields); and the file is shorter than 2^63 bytes.
-/
import TdmsProofs.Lemmas.C01MultiCanon

namespace Tdms.Proofs.C01Multi

open Tdms Tdms.Generated Tdms.Model Tdms.Proofs.C02
open Tdms.Proofs.Bytes (canonProp)
open Tdms.Proofs.C01Compose (pairsChunk bump content contentOfDenote ObjView)

/-! ## 0. the bytes, and the guard of C02 -/

/-- the bytes of a file of the class: the concatenation of the encoded segments, each laid out with its
    active object list -/
theorem encodeFile_multi_bytes (e : FileEnc) (h : MultiStd e) :
    ∃ acts, activeLists none [] e = .ok acts ∧ encodeFile e = .ok (zipEncode encodeSeg e acts) := by
  obtain ⟨acts, ha, _⟩ := h.acts
  exact ⟨acts, ha, by simp [encodeFile, ha]⟩

/-- **the `NoBareReuse` guard of C02 is implied by `wellFormed`** (the one divergence between model and
    spec — "matches previous" on a path seen only without index — is rejected by the spec, so it never
    occurs in an encoding the spec accepts) -/
theorem noBareReuse_of_wellFormed (e : FileEnc) (h : wellFormed e = true) : NoBareReuse [] none [] e := by
  have hnd := wellFormed_noDup h
  unfold wellFormed at h
  cases ha : activeLists none [] e with
  | error r => rw [ha] at h; cases h
  | ok acts => exact noBareReuse_of_ok e [] none [] acts ha hnd

/-! ## 1. metadata -/

/-- the `object_metadata` entry the reader ends with for a content entry of `denote`: same path, the data
    type, the properties (last write wins across all segments, by the spec's `setProp` folds) in the
    reader's canonical form, and as many values as `denote` assigns to the object -/
def objMetaOfContent (oc : ObjContent) : ObjMeta :=
  { path := oc.path, props := oc.props.map canonProp, dataType := oc.ty, scalerTypes := none,
    numValues := oc.values.length }

-- `segRecsC 0 e acts` (defined in `C01MultiCanon.lean`) lists, for segment `i` with active list `a`,
--   { position := (sum of the byte lengths of segments 0..i-1), toc := tocMask s,
--     nextSegmentPos := position + (encodeSeg s a).length, dataPosition := position + 28 + (segMeta s).length,
--     incomplete := false, objects := a.map concObjC, numChunks := s.chunks.length, override := none }
-- where `concObjC a = concObj (canonAct a)` is C02's `concObj` with the data size of a fixed-width channel
-- computed as `n * size` (the `total` field of such an index is never written).

/-- byte offset of segment `i` -/
def segOffset (ss : List SegEnc) (as : List (List ActiveObj)) (i : Nat) : Nat :=
  (((ss.zip as).take i).map fun sa => (encodeSeg sa.1 sa.2).length).sum

theorem segRecsC_getElem? : ∀ (ss : List SegEnc) (as : List (List ActiveObj)) (pos i : Nat),
    (segRecsC pos ss as)[i]? = (ss.zip as)[i]?.map fun sa => segRecC (pos + segOffset ss as i) sa.1 sa.2 := by
  intro ss
  induction ss with
  | nil => intro as pos i; cases as <;> simp [segRecsC]
  | cons s ss ih =>
    intro as pos i
    cases as with
    | nil => simp [segRecsC]
    | cons a as =>
      cases i with
      | zero => simp [segRecsC, segOffset]
      | succ i =>
        simp only [segRecsC, List.zip_cons_cons, List.getElem?_cons_succ, ih]
        congr 1
        funext sa
        simp only [segOffset, List.zip_cons_cons, List.take_succ_cons, List.map_cons, List.sum_cons,
          Nat.add_assoc]

/-- **metadata of a multi-segment file**: `readMetadata` succeeds; one `Segment` record per segment, at
    the sum of the lengths of the previous segments, with the data position, the number of chunks, no
    truncation, and the object list = the spec's active list of that segment (C02's concretisation);
    `object_metadata` is, entry by entry and in the same order, the view of `denote`'s content. -/
theorem read_metadata_multi (e : FileEnc) (h : MultiStd e) (fit : FileFits e) (bytes : Bytes)
    (hb : encodeFile e = .ok bytes) (hlen : bytes.length < 2 ^ 63) :
    ∃ st acts c, readMetadata bytes = .ok st ∧ activeLists none [] e = .ok acts ∧ denote e = .ok c ∧
      st.segments = segRecsC 0 e acts ∧ st.objects = c.map objMetaOfContent ∧
      st.version = e.head?.map fun s => (s.version : Int) := by
  obtain ⟨acts, ha, hbytes⟩ := encodeFile_multi_bytes e h
  rw [hbytes] at hb
  injection hb with hb
  subst hb
  have hok := segsOK_canon e acts (segsOK0_of_multi h fit ha)
  have hac := activeLists_canon e none [] acts ha
  rw [← zipEncode_canon] at hlen ⊢
  obtain ⟨st, h1, h2, h3, h4⟩ := readMetadata_multi _ _ hac hok hlen
  refine ⟨st, acts, denoteSegs [] e acts, h1, ha, by simp [denote, ha], ?_, ?_, ?_⟩
  · rw [h2, segRecs_canon]
  · rw [h3, denoteSegs_canon]; rfl
  · rw [h4]; cases e <;> rfl

/-- for an encoding whose fixed-width indexes carry the canonical `total` (`n * size`, what
    `read_raw_data_index` computes), the object lists are literally C02's `concObj` of the active lists -/
theorem read_metadata_multi_objects (e : FileEnc) (acts : List (List ActiveObj))
    (ha : activeLists none [] e = .ok acts) (hc : e.map canonSeg = e) :
    ∀ a ∈ acts, a.map concObjC = a.map concObj := by
  have h := activeLists_canon e none [] acts ha
  rw [hc] at h
  have h' : activeLists none [] e = .ok (acts.map (·.map canonAct)) := h
  rw [ha] at h'
  injection h' with h'
  intro a hmem
  obtain ⟨i, hi, rfl⟩ := List.getElem_of_mem hmem
  have : (acts.map (·.map canonAct))[i]'(by simpa using hi) = acts[i] := by
    have := congrArg (fun l => l[i]?) h'
    simp only [List.getElem?_eq_getElem hi, List.getElem?_map, Option.map_some] at this
    simpa using this.symm
  simp only [List.getElem_map] at this
  calc acts[i].map concObjC = (acts[i].map canonAct).map concObj := by
        rw [List.map_map]; rfl
    _ = acts[i].map concObj := by rw [this]

/-! ## 2. raw data -/

-- `rawChunksAll e acts` (defined in `C01MultiData.lean`) is the concatenation over the segments of
--   (if !s.rawFlag then [[]] else []) ++ s.chunks.map fun ch => pairsChunk (pairsOf (dataObjs a) ch)
-- i.e. per chunk the paths of the segment's data objects, in order, each with its values; preceded by the
-- empty chunk npTDMS emits for a segment without the raw-data flag.

/-- **raw data of a multi-segment file**: started from any file state, `readRawDataAll` over the segment
    records yields the concatenation over the segments of each segment's chunk list -/
theorem read_data_multi (e : FileEnc) (h : MultiStd e) (fit : FileFits e) (bytes : Bytes)
    (hb : encodeFile e = .ok bytes) (hlen : bytes.length < 2 ^ 63) (fs : FState) :
    ∃ st acts fs', readMetadata bytes = .ok st ∧ activeLists none [] e = .ok acts ∧
      (readRawDataAll bytes st.segments).run fs = .ok (rawChunksAll e acts, fs') := by
  obtain ⟨acts, ha, hbytes⟩ := encodeFile_multi_bytes e h
  rw [hbytes] at hb
  injection hb with hb
  subst hb
  have hok := segsOK_canon e acts (segsOK0_of_multi h fit ha)
  have hac := activeLists_canon e none [] acts ha
  have hnd := actsNodup_canon (activeLists_nodup e none [] acts ha SpecInv.init (wellFormed_noDup h.wf))
  rw [← zipEncode_canon] at hlen ⊢
  obtain ⟨st, h1, h2, _, _⟩ := readMetadata_multi _ _ hac hok hlen
  obtain ⟨fs', h3⟩ := readRawDataAll_multi _ _ _ 0 fs hok hnd rfl
  exact ⟨st, acts, fs', h1, ha, by rw [h2, ← rawChunksAll_canon]; exact h3⟩

/-! ## 3. the composed theorem -/

/-- **reading returns exactly the content the file encodes** (files of any number of segments):
    `readFile` succeeds on the encoding, `denote` is defined, and both list the same objects in the same
    order with the same data types, the same properties (name, type, canonical value; last write wins across
    segments) and the same values (file-order concatenation over all chunks of all segments). -/
theorem read_encode_multi (e : FileEnc) (h : MultiStd e) (fit : FileFits e) (hch : onlyChannelsHaveDataM e)
    (bytes : Bytes) (hb : encodeFile e = .ok bytes) (hlen : bytes.length < 2 ^ 63) :
    ∃ r c, readFile bytes = .ok r ∧ denote e = .ok c ∧ content r = contentOfDenote c := by
  obtain ⟨acts, ha, hbytes⟩ := encodeFile_multi_bytes e h
  rw [hbytes] at hb
  injection hb with hb
  subst hb
  have hok := segsOK_canon e acts (segsOK0_of_multi h fit ha)
  have hac := activeLists_canon e none [] acts ha
  have hnd := actsNodup_canon (activeLists_nodup e none [] acts ha SpecInv.init (wellFormed_noDup h.wf))
  have hch' : ∀ sa ∈ (e.map canonSeg).zip (acts.map (·.map canonAct)), ChannelsOnly sa := by
    intro sa hsa hne x hx hd
    rw [List.zip_map, List.mem_map] at hsa
    obtain ⟨sa0, hsa0, rfl⟩ := hsa
    simp only [Prod.map_snd, List.mem_map] at hx
    obtain ⟨x0, hx0, rfl⟩ := hx
    exact hch acts ha sa0 hsa0 hne x0 hx0 hd
  rw [← zipEncode_canon] at hlen ⊢
  obtain ⟨st, _, hobjs, hread⟩ := readFile_multi _ _ hac hok hnd hch' hlen
  rw [denoteSegs_canon] at hobjs hread
  refine ⟨_, denoteSegs [] e acts, hread, by simp [denote, ha], ?_⟩
  have := content_multi _ _ hok hch' st (by rw [denoteSegs_canon]; exact hobjs)
  rwa [denoteSegs_canon] at this

/-! ## 4. the values `denote` assigns, in closed form -/

-- `allPairs e acts` (defined in `C01MultiFile.lean`): over the segments in order, over the chunks of the
-- segment in order, the (path, values) pairs `(dataObjs a).map (·.path) |>.zip chunk`.

/-- `denote` lists every path once, and the values of an object are the concatenation, in file order, of
    every value list written under its path -/
theorem denote_multi_values (e : FileEnc) (h : MultiStd e) (fit : FileFits e) :
    ∃ acts c, activeLists none [] e = .ok acts ∧ denote e = .ok c ∧ (c.map (·.path)).Nodup ∧
      ∀ oc ∈ c, oc.values = ((allPairs e acts).filter fun pv => decide (pv.1 = oc.path)).flatMap (·.2) := by
  obtain ⟨acts, ha, _⟩ := encodeFile_multi_bytes e h
  have hok := segsOK_canon e acts (segsOK0_of_multi h fit ha)
  have hnodup := denoteSegs_nodup _ _ [] hok (by simp)
  have hvals := valsOf_denoteSegs _ _ [] hok
  rw [denoteSegs_canon, allPairs_canon] at hvals
  rw [denoteSegs_canon] at hnodup
  refine ⟨acts, denoteSegs [] e acts, ha, by simp [denote, ha], hnodup, ?_⟩
  intro oc hoc
  have hvoc : valsOf (denoteSegs [] e acts) oc.path = oc.values := by
    unfold valsOf
    rw [find_of_nodup hnodup hoc]
    rfl
  rw [← hvoc, hvals, bump_foldl_closed]
  rfl

/-! ## 5. executable forms of the hypotheses -/

def isDaqIdx : IdxEnc → Bool
  | .daqmx .. => true
  | _ => false

def segStdB (s : SegEnc) : Bool := !s.interleaved && !s.lengthUnknown && s.objs.all fun o => !isDaqIdx o.idx

def multiStdB (e : FileEnc) : Bool := e.all segStdB && wellFormed e

theorem multiStdB_sound {e : FileEnc} (h : multiStdB e = true) : MultiStd e := by
  simp only [multiStdB, Bool.and_eq_true, List.all_eq_true] at h
  refine ⟨?_, h.2⟩
  intro s hs
  have := h.1 s hs
  simp only [segStdB, Bool.and_eq_true, Bool.not_eq_true', List.all_eq_true] at this
  refine ⟨this.1.1, this.1.2, ?_⟩
  intro o ho dg ty n sc w hi
  have := this.2 o ho
  rw [hi] at this
  cases this

def propFitsB (p : PropEnc) : Bool :=
  decide (p.name.length < 2 ^ 32) && (!decide (p.ty = tyString) || decide (p.val.length < 2 ^ 32))

def objFitsB (o : ObjEnc) : Bool :=
  (match o.idx with
   | .full ty _ total => !decide (ty = tyString) || decide (total < 2 ^ 32)
   | _ => true) && decide (o.props.length < 2 ^ 32) && o.props.all propFitsB

def fileFitsB (e : FileEnc) : Bool := e.all fun s => decide (s.objs.length < 2 ^ 32) && s.objs.all objFitsB

theorem fileFitsB_sound {e : FileEnc} (h : fileFitsB e = true) : FileFits e := by
  intro s hs
  simp only [fileFitsB, List.all_eq_true, Bool.and_eq_true, decide_eq_true_eq] at h
  obtain ⟨h1, h2⟩ := h s hs
  refine ⟨h1, ?_⟩
  intro o ho
  have := h2 o ho
  simp only [objFitsB, Bool.and_eq_true, decide_eq_true_eq, List.all_eq_true] at this
  obtain ⟨⟨h3, h4⟩, h5⟩ := this
  refine ⟨?_, h4, ?_⟩
  · intro n total hi
    rw [hi] at h3
    simpa using h3
  · intro p hp
    have := h5 p hp
    simp only [propFitsB, Bool.and_eq_true, decide_eq_true_eq, Bool.or_eq_true, Bool.not_eq_true',
      decide_eq_false_iff_not] at this
    refine ⟨this.1, ?_⟩
    intro hty
    rcases this.2 with h | h
    · exact absurd hty h
    · exact h

/-- the composed theorem with every hypothesis as a Boolean check -/
theorem read_encode_multi_checked (e : FileEnc) (h : multiStdB e = true) (fit : fileFitsB e = true)
    (hch : onlyChannelsHaveDataB e = true) (bytes : Bytes) (hb : encodeFile e = .ok bytes)
    (hlen : bytes.length < 2 ^ 63) :
    ∃ r c, readFile bytes = .ok r ∧ denote e = .ok c ∧ content r = contentOfDenote c :=
  read_encode_multi e (multiStdB_sound h) (fileFitsB_sound fit) (onlyChannelsHaveDataB_sound hch) bytes hb hlen

/-! ## 6. non-vacuity: a concrete seven-segment file -/

section Example

def exRoot : Bytes := [47]                                        -- "/"
def exGroup : Bytes := [47, 39, 103, 39]                          -- "/'g'"
def exA : Bytes := [47, 39, 103, 39, 47, 39, 97, 39]              -- "/'g'/'a'"
def exB : Bytes := [47, 39, 103, 39, 47, 39, 98, 39]              -- "/'g'/'b'"
def exS : Bytes := [47, 39, 103, 39, 47, 39, 115, 39]             -- "/'g'/'s'"

def exSeg0 : SegEnc :=
  { hasMeta := true, newList := true, interleaved := false, big := false, rawFlag := true, daqmxFlag := false,
    version := 4713, objs := [], padding := 0, chunks := [], lengthUnknown := false }

/-- seven segments:
    0. root and group with properties (a Boolean property with the non-canonical byte 7), Int32 channel `a`
       (2 values per chunk; `total` deliberately left 0, it is never written) and string channel `s`,
       3 bytes of padding, 2 chunks;
    1. no metadata: the object list of segment 0 is reused, 1 chunk;
    2. incremental list (`newList = false`), BIG-endian: `a` now has 1 value per chunk and an overwritten
       property, a new UInt16 channel `b` appears, the group's Boolean property is overwritten; 1 chunk of
       `a`, `s` (index inherited), `b`;
    3. new list: `b` with "same as previous" index, `s` switched off (`noData`, index kept), `a` and the
       root disappear; 2 chunks;
    4. incremental: `a` re-appears with "same as previous" (its index is two segments old and comes from
       `prevObjs`), `s` is switched on again with "same as previous"; 1 chunk of `b`, `s`, `a`;
    5. no raw-data flag, incremental: only a root property is overwritten (npTDMS yields one empty chunk);
    6. no metadata, raw-data flag, no chunk. -/
def exFile : FileEnc := [
  { exSeg0 with
      objs := [⟨exRoot, .noData, [⟨[110], 0x20, [102, 105]⟩]⟩, ⟨exGroup, .noData, [⟨[102], 0x21, [7]⟩]⟩,
               ⟨exA, .full 3 2 0, [⟨[117], 0x20, [86]⟩]⟩, ⟨exS, .full 0x20 2 11, []⟩],
      padding := 3,
      chunks := [[[[1, 0, 0, 0], [2, 0, 0, 0]], [[97, 98], [99]]],
                 [[[3, 0, 0, 0], [4, 0, 0, 0]], [[], [120, 121, 122]]]] },
  { exSeg0 with hasMeta := false, newList := false, chunks := [[[[5, 0, 0, 0], [6, 0, 0, 0]], [[1], [2, 3]]]] },
  { exSeg0 with
      newList := false, big := true,
      objs := [⟨exA, .full 3 1 4, [⟨[117], 0x20, [87, 88]⟩]⟩, ⟨exB, .full 6 1 2, []⟩,
               ⟨exGroup, .noData, [⟨[102], 0x21, [0]⟩]⟩],
      chunks := [[[[7, 0, 0, 0]], [[9, 9, 9], []], [[1, 2]]]] },
  { exSeg0 with objs := [⟨exB, .matchesPrev, []⟩, ⟨exS, .noData, []⟩], chunks := [[[[3, 4]]], [[[5, 6]]]] },
  { exSeg0 with
      newList := false, objs := [⟨exA, .matchesPrev, []⟩, ⟨exS, .matchesPrev, []⟩],
      chunks := [[[[7, 8]], [[9], [8, 8]], [[8, 0, 0, 0]]]] },
  { exSeg0 with rawFlag := false, newList := false, objs := [⟨exRoot, .noData, [⟨[110], 0x20, [103]⟩]⟩] },
  { exSeg0 with hasMeta := false, newList := false } ]

/-- the content both sides must produce -/
def exContent : List ObjView :=
  [ ⟨exRoot, none, [⟨[110], 0x20, [103]⟩], []⟩,
    ⟨exGroup, none, [⟨[102], 0x21, [0]⟩], []⟩,
    ⟨exA, some 3, [⟨[117], 0x20, [87, 88]⟩],
      [[1, 0, 0, 0], [2, 0, 0, 0], [3, 0, 0, 0], [4, 0, 0, 0], [5, 0, 0, 0], [6, 0, 0, 0], [7, 0, 0, 0],
       [8, 0, 0, 0]]⟩,
    ⟨exS, some 0x20, [], [[97, 98], [99], [], [120, 121, 122], [1], [2, 3], [9, 9, 9], [], [9], [8, 8]]⟩,
    ⟨exB, some 6, [], [[1, 2], [3, 4], [5, 6], [7, 8]]⟩ ]

/-- both sides evaluate to the same content (kernel evaluation of the model and of the spec) -/
theorem exFile_read : ((encodeFile exFile).toOption.bind fun b => (readFile b).toOption.map content) =
    some exContent := by decide +kernel

theorem exFile_denote : (denote exFile).toOption.map contentOfDenote = some exContent := by decide +kernel

theorem exFile_length : (encodeFile exFile).toOption.map (·.length) = some 682 := by decide +kernel

/-- the hypotheses of the theorems hold for the example -/
theorem exFile_std : MultiStd exFile := multiStdB_sound (by decide +kernel)

theorem exFile_fits : FileFits exFile := fileFitsB_sound (by decide +kernel)

theorem exFile_channels : onlyChannelsHaveDataM exFile := onlyChannelsHaveDataB_sound (by decide +kernel)

/-- the example exercises what the class allows: a segment without metadata, incremental lists,
    "same as previous" indexes, a big-endian segment, and a non-canonical `total` -/
theorem exFile_features :
    (exFile.map (·.hasMeta)) = [true, false, true, true, true, true, false] ∧
    (exFile.map (·.newList)) = [true, false, false, true, false, false, false] ∧
    (exFile.map (·.big)) = [false, false, true, false, false, false, false] ∧
    (exFile.map fun s => s.objs.any fun o => decide (o.idx = .matchesPrev)) =
      [false, false, false, true, true, false, false] ∧
    exFile.map canonSeg ≠ exFile := by decide +kernel

/-- the composed theorem applied to the example: its hypotheses are satisfiable -/
example : ∃ bytes r c, encodeFile exFile = .ok bytes ∧ readFile bytes = .ok r ∧ denote exFile = .ok c ∧
    content r = contentOfDenote c := by
  obtain ⟨acts, _, hb⟩ := encodeFile_multi_bytes exFile exFile_std
  have hl := exFile_length
  rw [hb] at hl
  simp only [Except.toOption, Option.map_some, Option.some.injEq] at hl
  obtain ⟨r, c, h1, h2, h3⟩ := read_encode_multi exFile exFile_std exFile_fits exFile_channels _ hb
    (by rw [hl]; decide)
  exact ⟨_, r, c, hb, h1, h2, h3⟩

/-- ... and the content it speaks about is the expected one -/
example : ∀ bytes r c, encodeFile exFile = .ok bytes → readFile bytes = .ok r → denote exFile = .ok c →
    content r = exContent ∧ contentOfDenote c = exContent := by
  intro bytes r c hb hr hc
  have h1 := exFile_read
  have h2 := exFile_denote
  simp only [hb, Except.toOption, Option.bind_some, hr, Option.map_some, Option.some.injEq] at h1
  simp only [hc, Except.toOption, Option.map_some, Option.some.injEq] at h2
  exact ⟨h1, h2⟩

/-- **`onlyChannelsHaveDataM` cannot be dropped**: a group object that receives raw data in the second
    segment is well-formed for the spec and has a meaning, but the reader raises -/
def exGroupData : FileEnc := [
  { exSeg0 with objs := [⟨exA, .full 3 1 4, []⟩], chunks := [[[[1, 0, 0, 0]]]] },
  { exSeg0 with newList := false, objs := [⟨exGroup, .full 3 1 4, []⟩], chunks := [[[[1, 0, 0, 0]], [[2, 0, 0, 0]]]] } ]

example : multiStdB exGroupData = true ∧ fileFitsB exGroupData = true ∧
    onlyChannelsHaveDataB exGroupData = false ∧
    (denote exGroupData).toOption.map contentOfDenote =
      some [⟨exA, some 3, [], [[1, 0, 0, 0], [1, 0, 0, 0]]⟩, ⟨exGroup, some 3, [], [[2, 0, 0, 0]]⟩] ∧
    ((encodeFile exGroupData).toOption.map fun b => (readFile b).toOption.isNone) = some true := by
  decide +kernel

/-- ... while a group that merely *declares* an index and never meets a chunk is inside the class -/
def exGroupIdle : FileEnc := [
  { exSeg0 with objs := [⟨exGroup, .full 3 1 4, []⟩] },
  { exSeg0 with objs := [⟨exA, .full 3 1 4, []⟩], chunks := [[[[1, 0, 0, 0]]]] } ]

example : multiStdB exGroupIdle = true ∧ fileFitsB exGroupIdle = true ∧ onlyChannelsHaveDataB exGroupIdle = true := by
  decide +kernel

end Example

end Tdms.Proofs.C01Multi
