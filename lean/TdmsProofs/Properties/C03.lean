import TdmsProofs.Lemmas.C03Single
import TdmsProofs.Lemmas.C03Index
import TdmsProofs.Lemmas.C03Slice
import TdmsProofs.Lemmas.C03FileIterG
import TdmsProofs.Lemmas.C03ChanAll
import TdmsProofs.Lemmas.C03Sized
import TdmsProofs.Lemmas.C03Interleaved
import TdmsProofs.Lemmas.C03Check
import TdmsProofs.Lemmas.C03Partial
import TdmsProofs.Lemmas.C03MixedMain
import TdmsProofs.Lemmas.C03GeneralMixed
import TdmsProofs.Lemmas.C04WindowExample
import TdmsProofs.Properties.C01Compose

/-!
# C03 — every way of obtaining a channel's data gives the same data: headline theorems

Agreement theorems BETWEEN PATHS OF THE MODEL (`Tdms/Model/Data.lean`, `Tdms/Model/Lazy.lean`):
the eager read `readFile` (`TdmsFile.read`) against, on the open file `openOf file r`
(`TdmsFile.open`): `readRawDataForChannel` / `ChanIter` (`channel.data_chunks()`, iteration),
`channelReadData` (`read_data`), `channelReadSlice` (`channel[a:b:c]`), `channelReadAtIndex`
(`channel[i]` with its one-chunk cache), and `FileIter` (`TdmsFile.data_chunks()`).

Vocabulary (definitions in `Lemmas/C03*.lean`):

* `valuesIn r.channels p` — what the eager read holds for channel `p`.
* `SegsWf file segs` (= `SegsOk`) — the invariant on `st.segments`: every segment starts with the `TDSm`
  tag, has pairwise distinct object paths, has no chunks unless it carries the raw-data flag, is read
  by the contiguous reader, and every chunk is *exact* (`exactChunk`: each object's read yields as many
  values as the metadata says and ends exactly where the lazy reader seeks to).  Checkable by
  evaluation: `segsOkB`.
* `ChanOk objects segs p m` — the invariant on one channel: `objects.get p = some m`, the layout
  the lazy reader derives is well formed, `m.numValues` is the sum over the segments (`chanOkB`).
* `streamVals chunks p` — concatenation, chunk by chunk, of the entries for `p`.

Nothing is proved by enumeration except the labelled examples.  Core Lean only (no Mathlib).
-/

namespace Tdms.Proofs.C03

open Tdms Tdms.Generated Tdms.Model Tdms.Proofs.Bytes Tdms.Proofs.C04 Tdms.Proofs.C01Compose

/-- the invariant on the segments of a reader state (`SegOk` for every segment) -/
abbrev SegsWf (file : Bytes) (segs : List Segment) : Prop := SegsOk file segs

/-- `TdmsFile.open` on the file that `readFile` read: same bytes, same segments, same object metadata -/
def openOf (file : Bytes) (r : EagerResult) : OpenFile := ⟨file, r.state.segments, r.state.objects⟩

/-- `openOf file r` is what the model's `TdmsFile.open` returns -/
theorem openFile_of_readFile (file : Bytes) (r : EagerResult) (h : readFile file = .ok r) :
    openFile file = .ok (openOf file r) := by
  obtain ⟨_, _, hm, _, _⟩ := readFile_values file r h
  simp [openFile, hm, bind, Except.bind, pure, Except.pure, openOf]

/-! ## 0. Key lemmas: one chunk / one segment, on ARBITRARY bytes -/

/-- **Contiguous chunk.**  If chunk `ci`, laid out from `cur`, is exact (every object's read ends
    where the lazy reader seeks to), then the eager `readContiguousChunk` started at `cur` and the lazy
    `readChannelChunkContiguous` (started anywhere, seeking over the other objects from `cur`) both
    succeed, and the lazy result is the eager chunk's entry for the channel.  No encoder involved. -/
theorem chunk_component_agrees (file : Bytes) (s : Segment) (ci : Nat) (p : Bytes) (d : List SegObj)
    (hnd : (d.map (·.path)).Nodup) (cur : Nat) (vs : List (List Bytes)) (e : Nat)
    (hex : exactChunk file s ci d cur = some (vs, e)) (tr : List (Nat × Nat)) (st : FState) :
    ∃ c tr' st', readContiguousChunk file s ci d [] ⟨cur, tr⟩ = .ok (c, ⟨e, tr'⟩) ∧
      readChannelChunkContiguous file s ci p d cur st = .ok (RawChunk.get c p, st') :=
  lazy_chunk_eq_eager_component file s ci p d hnd cur vs e hex tr st

/-- **Fixed-width values are exact as soon as they lie inside the file**: a chunk whose data objects
    all have fixed-width types (`data_size = number_values · size`) and which ends inside the file is
    exact — whatever the bytes are, complete or truncated (`channelNumberValues` uses the override). -/
theorem sized_chunk_is_exact (file : Bytes) (s : Segment) (ci : Nat) (d : List SegObj) (cur : Nat)
    (hsz : ∀ o ∈ d, ∃ ty sz, o.dataType = some ty ∧ typeSize ty = some sz ∧ o.dataSize = o.numberValues * sz)
    (hfit : cur + chunkBytesAt s ci d ≤ file.length) : (exactChunk file s ci d cur).isSome = true :=
  exactChunk_sized file s ci d cur hsz hfit

/-- **Contiguous segment.**  With exact chunks and distinct data paths, the lazy read of one channel
    over the whole segment returns the channel's entry of every eager chunk, in order. -/
theorem contiguous_segment_agrees' (file : Bytes) (s : Segment) (csz : Nat) (h : ContigOk file s csz) (p : Bytes)
    (hnd : ((dataObjs s).map (·.path)).Nodup) (st st' : FState) :
    ∃ chunks st1 st2, segmentReadRawData file s st = .ok (chunks, st1) ∧
      segReadChannel file s p 0 none st' = .ok (chunks.map (fun c => RawChunk.get c p), st2) :=
  contiguous_segment_agrees file s csz h p hnd st st'

/-- **Interleaved segment**, arbitrary bytes, no hypothesis on the data: whenever the eager read of
    the segment succeeds, the lazy read of one channel over the whole segment returns the channel's
    entry of every eager chunk. -/
theorem interleaved_segment_agrees' (file : Bytes) (s : Segment) (p : Bytes) (csz : Nat)
    (hk : dataReaderKind s = .ok .interleaved) (hc : chunkSize s.objects = .ok csz)
    (st st1 : FState) (chunks : List RawChunk) (h : segmentReadRawData file s st = .ok (chunks, st1)) (st' : FState) :
    ∃ st2, segReadChannel file s p 0 none st' = .ok (chunks.map (fun c => RawChunk.get c p), st2) :=
  interleaved_segment_agrees file s p csz hk hc st st1 chunks h st'

/-- **Partial — truncated final chunk of a segment holding an unsized (string) object.**  This case is
    outside `SegsWf` (`skipSize = none`: the lazy reader cannot seek over a partial unsized object;
    `computeFinalChunkLengths` gives every object 0 values).  What is proved: if every data object reads
    0 values in the chunk and has a known type, the eager reader returns `[]` for every object and the
    lazy reader returns, for every channel, a chunk carrying no values — agreement on VALUES only: the
    lazy chunk may be `{}` where the eager entry is `{ data := some [] }`, and the whole-file theorems
    below are not extended to such files (see the last example of §6 for a file where they agree). -/
theorem truncated_unsized_chunk_partial (file : Bytes) (s : Segment) (ci : Nat) (p : Bytes) (d : List SegObj)
    (acc : RawChunk) (cur : Nat) (st st' : FState)
    (h : ∀ o ∈ d, channelNumberValues s o ci = 0 ∧
      ∃ ty, o.dataType = some ty ∧ ((typeSize ty).isSome = true ∨ ty = tyString)) :
    (∃ tr', readContiguousChunk file s ci d acc st = .ok (setCols acc d (d.map fun _ => []), ⟨st.pos, tr'⟩)) ∧
    (∃ c st2, readChannelChunkContiguous file s ci p d cur st' = .ok (c, st2) ∧ c.data.getD [] = []) :=
  zero_values_chunk_agrees file s ci p d acc cur st st' h

/-! ## 1. The eager read is the concatenation of the file-level chunk stream -/

/-- **`eager_eq_chunk_concat`** (no hypothesis besides success of the eager read): what `readFile`
    holds for ANY path is the concatenation, in order, of that path's entries in the chunks
    `readRawDataAll` yields. -/
theorem eager_eq_chunk_concat (file : Bytes) (r : EagerResult) (h : readFile file = .ok r) :
    ∃ chunks fs, (readRawDataAll file r.state.segments).run {} = .ok (chunks, fs) ∧
      ∀ p, valuesIn r.channels p = streamVals chunks p := by
  obtain ⟨chunks, fs, _, h2, h3⟩ := readFile_values file r h
  exact ⟨chunks, fs, h2, h3⟩

/-- the (weaker) invariant the file-level iterator needs: every segment starts with the tag, and is
    either contiguous with exact chunks or INTERLEAVED with a successful read (`SegFOk`) -/
abbrev SegsFileWf (file : Bytes) (segs : List Segment) : Prop := SegsFOk file segs

/-- `SegsWf` implies `SegsFileWf` -/
theorem segsFileWf_of_segsWf (file : Bytes) (segs : List Segment) (h : SegsWf file segs) : SegsFileWf file segs :=
  SegsOk.toF h

/-- **`TdmsFile.data_chunks()`** (the state machine `FileIter`, consumed by `fileIterAll`) on files
    mixing contiguous and interleaved segments: under `SegsFileWf` it yields exactly the chunks of the
    eager stream; the eager values of every path are their concatenation; and the offsets reported with
    chunk `j` are, for every path, the number of values delivered by chunks `0 … j-1`. -/
theorem file_data_chunks_eq_eager (file : Bytes) (r : EagerResult) (h : readFile file = .ok r)
    (hwf : SegsFileWf file r.state.segments) :
    ∃ chunks : List RawChunk,
      (∃ fs, (readRawDataAll file r.state.segments).run {} = .ok (chunks, fs)) ∧
      (∀ n st, chunks.length ≤ n →
        ∃ st', (fileIterAll (openOf file r) n {}).run st = .ok (withOffsets [] chunks, st')) ∧
      (withOffsets [] chunks).map (·.1) = chunks ∧
      (∀ p, valuesIn r.channels p = streamVals chunks p) ∧
      (∀ p j x, (withOffsets [] chunks)[j]? = some x → offGet x.2 p = (streamVals (chunks.take j) p).length) := by
  obtain ⟨chunks, fs, _, hrun, hv⟩ := readFile_values file r h
  obtain ⟨st', h2⟩ := readRawDataAll_G file r.state.segments hwf {}
  have hch : chunks = eagerChunksAllG file r.state.segments := by
    have : (readRawDataAll file r.state.segments).run {} = .ok (eagerChunksAllG file r.state.segments, st') := h2
    rw [this] at hrun
    simp only [Except.ok.injEq, Prod.mk.injEq] at hrun
    exact hrun.1.symm
  refine ⟨chunks, ⟨fs, hrun⟩, ?_, withOffsets_fst _ _, hv, ?_⟩
  · intro n st hn
    have hrest : fileRestG file r.state.segments ({} : FileIter) = chunks := by
      rw [hch]
      have := fileRestG_fresh file r.state.segments 0 [] []
      simpa using this
    have := fileIterAll_specG (openOf file r) hwf n {} st (by intro i hi; cases hi)
      (by show (fileRestG file r.state.segments {}).length ≤ n; rw [hrest]; exact hn)
    obtain ⟨st', hs⟩ := this
    refine ⟨st', ?_⟩
    show fileIterAll (openOf file r) n {} st = _
    rw [hs]
    show Except.ok (withOffsets [] (fileRestG file r.state.segments {}), st') = _
    rw [hrest]
  · intro p j x hx
    have := withOffsets_get p chunks [] j x hx
    rw [this]
    have hall : ∀ c ∈ chunks.take j, AllData c := fun c hc => by
      have := List.mem_of_mem_take hc
      rw [hch] at this
      exact allData_eagerChunksAllG file r.state.segments c this
    rw [sum_chunkCount_eq _ p hall]
    simp [offGet]

/-! ## 2. Channel-level chunks -/

/-- **`channel_chunks_eq_eager`**: the chunks `read_raw_data_for_channel(path)` yields (the generator
    behind `channel.data_chunks()`), concatenated, are the channel's eager data — from any file state. -/
theorem channel_chunks_eq_eager (file : Bytes) (r : EagerResult) (h : readFile file = .ok r)
    (hwf : SegsWf file r.state.segments) (p : Bytes) (m : ObjMeta)
    (hc : ChanOk r.state.objects r.state.segments p m) (st : FState) :
    ∃ cs st', (readRawDataForChannel (openOf file r) p 0 none).run st = .ok (cs, st') ∧
      dataOf cs = valuesIn r.channels p := by
  obtain ⟨cs, st', hrun, hd⟩ := readRawDataForChannel_window (openOf file r) p m hwf hc 0 none (Int.le_refl 0)
    (by intro l hl; cases hl) st
  refine ⟨cs, st', hrun, ?_⟩
  rw [hd, readFile_eagerVals file r h hwf p]
  rfl

/-- **`channel.data_chunks()` and iteration over a channel** (the state machine `ChanIter`, consumed
    by `chanIterAll`; `TdmsChannel.__iter__` yields the values of these chunks one by one): the chunks
    concatenate to the channel's eager data, and the offset reported with each chunk is the number of
    values delivered before it. -/
theorem channel_data_chunks_eq_eager (file : Bytes) (r : EagerResult) (h : readFile file = .ok r)
    (hwf : SegsWf file r.state.segments) (p : Bytes) (m : ObjMeta)
    (hc : ChanOk r.state.objects r.state.segments p m) :
    ∃ N, ∀ n st, N ≤ n → ∃ out st', (chanIterAll (openOf file r) n (newChanIter (openOf file r) p)).run st = .ok (out, st') ∧
      dataOf (out.map (·.1)) = valuesIn r.channels p ∧
      ∀ j x, out[j]? = some x → x.2 = (dataOf ((out.take j).map (·.1))).length := by
  refine ⟨(chanTail (openOf file r) p m.numValues (chanEnd (openOf file r) p m.numValues + 1 - chanStart (openOf file r) p)
    (chanStart (openOf file r) p)).length, fun n st hn => ?_⟩
  obtain ⟨out, st', hrun, hd, hoff⟩ := chanIterAll_eager (openOf file r) p m hwf hc n hn st
  refine ⟨out, st', hrun, ?_, hoff⟩
  rw [hd, readFile_eagerVals file r h hwf p]
  rfl

/-! ## 3. Windows, `read_data()`, slices -/

/-- **every window**: `read_data(offset, length)` on the open file returns
    `eager[offset : offset + length]`, from any file state. -/
theorem window_eq_eager (file : Bytes) (r : EagerResult) (h : readFile file = .ok r)
    (hwf : SegsWf file r.state.segments) (p : Bytes) (m : ObjMeta)
    (hc : ChanOk r.state.objects r.state.segments p m) (hty : m.dataType.isSome = true)
    (offset : Int) (length : Option Int) (h0 : 0 ≤ offset) (hl : ∀ l, length = some l → 0 ≤ l) (st : FState) :
    ∃ st' out, (channelReadData (openOf file r) p offset length).run st = .ok (some out, st') ∧
      out.data.getD [] = takeOpt length ((valuesIn r.channels p).drop offset.toNat) := by
  obtain ⟨st', out, hrun, hd⟩ := channelReadData_window (openOf file r) p m hwf hc hty offset length h0 hl st
  refine ⟨st', out, hrun, ?_⟩
  rw [hd, readFile_eagerVals file r h hwf p]
  rfl

/-- **`window_full_eq_eager`**: `read_data()` = window `(0, None)` = the eager values. -/
theorem window_full_eq_eager (file : Bytes) (r : EagerResult) (h : readFile file = .ok r)
    (hwf : SegsWf file r.state.segments) (p : Bytes) (m : ObjMeta)
    (hc : ChanOk r.state.objects r.state.segments p m) (hty : m.dataType.isSome = true) (st : FState) :
    ∃ st' out, (channelReadData (openOf file r) p 0 none).run st = .ok (some out, st') ∧
      out.data.getD [] = valuesIn r.channels p := by
  obtain ⟨st', out, hrun, hd⟩ := window_eq_eager file r h hwf p m hc hty 0 none (Int.le_refl 0)
    (by intro l hl; cases hl) st
  exact ⟨st', out, hrun, by simpa [takeOpt] using hd⟩

/-- **`channel[a:b:c]`** is CPython's slice of the eager values, for all `a b c : Option Int`
    (`ValueError` ↦ `stepZero`), from any file state. -/
theorem slice_eq_eager (file : Bytes) (r : EagerResult) (h : readFile file = .ok r)
    (hwf : SegsWf file r.state.segments) (p : Bytes) (m : ObjMeta)
    (hc : ChanOk r.state.objects r.state.segments p m) (hty : m.dataType.isSome = true)
    (a b c : Option Int) (st : FState) :
    match Tdms.Spec.PySlice.pySlice (valuesIn r.channels p) a b c with
    | .error _ => (channelReadSlice (openOf file r) p a b c).run st = .error .stepZero
    | .ok xs => ∃ st', (channelReadSlice (openOf file r) p a b c).run st = .ok (xs, st') := by
  have := channelReadSlice_eager (openOf file r) p m hwf hc hty a b c st
  rw [readFile_eagerVals file r h hwf p]
  exact this

/-! ## 3b. Whole-channel reads on files that mix contiguous and interleaved segments -/

/-- the invariant for mixed files: like `SegsWf`, but a segment may also be INTERLEAVED, not truncated,
    with a successful read (`SegMOk`; no further hypothesis on its bytes) -/
abbrev SegsMixedWf (file : Bytes) (segs : List Segment) : Prop := SegsMOk file segs

theorem segsMixedWf_of_segsWf (file : Bytes) (segs : List Segment) (h : SegsWf file segs) : SegsMixedWf file segs :=
  fun s hs => (h s hs).toM

/-- **`channel_chunks_eq_eager` on mixed files**: the chunks `read_raw_data_for_channel(path)` yields,
    concatenated, are the channel's eager data (interleaved segments contribute one chunk each). -/
theorem channel_chunks_eq_eager_mixed (file : Bytes) (r : EagerResult) (h : readFile file = .ok r)
    (hwf : SegsMixedWf file r.state.segments) (p : Bytes) (m : ObjMeta)
    (hc : ChanOk r.state.objects r.state.segments p m) (st : FState) :
    ∃ cs st', (readRawDataForChannel (openOf file r) p 0 none).run st = .ok (cs, st') ∧
      dataOf cs = valuesIn r.channels p := by
  obtain ⟨cs, st', hrun, hd⟩ := readRawDataForChannel_mixed (openOf file r) p m hwf hc st
  exact ⟨cs, st', hrun, by rw [hd, readFile_mixed file r h hwf p]; rfl⟩

/-- **`read_data()` on mixed files** returns the eager values. -/
theorem window_full_eq_eager_mixed (file : Bytes) (r : EagerResult) (h : readFile file = .ok r)
    (hwf : SegsMixedWf file r.state.segments) (p : Bytes) (m : ObjMeta)
    (hc : ChanOk r.state.objects r.state.segments p m) (hty : m.dataType.isSome = true) (st : FState) :
    ∃ st' out, (channelReadData (openOf file r) p 0 none).run st = .ok (some out, st') ∧
      out.data.getD [] = valuesIn r.channels p := by
  obtain ⟨st', out, hrun, hd⟩ := channelReadData_mixed (openOf file r) p m hwf hc hty st
  exact ⟨st', out, hrun, by rw [hd, readFile_mixed file r h hwf p]; rfl⟩

/-! ## 4. Integer indexing -/

/-- **`index_eq_eager`**: `channel[i]` for `-n ≤ i < n` with the one-chunk cache in ANY state
    consistent with the file (`CacheOk?`: empty, or `vals = eager[lo:hi]`) returns `eager[i mod n]` and
    leaves a consistent cache — from any file state. -/
theorem index_eq_eager (file : Bytes) (r : EagerResult) (h : readFile file = .ok r)
    (hwf : SegsWf file r.state.segments) (p : Bytes) (m : ObjMeta)
    (hc : ChanOk r.state.objects r.state.segments p m)
    (cache : Option ChunkCache) (hcache : CacheOk? (valuesIn r.channels p) cache)
    (index : Int) (hidx : -(m.numValues : Int) ≤ index ∧ index < m.numValues) (st : FState) :
    ∃ v cache' st', (channelReadAtIndex (openOf file r) p cache index).run st = .ok ((v, cache'), st') ∧
      (valuesIn r.channels p)[(index % (m.numValues : Int)).toNat]? = some v ∧
      CacheOk? (valuesIn r.channels p) cache' := by
  rw [readFile_eagerVals file r h hwf p] at hcache ⊢
  exact channelReadAtIndex_eager (openOf file r) p m hwf hc cache hcache index hidx st

/-- reading the indices `i0, i0+1, …, i0+n-1` in turn (cache threaded through, any consistent
    initial cache) returns `eager[i0 : i0+n]`; with `i0 = 0`, `n = len(channel)`: the whole channel -/
theorem index_scan_eq_eager (file : Bytes) (r : EagerResult) (h : readFile file = .ok r)
    (hwf : SegsWf file r.state.segments) (p : Bytes) (m : ObjMeta)
    (hc : ChanOk r.state.objects r.state.segments p m)
    (n i0 : Nat) (cache : Option ChunkCache) (hcache : CacheOk? (valuesIn r.channels p) cache)
    (hle : i0 + n ≤ m.numValues) (st : FState) :
    ∃ cache' st', (indexScan (openOf file r) p n i0 cache).run st
        = .ok ((((valuesIn r.channels p).drop i0).take n, cache'), st') ∧
      CacheOk? (valuesIn r.channels p) cache' := by
  rw [readFile_eagerVals file r h hwf p] at hcache ⊢
  exact indexScan_eager (openOf file r) p m hwf hc n i0 cache hcache hle st

/-- the channel has as many eager values as `len(channel)` says -/
theorem eager_length_eq_numValues (file : Bytes) (r : EagerResult) (h : readFile file = .ok r)
    (hwf : SegsWf file r.state.segments) (p : Bytes) (m : ObjMeta)
    (hc : ChanOk r.state.objects r.state.segments p m) : (valuesIn r.channels p).length = m.numValues := by
  rw [readFile_eagerVals file r h hwf p, eagerVals_length file r.state.segments p hwf hc.wf, hc.num]

/-! ## 5. When the invariants hold -/

/-- **single-segment class** (the class of `read_metadata_single`): for the encoding of a single
    standard segment, `readMetadata` produces a state satisfying `SegsWf`, and `ChanOk` for every object. -/
theorem invariants_hold_single (s : SegEnc) (hs : SingleStd s) (fit : SegFits s) (bytes : Bytes)
    (hb : encodeFile [s] = .ok bytes) (hlen : bytes.length < 2 ^ 63) :
    ∃ st, readMetadata bytes = .ok st ∧ SegsWf bytes st.segments ∧
      ∀ p m, st.objects.get p = some m → ChanOk st.objects st.segments p m :=
  invariants_single s hs fit bytes hb hlen

/-- **any accepted file, fixed-width data**: for the reader state of ANY byte string `readMetadata`
    accepts, if every segment has pairwise distinct object paths, is read by the contiguous reader, has
    no chunks without the raw-data flag (`SegShape`), and all its data objects have fixed-width types
    with `data_size = number_values · size` (`SizedOk`), then `SegsWf` holds and `ChanOk` holds for every
    object — for complete and for truncated segments. -/
theorem invariants_hold_sized (file : Bytes) (st : ReaderState) (h : readMetadata file = .ok st)
    (hshape : ∀ s ∈ st.segments, SegShape s) (hsized : ∀ s ∈ st.segments, SizedOk s) :
    SegsWf file st.segments ∧ ∀ p m, st.objects.get p = some m → ChanOk st.objects st.segments p m :=
  readMetadata_invariants_sized file st h hshape hsized

/-- **any accepted file, any contiguous data** (strings included): the same, with the exactness of
    the chunks as a hypothesis (checkable by evaluation, `contigOkB`). -/
theorem invariants_hold_exact (file : Bytes) (st : ReaderState) (h : readMetadata file = .ok st)
    (hshape : ∀ s ∈ st.segments, SegShape s)
    (hexact : ∀ s ∈ st.segments, ∀ ci, ci < s.numChunks →
      (exactChunk file s ci (dataObjs s) (s.dataPosition + ci * segCsz s)).isSome = true) :
    SegsWf file st.segments ∧ ∀ p m, st.objects.get p = some m → ChanOk st.objects st.segments p m :=
  readMetadata_invariants file st h hshape hexact

/-- **any accepted file mixing contiguous and interleaved segments**: `SegsMixedWf` and `ChanOk` for
    the reader state of any byte string `readMetadata` accepts, from per-segment hypotheses
    (`SegShapeM`: distinct paths, no chunks without the raw-data flag, and either contiguous with exact
    chunks or interleaved, not truncated, with a successful read). -/
theorem invariants_hold_mixed (file : Bytes) (st : ReaderState) (h : readMetadata file = .ok st)
    (hshape : ∀ s ∈ st.segments, SegShapeM file s) :
    SegsMixedWf file st.segments ∧ ∀ p m, st.objects.get p = some m → ChanOk st.objects st.segments p m :=
  readMetadata_invariants_mixed file st h hshape

/-- what `readMetadata` guarantees unconditionally about every segment it records: it starts with
    the `TDSm` tag, ends inside the file, and is an output of `calculateChunks` -/
theorem segments_in_file (file : Bytes) (st : ReaderState) (h : readMetadata file = .ok st) :
    ∀ s ∈ st.segments, SegInFile file s :=
  readMetadata_segments_inFile file st h

/-- the executable checkers are sound -/
theorem invariants_of_check (file : Bytes) (segs : List Segment) (objects : ObjMetas) (p : Bytes)
    (h1 : segsOkB file segs = true) (h2 : chanOkB objects segs p = true) :
    SegsWf file segs ∧ ∃ m, ChanOk objects segs p m :=
  ⟨segsOkB_sound h1, chanOkB_sound h2⟩

/-! ## 6. Examples: the hypotheses are satisfiable, and needed (closed terms, by kernel evaluation)

`checkAll file ps` (`Lemmas/C03Check.lean`) evaluates `readFile file`, `segsOkB` on its segments and
`chanOkB` for every path of `ps`; `checkAll_sound` turns `checkAll … = true` into the hypotheses of
the headline statements above. -/

section Examples

/-- `/'g'/'a'`, `/'g'/'b'`, `/'g'/'s'` -/
def exA : Bytes := [0x2f, 0x27, 0x67, 0x27, 0x2f, 0x27, 0x61, 0x27]
def exB : Bytes := [0x2f, 0x27, 0x67, 0x27, 0x2f, 0x27, 0x62, 0x27]
def exS : Bytes := [0x2f, 0x27, 0x67, 0x27, 0x2f, 0x27, 0x73, 0x27]

def exMk (hasMeta newList raw : Bool) (objs : List ObjEnc) (chunks : List (List (List Bytes))) : SegEnc :=
  { hasMeta := hasMeta, newList := newList, interleaved := false, big := false, rawFlag := raw,
    daqmxFlag := false, version := 4713, objs := objs, padding := 0, chunks := chunks, lengthUnknown := false }

def i32 (n : Nat) : Bytes := encLE 4 n

/-- four segments: (1) Int32 channels `a` (2 values per chunk) and `b` (1 value), two chunks;
    (2) metadata only — a property on `a`, no raw data, and the inherited object `b` still "has data";
    (3) no metadata, two chunks of `b` alone; (4) `a` again by "matches previous", and a new string
    channel `s`, one chunk.  348 bytes. -/
def exMulti : FileEnc :=
  [ exMk true true true [⟨exA, .full 3 2 0, []⟩, ⟨exB, .full 3 1 0, []⟩]
      [[[i32 1, i32 2], [i32 100]], [[i32 3, i32 4], [i32 101]]],
    exMk true false false [⟨exA, .noData, [⟨[65], 3, i32 7⟩]⟩] [],
    exMk false false true [] [[[i32 102]], [[i32 103]]],
    exMk true false true [⟨exA, .matchesPrev, []⟩, ⟨exS, .full 0x20 2 11, []⟩]
      [[[i32 5, i32 6], [i32 104], [[65, 66], [67]]]] ]

def exMultiBytes : Bytes := (encodeFile exMulti).toOption.getD []

/-- all hypotheses of the C03 theorems hold for the four-segment file and its three channels -/
theorem exMulti_check : checkAll exMultiBytes [exA, exB, exS] = true := by decide +kernel

/-- … and the eager read holds these values -/
theorem exMulti_values :
    ((readFile exMultiBytes).toOption.map fun r => (valuesIn r.channels exA, valuesIn r.channels exB, valuesIn r.channels exS))
      = some ([i32 1, i32 2, i32 3, i32 4, i32 5, i32 6], [i32 100, i32 101, i32 102, i32 103, i32 104], [[65, 66], [67]]) := by
  decide +kernel

/-- the theorems instantiated (NOT by evaluation): on the four-segment file every window of every
    channel, from any file state, is the window of the eager values; e.g. `a.read_data(1, 4)` -/
example : ∀ st, ∃ st' out, ∃ r, readFile exMultiBytes = .ok r ∧
    (channelReadData (openOf exMultiBytes r) exA 1 (some 4)).run st = .ok (some out, st') ∧
    out.data.getD [] = [i32 2, i32 3, i32 4, i32 5] := by
  intro st
  obtain ⟨r, hr, hwf, hch⟩ := checkAll_sound exMulti_check
  obtain ⟨m, hm⟩ := hch exA (by simp)
  have hty : m.dataType.isSome = true := by
    have h1 : ((readFile exMultiBytes).toOption.map fun r => (r.state.objects.get exA).map (·.dataType.isSome))
        = some (some true) := by decide +kernel
    rw [hr] at h1
    simp only [Except.toOption, Option.map_some, Option.some.injEq, hm.get] at h1
    exact h1
  obtain ⟨st', out, h1, h2⟩ := window_eq_eager exMultiBytes r hr hwf exA m hm hty 1 (some 4) (by decide)
    (by intro l h; cases h; decide) st
  refine ⟨st', out, r, hr, h1, ?_⟩
  rw [h2]
  have hv := exMulti_values
  rw [hr] at hv
  simp only [Except.toOption, Option.map_some, Option.some.injEq, Prod.mk.injEq] at hv
  rw [hv.1]
  decide

/-- the string channel that appears only in the last segment: `channel[:]`, `channel[-1]` -/
example : ∀ st, ∃ r v cache' st', readFile exMultiBytes = .ok r ∧
    (channelReadAtIndex (openOf exMultiBytes r) exS none (-1)).run st = .ok ((v, cache'), st') ∧ v = [67] := by
  intro st
  obtain ⟨r, hr, hwf, hch⟩ := checkAll_sound exMulti_check
  obtain ⟨m, hm⟩ := hch exS (by simp)
  have hlen := eager_length_eq_numValues exMultiBytes r hr hwf exS m hm
  have hv := exMulti_values
  rw [hr] at hv
  simp only [Except.toOption, Option.map_some, Option.some.injEq, Prod.mk.injEq] at hv
  rw [hv.2.2] at hlen
  have hn : m.numValues = 2 := by simpa using hlen.symm
  obtain ⟨v, c', st', h1, h2, _⟩ := index_eq_eager exMultiBytes r hr hwf exS m hm none trivial (-1)
    (by rw [hn]; decide) st
  refine ⟨r, v, c', st', hr, h1, ?_⟩
  rw [hv.2.2, hn] at h2
  have : ((-1 : Int) % ((2 : Nat) : Int)).toNat = 1 := by decide
  rw [this] at h2
  simpa using h2.symm

/-- a real two-segment file (120 bytes, `Lemmas/C04WindowExample.lean`; npTDMS reads it as
    `[10 20 30 40 50 60]`) -/
theorem exFile_check : checkAll exFile [exPath] = true := by decide +kernel

/-- the same file cut 5 bytes short: the last segment is truncated in the middle of a value; the
    invariants still hold (`readFile` then holds 5 values) … -/
theorem exFile_truncated_check : checkAll (exFile.take 115) [exPath] = true := by decide +kernel

/-- … and they follow from `invariants_hold_sized` (not from evaluating the chunk reads): its
    hypotheses are decidable properties of the segment records alone -/
example : (match readMetadata (exFile.take 115) with
    | .ok st => st.segments.all fun s => segShapeB s && sizedOkB s
    | .error _ => false) = true := by decide +kernel

/-- the single-segment class: `invariants_hold_single` applies to the example segment of C01
    (Int32 and string channels, properties, padding) -/
example : ∃ st, readMetadata (encodeSeg exSeg (exSeg.objs.map actOf)) = .ok st ∧
    SegsWf (encodeSeg exSeg (exSeg.objs.map actOf)) st.segments ∧
    ∀ p m, st.objects.get p = some m → ChanOk st.objects st.segments p m := by
  have hb := (encodeFile_single_bytes exSeg exSeg_std).1
  refine invariants_hold_single exSeg exSeg_std exSeg_fits _ hb ?_
  have h := exSeg_length
  rw [hb] at h
  simp only [Except.toOption, Option.map_some, Option.some.injEq] at h
  rw [h]; decide

/-- a file mixing layouts: an interleaved segment (Int32 `a` and `b`, 2 chunks of 3 rows) followed by a
    contiguous one without metadata … is not expressible (the flag is per segment and needs metadata);
    so: segment 1 interleaved, segment 2 contiguous with new metadata (2 values of `a`) -/
def exInter : FileEnc :=
  [ { exMk true true true [⟨exA, .full 3 3 0, []⟩, ⟨exB, .full 3 3 0, []⟩]
        [[[i32 1, i32 2, i32 3], [i32 11, i32 12, i32 13]], [[i32 4, i32 5, i32 6], [i32 14, i32 15, i32 16]]]
      with interleaved := true },
    exMk true true true [⟨exA, .full 3 2 0, []⟩] [[[i32 7, i32 8]]] ]

def exInterBytes : Bytes := (encodeFile exInter).toOption.getD []

/-- the mixed file satisfies the hypothesis of `file_data_chunks_eq_eager` (its first segment is read
    by the interleaved reader, so `SegsWf` itself does not hold), and the eager read holds these values -/
theorem exInter_check :
    (match readFile exInterBytes with
      | .ok r => segsFOkB exInterBytes r.state.segments && !segsOkB exInterBytes r.state.segments &&
          decide (valuesIn r.channels exA = [i32 1, i32 2, i32 3, i32 4, i32 5, i32 6, i32 7, i32 8]) &&
          decide (valuesIn r.channels exB = [i32 11, i32 12, i32 13, i32 14, i32 15, i32 16])
      | .error _ => false) = true := by
  decide +kernel

example : ∃ r, readFile exInterBytes = .ok r ∧ SegsFileWf exInterBytes r.state.segments := by
  have h := exInter_check
  cases hr : readFile exInterBytes with
  | error e => rw [hr] at h; cases h
  | ok r =>
    rw [hr] at h
    simp only [Bool.and_eq_true] at h
    exact ⟨r, rfl, segsFOkB_sound h.1.1.1⟩

/-- … and the hypotheses of the mixed whole-channel theorems -/
theorem exInter_check_mixed :
    (match readFile exInterBytes with
      | .ok r => segsMOkB exInterBytes r.state.segments &&
          chanOkB r.state.objects r.state.segments exA && chanOkB r.state.objects r.state.segments exB &&
          decide ((r.state.objects.get exA).map (·.dataType.isSome) = some true)
      | .error _ => false) = true := by
  decide +kernel

/-- `read_data()` of channel `a` of the mixed file, by `window_full_eq_eager_mixed` (not by evaluation) -/
example : ∀ st, ∃ r st' out, readFile exInterBytes = .ok r ∧
    (channelReadData (openOf exInterBytes r) exA 0 none).run st = .ok (some out, st') ∧
    out.data.getD [] = [i32 1, i32 2, i32 3, i32 4, i32 5, i32 6, i32 7, i32 8] := by
  intro st
  have h := exInter_check_mixed
  have hv := exInter_check
  cases hr : readFile exInterBytes with
  | error e => rw [hr] at h; cases h
  | ok r =>
    rw [hr] at h hv
    simp only [Bool.and_eq_true, decide_eq_true_eq] at h hv
    obtain ⟨⟨⟨h1, h2⟩, _⟩, h4⟩ := h
    obtain ⟨m, hm⟩ := chanOkB_sound h2
    have hty : m.dataType.isSome = true := by
      rw [hm.get] at h4
      simpa using h4
    obtain ⟨st', out, hrun, hd⟩ := window_full_eq_eager_mixed exInterBytes r hr (segsMOkB_sound h1) exA m hm hty st
    exact ⟨r, st', out, rfl, hrun, by rw [hd]; exact hv.1.2⟩

/-! ### the hypotheses are needed -/

/-- one segment whose metadata lists the path `/'g'/'a'` twice (2 values, then 1 value per chunk):
    the reader accepts it -/
def exDup : FileEnc :=
  [ exMk true true true [⟨exA, .full 3 2 0, []⟩, ⟨exB, .full 3 1 0, []⟩, ⟨exA, .full 3 1 0, []⟩]
      [[[i32 9], [i32 100]], [[i32 10], [i32 101]], [[i32 11], [i32 102]], [[i32 12], [i32 103]]] ]

def exDupBytes : Bytes := (encodeFile exDup).toOption.getD []

/-- **distinct object paths are needed**: with a path listed twice in one segment the eager read keeps
    the LAST occurrence of each chunk (dictionary overwrite, 2 values), the lazy read finds the FIRST
    (4 values), and `num_values` counts both (6): the paths disagree, and `SegsWf` fails -/
example : ((readFile exDupBytes).toOption.map fun r =>
      (valuesIn r.channels exA,
       ((channelReadData (openOf exDupBytes r) exA 0 none).run {}).toOption.map fun x => (x.1.map (·.data.getD [])),
       (r.state.objects.get exA).map (·.numValues),
       segsOkB exDupBytes r.state.segments))
    = some ([i32 101, i32 103], some (some [i32 9, i32 100, i32 11, i32 102]), some 6, false) := by
  decide +kernel

/-- a segment whose ToC lacks the raw-data flag although raw data follow (2 chunks of 2 values) -/
def exNoRaw : FileEnc :=
  [ exMk true true false [⟨exA, .full 3 2 0, []⟩] [[[i32 1, i32 2]], [[i32 3, i32 4]]] ]

def exNoRawBytes : Bytes := (encodeFile exNoRaw).toOption.getD []

/-- **"no chunks without the raw-data flag" is needed**: the reader computes 2 chunks from the sizes,
    the eager read holds `[1,2,3,4]`, but the lazy segment read first yields the extra empty chunk and
    `read_raw_data_for_channel` applies the values-to-skip to THAT chunk: `read_data(1, 2)` returns
    `[1,2,3]` instead of `[2,3]` (`read_data()` itself is still right) -/
example : ((readFile exNoRawBytes).toOption.map fun r =>
      (valuesIn r.channels exA,
       ((channelReadData (openOf exNoRawBytes r) exA 1 (some 2)).run {}).toOption.map fun x => (x.1.map (·.data.getD [])),
       segsOkB exNoRawBytes r.state.segments))
    = some ([i32 1, i32 2, i32 3, i32 4], some (some [i32 1, i32 2, i32 3]), false) := by
  decide +kernel

example : ((readFile exNoRawBytes).toOption.map fun r =>
      ((channelReadData (openOf exNoRawBytes r) exA 0 none).run {}).toOption.map fun x => (x.1.map (·.data.getD [])))
    = some (some (some [i32 1, i32 2, i32 3, i32 4])) := by
  decide +kernel

/-- **a truncated chunk holding a string object is outside `SegsWf`** (the lazy reader cannot seek over
    a partial unsized object: `skipSize = none`), yet on this file all paths still agree: both read
    nothing from the truncated chunk -/
example : ((readFile (exMultiBytes.take 345)).toOption.map fun r =>
      (segsOkB (exMultiBytes.take 345) r.state.segments,
       [exA, exB, exS].map fun p =>
         (((channelReadData (openOf (exMultiBytes.take 345) r) p 0 none).run {}).toOption.map fun x =>
           x.1.map (·.data.getD [])) == some (some (valuesIn r.channels p))))
    = some (false, [true, true, true]) := by
  decide +kernel

end Examples

end Tdms.Proofs.C03
