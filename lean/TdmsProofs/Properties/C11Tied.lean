import TdmsProofs.Lemmas.TiedC11

/-!
# C11 tied theorems: the GENERATED DAQmx buffer computations equal the model's

`Tdms.Generated.Code` is produced from the Python source of npTDMS (`nptdms/daqmx.py`) by
`harness/pyast2lean.py`.  The theorems below say that the generated definitions

* `_lists_are_equal`               ↔ list equality
* `get_buffer_dimensions`          ↔ `Tdms.Model.bufferDimensions`
* `get_daqmx_chunk_size`           ↔ the DAQmx branch of `Tdms.Model.chunkSize`
* `get_daqmx_final_chunk_lengths`  ↔ `Tdms.Model.daqmxFinalChunkLengths`

compute, on the representation `objs.map pyObj` of a model object list (`TiedRepr.lean`), the representation of
what the model computes.  `Agrees r m g`: model `.ok v` ⇒ generated `= .ok (r v)`; model `.error e` ⇒ generated
`= .error x` with `x ∈ errNames e`.

The statements do not mention the text of the generated loop bodies.  The proofs
(`TdmsProofs/Lemmas/TiedC11.lean`) show that every generated loop is the image, under the representation, of a loop
over the model's types (`Py.forE_transport`), each iteration being discharged by case analysis and `simp` on the
generated body; the loops over the model's types are then compared with the model.  A semantic change of the Python
source changes `Code.lean` and breaks these proofs; a cosmetic one does not.

Hypotheses (where model and Python differ):

* `AllDaq objs`: every object with data has DAQmx metadata.  Python reads `o.daqmx_metadata.…` (AttributeError on a
  plain object) where the model skips objects without DAQmx metadata.  All callers check `_have_daqmx_objects` first.
* `DaqConsistent objs` (`TiedRepr.lean`): `number_values` of a DAQmx object is the chunk size of its metadata; Python
  uses the former, the model the latter.
* `hnd`: the paths of the objects with data are distinct.  Python's `object_lengths[obj.path] = …` overwrites a
  repeated path where the model appends another entry.
* `NoZeroDiv objs rem`: NOT (`rem = 0` and the first buffer has width `0`).  That is exactly when Python's
  `bytes_remaining // width` raises ZeroDivisionError while the model's `rem / 0` is `0` (a positive remainder stays
  positive while whole buffers are taken off it, and `0 < rem ≤ n * w` forces `w > 0`).  It follows from `0 < rem`
  (`noZeroDiv_of_pos`; the only caller passes a non-zero remainder) and from all raw data widths being positive
  (`noZeroDiv_of_widths_pos`).

Proved, not assumed: `min` over the `set` of buffer indices (Python) is `min` over the list of scalers (model);
once `get_buffer_dimensions` has succeeded every scaler's buffer index is in range, so Python's
`updated_buffer_lengths[i]` (IndexError) and the model's `lens.getD i 0` coincide; an object without scalers is
ValueError (`min()` of an empty set) in Python and `.other` in the model, an out of range buffer index is IndexError
and `.other`, different widths are ValueError and `.daqmxWidths`.
-/

namespace Tdms.Proofs.C11Tied

open Tdms Tdms.Model Tdms.Generated Tdms.Generated.Code Tdms.Proofs.Tied

/-- `_lists_are_equal` decides equality of two lists of ints -/
theorem _lists_are_equal_tied (a b : List Int) : _lists_are_equal a b = decide (a = b) :=
  lists_are_equal_eq a b

/-- the buffer dimensions `(number of values, width)`; errors: different widths (ValueError / `.daqmxWidths`),
    scaler pointing outside the buffers (IndexError / `.other`) -/
theorem get_buffer_dimensions_tied (objs : List SegObj) (hdaq : AllDaq objs) (hc : DaqConsistent objs) :
    Agrees pyDims (bufferDimensions objs) (get_buffer_dimensions (objs.map pyObj)) := by
  rw [get_buffer_dimensions_eq]
  exact agrees_map pyDims _ _ (bufferDims_model objs hdaq hc)

/-- the chunk size of a DAQmx segment: the sum of the buffer sizes -/
theorem get_daqmx_chunk_size_tied (objs : List SegObj) (hdaq : AllDaq objs) (hc : DaqConsistent objs) :
    Agrees (fun (n : Nat) => (n : Int))
      ((bufferDimensions objs).map fun dims => (dims.map fun (n, w) => n * w).sum)
      (get_daqmx_chunk_size (objs.map pyObj)) := by
  rw [get_daqmx_chunk_size_eq]
  have h := bufferDims_model objs hdaq hc
  cases hm : bufferDimensions objs with
  | error e =>
    rw [hm] at h
    obtain ⟨x, hx, hxe⟩ := h
    exact ⟨x, by rw [hx]; rfl, hxe⟩
  | ok dims =>
    rw [hm] at h
    simp only [Agrees, id] at h
    rw [h]
    rfl

/-- the number of values of every object in a truncated final chunk of `rem` bytes -/
theorem get_daqmx_final_chunk_lengths_tied (objs : List SegObj) (rem : Nat) (hdaq : AllDaq objs)
    (hc : DaqConsistent objs) (hnd : ((objs.filter (·.hasData)).map (·.path)).Nodup)
    (hw : NoZeroDiv objs rem) :
    Agrees pyDict (daqmxFinalChunkLengths objs rem)
      (get_daqmx_final_chunk_lengths (objs.map pyObj) (rem : Int)) := by
  rw [get_daqmx_final_chunk_lengths_eq]
  exact agrees_map pyDict _ _ (finalLengths_model objs rem hdaq hc hnd hw)

end Tdms.Proofs.C11Tied

