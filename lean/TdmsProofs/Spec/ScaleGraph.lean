/-
  Specification for C13: the textbook evaluation of a scaling DAG.

  A graph is a list of nodes; node `i` may refer to the raw input (`rawSource`) or to nodes `< i`.
  The values of all nodes are computed left to right with a `foldl`; the output is the value of the
  last node.  Values are computed in `Except ScaleErr R` so that the two ways an evaluation can fail
  (raw data requested for DAQmx-only input, unknown DAQmx scaler id) are part of the specification.

  `R` is an arbitrary commutative ring: nothing here depends on floating point.
-/
import Mathlib.Algebra.Ring.Defs
import Tdms.Model.Scaling

namespace Tdms.Proofs.C13

open Tdms.Model.Scaling

namespace Spec

variable {R : Type} [CommRing R]

/-- `Σ cᵢ xⁱ`, lowest degree first, written as a sum over powers (not Horner). -/
def polySum (cs : List R) (x : R) : R :=
  (cs.zipIdx.map fun p => p.1 * x ^ p.2).sum

/-- The raw input of one element. -/
def rawInput (raw : RawElem R) : Except ScaleErr R :=
  match raw.data with
  | some d => .ok d
  | none => .error .invalidDaqmxInput

/-- The value of DAQmx scaler `id`. -/
def scalerInput (raw : RawElem R) (id : Nat) : Except ScaleErr R :=
  match raw.scalers.find? (·.1 = id) with
  | some (_, v) => .ok v
  | none => .error .keyError

/-- The input `src` of a node, given the values `vals` of the nodes before it. -/
def input (raw : RawElem R) (vals : List (Except ScaleErr R)) (src : Nat) : Except ScaleErr R :=
  if src = rawSource then rawInput raw else vals[src]?.getD (.error .indexError)

/-- Semantics of one node, given the values of the earlier nodes. -/
def evalNode (interp : List R → List R → R → R) (env : Nat → R → R) (raw : RawElem R)
    (vals : List (Except ScaleErr R)) : Scaling R → Except ScaleErr R
  | .linear b m src => do let x ← input raw vals src; pure (x * m + b)
  | .polynomial cs src => do let x ← input raw vals src; pure (polySum cs x)
  | .table xs ys src => do let x ← input raw vals src; pure (interp xs ys x)
  | .add l r => do let a ← input raw vals l; let b ← input raw vals r; pure (a + b)
  | .subtract l r => do let a ← input raw vals l; let b ← input raw vals r; pure (b - a)
  | .daqmx id => scalerInput raw id
  | .noop src => input raw vals src
  | .sensor k src => do let x ← input raw vals src; pure (env k x)

/-- The values of all nodes, left to right. -/
def nodeValues (interp : List R → List R → R → R) (env : Nat → R → R) (g : List (Scaling R))
    (raw : RawElem R) : List (Except ScaleErr R) :=
  g.foldl (fun vals s => vals ++ [evalNode interp env raw vals s]) []

/-- Dataflow evaluation: the value of the last node. -/
def evalGraph (interp : List R → List R → R → R) (env : Nat → R → R) (g : List (Scaling R))
    (raw : RawElem R) : Except ScaleErr R :=
  (nodeValues interp env g raw).getLast?.getD (.error .indexError)

/-- The first property set (channel, group, file — in that order) that defines a scaling; an error in
an earlier set is raised before later sets are looked at. -/
def firstSome {ε α : Type} : List (Except ε (Option α)) → Except ε (Option α)
  | [] => .ok none
  | .error e :: _ => .error e
  | .ok (some a) :: _ => .ok (some a)
  | .ok none :: rest => firstSome rest

end Spec

/-- The input sources of a node. -/
def sources {R : Type} : Scaling R → List Nat
  | .linear _ _ src => [src]
  | .polynomial _ src => [src]
  | .table _ _ src => [src]
  | .add l r => [l, r]
  | .subtract l r => [l, r]
  | .daqmx _ => []
  | .noop src => [src]
  | .sensor _ src => [src]

/-- Well-formed wiring: the graph is non-empty, shorter than the reserved index `rawSource`
(= 4294967295), and every input of node `i` is the raw input or a node `< i`. -/
def wf {R : Type} (g : List (Scaling R)) : Prop :=
  g ≠ [] ∧ g.length ≤ rawSource ∧
    ∀ p ∈ g.zipIdx, ∀ s ∈ sources p.1, s = rawSource ∨ s < p.2

instance {R : Type} (g : List (Scaling R)) : Decidable (wf g) :=
  have : Decidable (g ≠ []) := decidable_of_iff (g.isEmpty = false) (by cases g <;> simp)
  inferInstanceAs (Decidable (_ ∧ _ ∧ _))

/-- Unfolding of `wf`: the inputs of node `i`. -/
theorem wf_source {R : Type} {g : List (Scaling R)} (hwf : wf g) {i : Nat} (hi : i < g.length) {s : Nat}
    (hs : s ∈ sources g[i]) : s = rawSource ∨ s < i :=
  hwf.2.2 (g[i], i) (List.mem_zipIdx_iff_getElem?.2 (by simp [hi])) s hs

end Tdms.Proofs.C13
