/-
  Tdms.Spec.Sensors — the forward physical laws that the sensor scalings of
  `nptdms/scaling.py` are meant to invert.  Nothing in this file refers to the
  model (`Sensors.lean`); the laws are written from the physics / the code's own
  comments / NI's published bridge definitions.
-/
import Mathlib.Analysis.SpecialFunctions.Log.Basic
import Mathlib.Algebra.Order.Field.Basic

namespace Tdms.Spec.Sensors

section Field
variable {K : Type*} [Field K]

/-! ## Lead wires -/

/-- Resistance that the lead wires add in series with a current-excited resistive
sensor, per wiring configuration (the TDMS `Resistance_Configuration` value is the
number of wires): 2-wire – both leads carry the excitation current and lie inside
the sensed loop (`2·lead`); 3-wire – one lead remains (`lead`); 4-wire (and
anything else) – sense wires carry no current (`0`). -/
def currentLeadTerm (cfg : Nat) (lead : K) : K :=
  match cfg with
  | 2 => 2 * lead
  | 3 => lead
  | _ => 0

/-- Ohm's law for a current-excited sensor with lead wires: `V = I·(R + leadTerm)`. -/
def currentExcitedVoltage (I R : K) (cfg : Nat) (lead : K) : K :=
  I * (R + currentLeadTerm cfg lead)

/-- Voltage divider for a voltage-excited thermistor `R` below reference resistor `R1`:
`Vout = Vex · R / (R1 + R)`. -/
def dividerVoltage (Vex R1 R : K) : K := Vex * R / (R1 + R)

/-! ## Wheatstone bridge -/

/-- `Vo = [R3 / (R3 + R4) - R2 / (R1 + R2)] Vex`  (scaling.py line 204). -/
def wheatstone (R1 R2 R3 R4 Vex : K) : K := (R3 / (R3 + R4) - R2 / (R1 + R2)) * Vex

/-- Full bridge type I: `R1 = R3 = R0 (1 - ε G)`, `R2 = R4 = R0 (1 + ε G)`. -/
def fullBridge1 (R0 G Vex ε : K) : K :=
  wheatstone (R0 * (1 - ε * G)) (R0 * (1 + ε * G)) (R0 * (1 - ε * G)) (R0 * (1 + ε * G)) Vex

/-- Full bridge type II: `R1 = R0 (1 - ε ν G)`, `R2 = R0 (1 + ε ν G)`,
`R3 = R0 (1 - ε G)`, `R4 = R0 (1 + ε G)`. -/
def fullBridge2 (R0 G ν Vex ε : K) : K :=
  wheatstone (R0 * (1 - ε * ν * G)) (R0 * (1 + ε * ν * G)) (R0 * (1 - ε * G)) (R0 * (1 + ε * G)) Vex

/-- Full bridge type III: `R1 = R3 = R0 (1 - ε ν G)`, `R2 = R4 = R0 (1 + ε G)`. -/
def fullBridge3 (R0 G ν Vex ε : K) : K :=
  wheatstone (R0 * (1 - ε * ν * G)) (R0 * (1 + ε * G)) (R0 * (1 - ε * ν * G)) (R0 * (1 + ε * G)) Vex

/-- Half bridge type I (one axial gauge `R4`, one Poisson gauge `R3`, which sees the
transverse strain `-ν ε`): `R1 = R2 = R0`, `R3 = R0 (1 - ε ν G)`, `R4 = R0 (1 + ε G)`.
This is the arrangement that yields the output quoted in the code comment,
`Vo = [(1 - ε ν G) / (2 + ε G - ε ν G) - 1/2] Vex`, and NI's half-bridge-I formula. -/
def halfBridge1 (R0 G ν Vex ε : K) : K :=
  wheatstone R0 R0 (R0 * (1 - ε * ν * G)) (R0 * (1 + ε * G)) Vex

/-- Half bridge type I *as literally written* in the code comment (scaling.py 246-248):
`R3 = R0 (1 + ε ν G)`.  Kept only to state the comment's inconsistency
(`C17.half_bridge_1_comment_discrepancy`). -/
def halfBridge1AsCommented (R0 G ν Vex ε : K) : K :=
  wheatstone R0 R0 (R0 * (1 + ε * ν * G)) (R0 * (1 + ε * G)) Vex

/-- Half bridge type II (NI): `R1 = R2 = R0`, `R3 = R0 (1 - ε G)`, `R4 = R0 (1 + ε G)`. -/
def halfBridge2 (R0 G Vex ε : K) : K :=
  wheatstone R0 R0 (R0 * (1 - ε * G)) (R0 * (1 + ε * G)) Vex

/-- Quarter bridge (types I and II): `R1 = R2 = R3 = R0`, `R4 = R0 (1 + ε G)`. -/
def quarterBridge (R0 G Vex ε : K) : K :=
  wheatstone R0 R0 R0 (R0 * (1 + ε * G)) Vex

/-- Lead-wire desensitisation of a half/quarter bridge (NI): a lead of resistance `RL`
in series with a gauge of resistance `Rg` turns the arm `Rg (1 + εG)` into
`(Rg + RL)(1 + ε G·Rg/(Rg+RL))`, i.e. the gauge factor is effectively reduced to
`G · Rg / (Rg + RL) = G / (1 + RL/Rg)`. -/
def desensitisedGaugeFactor (G Rg RL : K) : K := G / (1 + RL / Rg)

end Field

section Ordered
variable {K : Type*} [Field K] [LinearOrder K]

/-- Callendar–Van Dusen: `R(T) = R0 (1 + A T + B T² + C (T - 100) T³)`, the `C` term
only for `T < 0` (°C). -/
def callendarVanDusen (r0 a b c T : K) : K :=
  r0 * (1 + a * T + b * T ^ 2 + (if T < 0 then c * (T - 100) * T ^ 3 else 0))

/-- Voltage across a current-excited RTD including its lead wires. -/
def rtdVoltage (I r0 a b c lead : K) (cfg : Nat) (T : K) : K :=
  currentExcitedVoltage I (callendarVanDusen r0 a b c T) cfg lead

end Ordered

/-- Steinhart–Hart: `1/T = a + b ln R + c (ln R)³` with `T` in Kelvin. -/
def SteinhartHart (a b c R T : ℝ) : Prop :=
  1 / T = a + b * Real.log R + c * Real.log R ^ 3

end Tdms.Spec.Sensors
