/-!
# Reference semantics of CPython slicing and indexing

Written directly from CPython: `PySlice_GetLongIndices` (`Objects/sliceobject.c`, the implementation
of `slice.indices(n)`), `compute_range_length` / `range.__getitem__` (`Objects/rangeobject.c`) and
the index normalisation of `list.__getitem__` / `PySequence_GetItem`.

For a sequence `xs` of length `n`, `xs[a:b:c]` is `[xs[i] for i in range(*slice(a,b,c).indices(n))]`.
Core Lean only; independent of the npTDMS model.
-/

namespace Tdms.Spec.PySlice

/-- The clamp applied to a given (non-`None`) `start` or `stop` in `PySlice_GetLongIndices`:
    a negative value has `n` added and is then raised to `lower`; a non-negative one is lowered
    to `upper`. -/
def clamp (n : Nat) (lower upper s : Int) : Int :=
  if s < 0 then max (s + n) lower else min s upper

/-- `slice(start, stop, step).indices(n)`: `none` is the `ValueError("slice step cannot be zero")`. -/
def sliceIndices (n : Nat) (start stop step : Option Int) : Option (Int × Int × Int) :=
  let step : Int := step.getD 1
  if step = 0 then none
  else
    let neg : Bool := decide (step < 0)
    let lower : Int := if neg then -1 else 0
    let upper : Int := if neg then (n : Int) - 1 else n
    let start : Int := match start with
      | none => if neg then upper else lower
      | some s => clamp n lower upper s
    let stop : Int := match stop with
      | none => if neg then lower else upper
      | some s => clamp n lower upper s
    some (start, stop, step)

/-- `len(range(start, stop, step))` for `step ≠ 0` (`compute_range_length`) -/
def rangeLen (start stop step : Int) : Nat :=
  if step > 0 then (if start < stop then ((stop - start - 1) / step + 1).toNat else 0)
  else (if stop < start then ((start - stop - 1) / (-step) + 1).toNat else 0)

/-- `list(range(start, stop, step))`: the `i`-th element is `start + i * step` -/
def pyRange (start stop step : Int) : List Int :=
  (List.range (rangeLen start stop step)).map fun (i : Nat) => start + (i : Int) * step

/-- the list of positions selected by `xs[start:stop:step]` when `len(xs) = n`;
    `.error ()` is the `ValueError` for a zero step.  All positions lie in `[0, n)`. -/
def pySliceIndices (n : Nat) (start stop step : Option Int) : Except Unit (List Nat) :=
  match sliceIndices n start stop step with
  | none => .error ()
  | some (a, b, c) => .ok ((pyRange a b c).map Int.toNat)

/-- `xs[start:stop:step]` -/
def pySlice {α : Type} (xs : List α) (start stop step : Option Int) : Except Unit (List α) :=
  (pySliceIndices xs.length start stop step).map fun idx => idx.filterMap (xs[·]?)

/-- position read by `xs[i]` when `len(xs) = n`; `none` is `IndexError` -/
def pyIndex (n : Nat) (i : Int) : Option Nat :=
  if -(n : Int) ≤ i ∧ i < n then some (i % (n : Int)).toNat else none

end Tdms.Spec.PySlice

