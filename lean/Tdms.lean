import Tdms.Spec.Bytes
import Tdms.Generated.Types
import Tdms.Spec.Format
import Tdms.Spec.Meaning
import Tdms.Model.Reader
import Tdms.Model.Data
import Tdms.Driver
