/-
  Executable model of npTDMS timestamp arithmetic (core Lean only).

  Mirrors
    * `nptdms.types.TimeStamp.__init__`            (writer)            -> `encode`
    * `nptdms.timestamp.TdmsTimestamp.as_datetime64` (scalar reader)   -> `steps`, `decode`
    * `nptdms.timestamp.TimestampArray.as_datetime64` (array reader)   -> `stepsArr`, `decodeArr`
    * `nptdms.timestamp._multiply_high`            (uint64 arithmetic) -> `mulhi64`
    * `struct.pack('<Qq' / '>qQ')` / `struct.unpack`                   -> `toBytes*`, `ofBytes*`
-/

namespace Tdms.Model.Timestamp

/-- `_FRACTIONS_TOLERANCE = 2 ** 11` -/
def tol : Nat := 2^11

/-- `_MAX_FRACTIONS = 2 ** 64 - 1` -/
def maxFrac : Nat := 2^64 - 1

/-- `second_fractions = (microseconds << 64) // 10 ** 6` for `0 ≤ microseconds`. -/
def encodeUs (u : Nat) : Nat := (u * 2^64) / 10^6

/-- Scalar reader path (unbounded Python ints):
    `fractions = min(int(second_fractions) + _FRACTIONS_TOLERANCE, _MAX_FRACTIONS)`
    `(fractions * steps_per_second) >> 64`. -/
def steps (R frac : Nat) : Nat := (min (frac + tol) maxFrac * R) / 2^64

/-- uint64 modulus: every NumPy `uint64` operation is reduced modulo this. -/
def W64 : Nat := 2^64

/-- Literal model of `_multiply_high(values, factor)` for one `uint64` element `x`.
    Every uint64 `*` and `+` is followed by `% 2^64`; `>> 32` is `/ 2^32`; `& 0xFFFFFFFF` is `% 2^32`.
    `factor_high`/`factor_low` are computed on a Python int and then converted with `np.uint64`
    (modelled as `% 2^64`, a no-op for `factor < 2^64`). -/
def mulhi64 (x m : Nat) : Nat :=
  let factor_high := (m / 2^32) % W64            -- np.uint64(factor >> 32)
  let factor_low  := (m % 2^32) % W64            -- np.uint64(factor & 0xFFFFFFFF)
  let values_high := x / 2^32                    -- values >> shift
  let values_low  := x % 2^32                    -- values & mask
  let low   := (values_low * factor_low) % W64
  let mid   := ((values_high * factor_low) % W64 + low / 2^32) % W64
  let mid_2 := ((values_low * factor_high) % W64 + mid % 2^32) % W64
  (((values_high * factor_high) % W64 + mid / 2^32) % W64 + mid_2 / 2^32) % W64

/-- Array reader path (uint64 NumPy arithmetic):
    `np.minimum(frac, np.uint64(_MAX_FRACTIONS - _FRACTIONS_TOLERANCE)) + np.uint64(_FRACTIONS_TOLERANCE)`
    then `_multiply_high(fractions, steps_per_second)`.  The `+` is a uint64 add (`% 2^64`). -/
def stepsArr (R frac : Nat) : Nat := mulhi64 ((min frac (maxFrac - tol) + tol) % W64) R

/-- The (mathematical, unclamped) second_fractions integer the writer hands to `struct.pack('<Q', …)`.
    Python `//` is floor division; for the positive divisor `10^6` Lean's `Int` `/` is floor division too. -/
def encodeFracInt (delta seconds0 : Int) : Int :=
  let remainder := delta - seconds0 * 1000000
  let remainder := if remainder < 0 then 1000000 + remainder else remainder
  (remainder * 2^64) / 1000000

/-- `TimeStamp.__init__`: `delta` = microseconds since the TDMS epoch (exact integer),
    `seconds0` = `int(epoch_delta / np.timedelta64(1, 's'))`, the truncated *float* quotient, supplied
    as an input because it may differ from the exact quotient.  Returns `(seconds, second_fractions)`.
    (`Int.toNat` only matters outside the range in which `struct.pack('<Q', …)` succeeds.) -/
def encode (delta : Int) (seconds0 : Int) : Int × Nat :=
  let remainder := delta - seconds0 * 1000000
  let seconds := if remainder < 0 then seconds0 - 1 else seconds0
  (seconds, (encodeFracInt delta seconds0).toNat)

/-- `encode` with the exact truncated-toward-zero quotient (Python `int()` of the exact quotient). -/
def encodeExact (delta : Int) : Int × Nat := encode delta (Int.tdiv delta 1000000)

/-- The repaired writer: `seconds = int(epoch_delta // np.timedelta64(1, 's'))` is exact floor division
    (Lean's `Int` `/` is floor division for a positive divisor). -/
def encodeFloor (delta : Int) : Int × Nat := encode delta (delta / 1000000)

/-- Scalar reader: value in units of `1/R` s since the TDMS epoch. -/
def decode (R : Nat) (seconds : Int) (frac : Nat) : Int := seconds * R + steps R frac

/-- Array reader: value in units of `1/R` s since the TDMS epoch. -/
def decodeArr (R : Nat) (seconds : Int) (frac : Nat) : Int := seconds * R + stepsArr R frac

/-! ### Raw 16-byte form -/

/-- `w` little-endian bytes of `n` (i.e. of `n % 256^w`). -/
def encLE : Nat → Nat → List UInt8
  | 0,     _ => []
  | w + 1, n => UInt8.ofNat (n % 256) :: encLE w (n / 256)

/-- Little-endian bytes to natural number. -/
def decLE : List UInt8 → Nat
  | []      => 0
  | b :: bs => b.toNat + 256 * decLE bs

/-- Two's-complement encoding of a signed 64-bit value as an unsigned 64-bit value. -/
def toU64 (s : Int) : Nat := (s % 2^64).toNat

/-- Two's-complement decoding. -/
def ofU64 (n : Nat) : Int := if n < 2^63 then (n : Int) else (n : Int) - 2^64

/-- `struct.pack('<Qq', second_fractions, seconds)` -/
def toBytesLE (seconds : Int) (frac : Nat) : List UInt8 :=
  encLE 8 frac ++ encLE 8 (toU64 seconds)

/-- `struct.pack('>qQ', seconds, second_fractions)` -/
def toBytesBE (seconds : Int) (frac : Nat) : List UInt8 :=
  (encLE 8 (toU64 seconds)).reverse ++ (encLE 8 frac).reverse

/-- `struct.unpack('<Qq', data)` returned as `(seconds, second_fractions)` -/
def ofBytesLE (bs : List UInt8) : Int × Nat :=
  (ofU64 (decLE ((bs.drop 8).take 8)), decLE (bs.take 8))

/-- `struct.unpack('>qQ', data)` returned as `(seconds, second_fractions)` -/
def ofBytesBE (bs : List UInt8) : Int × Nat :=
  (ofU64 (decLE (bs.take 8).reverse), decLE ((bs.drop 8).take 8).reverse)

/-! ### Waveform time track (`np.linspace(offset, offset + (len - 1) * increment, len)`) -/

/-- Element `i` of `np.linspace(a, b, n)` (before NumPy overwrites the last element with `b`):
    `step = (b - a) / (n - 1)`, `y[i] = a + i * step`; for `n = 1` NumPy returns `[a]`.
    Generic over any carrier with the arithmetic operations (e.g. `Float` for execution). -/
def linspace {α : Type} [Add α] [Sub α] [Mul α] [Div α] [NatCast α] (a b : α) (n i : Nat) : α :=
  if n ≤ 1 then a else a + (i : α) * ((b - a) / ((n : α) - (1 : Nat)))

/-! ## Absolute time track

`time_track(absolute_time=True, accuracy=u)` returns `start_time + (relative_time * unit_correction).astype('timedelta64[u]')`:
the relative time of every sample is scaled to units of the accuracy (`R` per second) and converted by the C cast, i.e. truncated
toward zero, then added to the start instant. -/

/-- `x.astype('timedelta64[u]')` of a finite float: truncation toward zero. -/
def truncRat (x : Rat) : Int := if 0 ≤ x then x.floor else x.ceil

/-- Sample of the absolute track, in units of the accuracy, for a start instant `startUnits` (already in those units) and a relative
time `rel` in seconds. -/
def absTrack (startUnits : Int) (R : Nat) (rel : Rat) : Int := startUnits + truncRat (rel * (R : Rat))

/-- What the code must NOT do: convert the start offset and the per-sample offsets to units separately. -/
def absTrackSplit (startUnits : Int) (R : Nat) (off inc : Rat) (i : Nat) : Int :=
  startUnits + truncRat (off * (R : Rat)) + truncRat ((i : Rat) * inc * (R : Rat))

end Tdms.Model.Timestamp
