/-!
# Model of file-handle ownership (C20)

Mirrors `TdmsReader.__init__`, `TdmsReader.close`, the `finally` blocks of `TdmsReader.read_metadata`
and `TdmsFile.__init__`, `TdmsFile.close`, `__exit__`, and `TdmsWriter.open/close/__exit__`.
A handle is either opened by the library (from a path) or supplied by the caller (a stream).  Where the
Python code can raise, the outcome is an *input* of the model (any stage may fail).
-/

namespace Tdms.Model.Resource

inductive Owner | lib | caller
deriving Repr, DecidableEq, Inhabited

inductive Role | data | index
deriving Repr, DecidableEq, Inhabited

structure Handle where
  role : Role
  owner : Owner
deriving Repr, DecidableEq, Inhabited

/-- what `TdmsFile(...)` / `TdmsReader(...)` is given -/
inductive Source
  | dataStream              -- caller's stream starting with TDSm
  | indexStream             -- caller's stream starting with TDSh
  | badStream               -- caller's stream with another tag: ValueError before anything is stored
  | dataPath (indexExists : Bool)
  | indexPath
deriving Repr, DecidableEq, Inhabited

/-- state of a `TdmsReader` plus the bookkeeping the theorems talk about -/
structure Reader where
  file : Option Handle := none            -- `_file`
  index : Option Handle := none           -- `_index_file`
  filePathGiven : Bool := false           -- `_file_path is not None`
  indexPathGiven : Bool := false          -- `_index_file_path is not None`
  openHandles : List Handle := []         -- handles currently open (library-opened and caller streams)
  closedByLib : List Handle := []         -- every handle the library ever called `.close()` on
deriving Repr, DecidableEq, Inhabited

def closeHandle (r : Reader) (h : Handle) : Reader :=
  { r with openHandles := r.openHandles.filter (· ≠ h),
           closedByLib := if h ∈ r.closedByLib then r.closedByLib else h :: r.closedByLib }

/-- `TdmsReader.__init__`; `none` = ValueError (bad tag), nothing was opened -/
def init : Source → Option Reader
  | .dataStream => some { file := some ⟨.data, .caller⟩, openHandles := [⟨.data, .caller⟩] }
  | .indexStream => some { index := some ⟨.index, .caller⟩, openHandles := [⟨.index, .caller⟩] }
  | .badStream => none
  | .dataPath false => some { file := some ⟨.data, .lib⟩, filePathGiven := true, openHandles := [⟨.data, .lib⟩] }
  | .dataPath true =>
    some { file := some ⟨.data, .lib⟩, index := some ⟨.index, .lib⟩, filePathGiven := true, indexPathGiven := true,
           openHandles := [⟨.data, .lib⟩, ⟨.index, .lib⟩] }
  | .indexPath => some { index := some ⟨.index, .lib⟩, indexPathGiven := true, openHandles := [⟨.index, .lib⟩] }

/-- `read_metadata`, success or exception alike: the `finally` closes a path-opened index file -/
def readMetadata (r : Reader) : Reader :=
  match r.index with
  | some h => if r.indexPathGiven then closeHandle r h else r
  | none => r

/-- `TdmsReader.close` -/
def close (r : Reader) : Reader :=
  if r.file.isNone ∧ r.index.isNone then r
  else
    let r1 := match r.file with
      | some h => if r.filePathGiven then closeHandle r h else r
      | none => r
    let r2 := match r1.index with
      | some h => if r1.indexPathGiven then closeHandle r1 h else r1
      | none => r1
    { r2 with file := none, index := none }

/-- `_ensure_open` -/
def isClosed (r : Reader) : Bool := r.file.isNone && r.index.isNone

inductive ReadResult | data | closedError | indexOnlyError
deriving Repr, DecidableEq, Inhabited

/-- a read that needs the file (`_read_channel_data`, `read_raw_data…`) -/
def readNeedsFile (r : Reader) : ReadResult :=
  if isClosed r then .closedError
  else if r.file.isNone then .indexOnlyError
  else .data

/-- `TdmsFile(...)` with `keep_open = false` (`read`, `read_metadata`): whatever `_read_file` does
    (return or raise at any stage), the `finally` closes the reader -/
def tdmsFileRead (src : Source) : Option Reader :=
  (init src).map fun r => close (readMetadata r)

/-- `TdmsFile.open(...)` returning normally -/
def tdmsFileOpen (src : Source) : Option Reader :=
  (init src).map readMetadata

/-- handles opened by the library that are still open -/
def libOpen (r : Reader) : List Handle := r.openHandles.filter (·.owner = .lib)

/-! ## writer -/

inductive WTarget
  | stream (withIndexStream : Bool)
  | path (withIndex : Bool)
deriving Repr, DecidableEq, Inhabited

structure Writer where
  file : Option Handle := none
  index : Option Handle := none
  filePathGiven : Bool := false
  indexPathGiven : Bool := false
  openHandles : List Handle := []
  closedByLib : List Handle := []
deriving Repr, DecidableEq, Inhabited

/-- `TdmsWriter.__init__` followed by `open()` (`__enter__`) -/
def wOpen : WTarget → Writer
  | .stream false => { file := some ⟨.data, .caller⟩, openHandles := [⟨.data, .caller⟩] }
  | .stream true => { file := some ⟨.data, .caller⟩, index := some ⟨.index, .caller⟩,
                      openHandles := [⟨.data, .caller⟩, ⟨.index, .caller⟩] }
  | .path false => { file := some ⟨.data, .lib⟩, filePathGiven := true, openHandles := [⟨.data, .lib⟩] }
  | .path true => { file := some ⟨.data, .lib⟩, index := some ⟨.index, .lib⟩, filePathGiven := true, indexPathGiven := true,
                    openHandles := [⟨.data, .lib⟩, ⟨.index, .lib⟩] }

/-- `TdmsWriter.close()` (`__exit__`, also when the block raised) -/
def wClose (w : Writer) : Writer :=
  let close1 (w : Writer) (h : Option Handle) (given : Bool) : Writer :=
    match h with
    | some h => if given then { w with openHandles := w.openHandles.filter (· ≠ h),
                                         closedByLib := if h ∈ w.closedByLib then w.closedByLib else h :: w.closedByLib } else w
    | none => w
  let w1 := close1 w w.file w.filePathGiven
  let w2 := close1 w1 w1.index w1.indexPathGiven
  { w2 with file := none, index := none }

def wLibOpen (w : Writer) : List Handle := w.openHandles.filter (·.owner = .lib)

end Tdms.Model.Resource
