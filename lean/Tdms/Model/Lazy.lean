import Tdms.Model.Data

/-!
# Model of lazy reading (`TdmsFile.open`)

Mirrors `TdmsReader._build_index`, `read_raw_data_for_channel`, `read_channel_chunk_for_index`,
`_trim_channel_chunk` (`nptdms/reader.py`), `TdmsSegment.read_raw_data_for_channel`,
`_read_channel_data_chunks`, `ContiguousDataReader._read_channel_data_chunk`
(`nptdms/tdms_segment.py`), and `TdmsChannel.read_data`, `_read_slice`, `_read_at_index`,
`data_chunks`, `TdmsFile.data_chunks` (`nptdms/tdms.py`).

Python generators are explicit state machines (`ChanIter`, `FileIter`): a partially consumed
iterator is a value, and an arbitrary interleaving of operations on one open file is a list of
`Op`s executed by `step`.
-/

namespace Tdms.Model

open Tdms Tdms.Generated

/-- `segment.get_segment_object(path)`: `object_index[path]` (the last position of a repeated path) -/
def getSegmentObject (s : Segment) (p : Bytes) : Option SegObj :=
  (existingIndex s.objects p).bind fun i => s.objects[i]?

def cumsumFrom (acc : Nat) : List Nat → List Nat
  | [] => []
  | x :: xs => (acc + x) :: cumsumFrom (acc + x) xs

/-- `np.searchsorted(xs, x, side='right')` on a non-decreasing list: how many elements are `≤ x` -/
def searchRight (xs : List Nat) (x : Int) : Nat := (xs.takeWhile fun (y : Nat) => decide ((y : Int) ≤ x)).length
/-- `side='left'`: how many elements are `< x` -/
def searchLeft (xs : List Nat) (x : Int) : Nat := (xs.takeWhile fun (y : Nat) => decide ((y : Int) < x)).length

structure ChannelIndex where
  firstSegment : Nat
  offsets : List Nat
deriving Repr, DecidableEq, Inhabited

/-- `_build_index` -/
def buildIndex (segs : List Segment) (p : Bytes) : ChannelIndex :=
  let nv := segs.map fun s => match getSegmentObject s p with
    | some o => numberOfSegmentValues o s
    | none => 0
  let idxs := (List.range nv.length).filter fun i => nv.getD i 0 > 0
  match idxs.head?, idxs.getLast? with
  | some first, some last => ⟨first, cumsumFrom 0 ((nv.drop first).take (last + 1 - first))⟩
  | _, _ => ⟨segs.length, []⟩

/-- `_trim_channel_chunk`; Python slice `d[skip : len(d) - trim]` -/
def pySliceTo (d : List Bytes) (skip : Nat) (trim : Int) : List Bytes :=
  let stop : Int := (d.length : Int) - trim
  let stop' : Nat := if stop < 0 then ((d.length : Int) + stop).toNat else stop.toNat
  (d.take stop').drop skip

def trimChannelChunk (c : ChanChunk) (skip : Nat) (trim : Int) : ChanChunk :=
  if skip = 0 ∧ trim = 0 then c
  else { data := c.data.map fun d => pySliceTo d skip trim,
         scalers := c.scalers.map fun l => l.map fun (id, d) => (id, pySliceTo d skip trim) }

/-! ## one channel, one segment -/

/-- `ContiguousDataReader._read_channel_data_chunk`: seek over the other channels -/
def readChannelChunkContiguous (file : Bytes) (s : Segment) (chunkIndex : Nat) (p : Bytes) :
    List SegObj → Nat → F ChanChunk
  | [], _ => pure {}
  | o :: os, cur => do
    let n := channelNumberValues s o chunkIndex
    if o.path = p then
      fSeek cur
      let vals ← readValues file s.endian o n
      pure { data := some vals }
    else if n = o.numberValues then readChannelChunkContiguous file s chunkIndex p os (cur + o.dataSize)
    else match o.dataType.bind typeSize with
      | some sz => readChannelChunkContiguous file s chunkIndex p os (cur + sz * n)
      | none =>
        if o.dataType.isNone then throw .noneType
        else if n = 0 then pure {}
        else throw .unsizedSkip

/-- one chunk for one channel, contiguous or DAQmx (`BaseDataReader._read_channel_data_chunk`) -/
def readChannelChunkAt (file : Bytes) (s : Segment) (kind : ReaderKind) (d : List SegObj) (p : Bytes)
    (chunkIndex : Nat) : F ChanChunk := do
  match kind with
  | .daqmx =>
    let c ← readDaqmxChunk file s d chunkIndex
    pure (RawChunk.get c p)
  | _ =>
    let cur ← fTell
    readChannelChunkContiguous file s chunkIndex p d cur

/-- chunks `chunkOffset + i` for `i = i₀, i₀+1, …` while below `stop`, re-seeking after each yield
    (`_read_channel_data_chunks`) -/
def readChannelChunksFrom (file : Bytes) (s : Segment) (kind : ReaderKind) (d : List SegObj) (p : Bytes)
    (chunkSz initial chunkOffset : Nat) (stop : Int) : Nat → Nat → F (List ChanChunk)
  | 0, _ => pure []
  | fuel + 1, i =>
    if ((chunkOffset + i : Nat) : Int) < stop then do
      let c ← readChannelChunkAt file s kind d p (chunkOffset + i)
      fSeek (initial + (i + 1) * chunkSz)
      let rest ← readChannelChunksFrom file s kind d p chunkSz initial chunkOffset stop fuel (i + 1)
      pure (c :: rest)
    else pure []

/-- `TdmsSegment.read_raw_data_for_channel` consumed to the end -/
def segReadChannel (file : Bytes) (s : Segment) (p : Bytes) (chunkOffset : Nat) (numChunks : Option Int) :
    F (List ChanChunk) := do
  let pre : List ChanChunk := if !hasFlag s.toc kTocRawData then [{}] else []
  fSeek s.dataPosition
  let chunkSz ← liftE (chunkSize s.objects)
  if chunkOffset > 0 then
    let cur ← fTell
    fSeek (cur + chunkSz * chunkOffset)
  let stop : Int := match numChunks with
    | none => s.numChunks
    | some n => n + chunkOffset
  let d := s.objects.filter (·.hasData)
  let kind ← liftE (dataReaderKind s)
  let initial ← fTell
  match kind with
  | .interleaved =>
    let n := stop - chunkOffset
    if n < 0 then throw .other
    let cs ← readInterleavedChunks file s d n.toNat
    let out := cs.map fun c => RawChunk.get c p
    if !out.isEmpty then fSeek (initial + chunkSz)
    pure (pre ++ out)
  | k =>
    let cs ← readChannelChunksFrom file s k d p chunkSz initial chunkOffset stop (stop - chunkOffset).toNat 0
    pure (pre ++ cs)

/-! ## windows (`TdmsReader.read_raw_data_for_channel`) -/

structure OpenFile where
  file : Bytes
  segments : List Segment
  objects : ObjMetas
deriving Repr, Inhabited

/-- per yielded chunk: `skip` for the first chunk of the start segment, running `values_read`, `trim` -/
def trimStream (length : Int) : List ChanChunk → Nat → Int → List ChanChunk × Int
  | [], _, vr => ([], vr)
  | c :: cs, skip, vr =>
    let vr' := vr + c.len - skip
    let trim : Int := if vr' < length then 0 else vr' - length
    let (rest, vrEnd) := trimStream length cs 0 vr'
    (trimChannelChunk c skip trim :: rest, vrEnd)

/-- the per-segment arithmetic of `read_raw_data_for_channel`: `none` when the channel has no data in
    the segment, else (chunk_offset, remaining_values_to_skip, num_chunks) -/
def segPlan (p : Bytes) (ix : ChannelIndex) (offset endIndex : Int) (startSeg endSeg segIndex : Nat)
    (s : Segment) : Option (Int × Int × Int) :=
  let cs : Nat := match getSegmentObject s p with
    | some o => if o.hasData then o.numberValues else 0
    | none => 0
  if cs = 0 then none
  else
    let segStart : Int := if segIndex = ix.firstSegment then 0 else ((ix.offsets.getD (segIndex - ix.firstSegment - 1) 0 : Nat) : Int)
    let (chunkOffset, skip, numChunks) : Int × Int × Int :=
      if segIndex = startSeg then
        let toSkip := offset - segStart
        (toSkip / cs, toSkip % cs, (s.numChunks : Int) - toSkip / cs)
      else (0, 0, s.numChunks)
    let numChunks : Int :=
      if segIndex = endSeg then
        let segEnd : Int := ((ix.offsets.getD (segIndex - ix.firstSegment) 0 : Nat) : Int)
        let toTrim := segEnd - endIndex
        let finalSize : Int := match s.override with
          | none => cs
          | some ov => overrideGet ov p
        let (numChunks, toTrim) := if toTrim ≥ finalSize then (numChunks - 1, toTrim - finalSize) else (numChunks, toTrim)
        numChunks - toTrim / cs
      else numChunks
    some (chunkOffset, skip, numChunks)

/-- the loop over `self._segments[start_segment:end_segment + 1]` -/
def windowLoop (f : OpenFile) (p : Bytes) (ix : ChannelIndex) (offset endIndex length : Int)
    (startSeg endSeg : Nat) : List Segment → Nat → Int → F (List ChanChunk)
  | [], _, _ => pure []
  | s :: rest, segIndex, valuesRead => do
    verifySegmentStart f.file s
    match segPlan p ix offset endIndex startSeg endSeg segIndex s with
    | none => windowLoop f p ix offset endIndex length startSeg endSeg rest (segIndex + 1) valuesRead
    | some (chunkOffset, skip, numChunks) =>
      let chunks ← segReadChannel f.file s p chunkOffset.toNat (some numChunks)
      let (out, vr) := trimStream length chunks skip.toNat valuesRead
      let more ← windowLoop f p ix offset endIndex length startSeg endSeg rest (segIndex + 1) vr
      pure (out ++ more)

/-- `TdmsReader.read_raw_data_for_channel(path, offset, length)` consumed to the end -/
def readRawDataForChannel (f : OpenFile) (p : Bytes) (offset : Int) (length : Option Int) : F (List ChanChunk) := do
  let ix := buildIndex f.segments p
  let numValues : Int := (((f.objects.get p).map (·.numValues)).getD 0 : Nat)
  let maxLen := numValues - offset
  let len : Int := match length with
    | none => maxLen
    | some l => min l maxLen
  let endIndex := offset + len
  let startSeg := ix.firstSegment + searchRight ix.offsets offset
  let endSeg := ix.firstSegment + searchLeft ix.offsets endIndex
  let segs := (f.segments.drop startSeg).take (endSeg + 1 - startSeg)
  windowLoop f p ix offset endIndex len startSeg endSeg segs startSeg 0

/-! ## channel-level API -/

/-- what a read returns: values (or DAQmx scaler dictionaries) -/
structure ReadOut where
  data : Option (List Bytes) := none
  scalers : List (Nat × List Bytes) := []
deriving Repr, DecidableEq, Inhabited

def concatChunks (dataType : Option Nat) (scalerIds : List Nat) (cs : List ChanChunk) : ReadOut :=
  let r0 : ReadOut := if dataType = some tyDaqmxRaw then { data := none, scalers := scalerIds.map fun i => (i, []) }
                      else { data := some [] }
  cs.foldl (fun r c =>
    match c.data, c.scalers with
    | some d, _ => { r with data := some (r.data.getD [] ++ d) }
    | none, some sc => { r with scalers := sc.foldl (fun l (id, v) => appendScalerData l id v) r.scalers }
    | none, none => r) r0

/-- `TdmsChannel._read_channel_data` / `read_data(offset, length, scaled=False)` on an open file;
    `none` models the empty array returned for channels without a data type -/
def channelReadData (f : OpenFile) (p : Bytes) (offset : Int) (length : Option Int) : F (Option ReadOut) := do
  match f.objects.get p with
  | none => throw .other
  | some m =>
    if m.dataType.isNone then pure none
    else
      if offset < 0 then throw .negativeArg
      if (match length with | some l => decide (l < 0) | none => false) then throw .negativeArg
      let cs ← readRawDataForChannel f p offset length
      pure (some (concatChunks m.dataType ((m.scalerTypes.getD []).map (·.1)) cs))

/-- slice of a list with Python semantics `xs[::step]` for `step ≠ 0` on an already windowed list -/
def everyNth (xs : List Bytes) (step : Nat) : List Bytes :=
  (List.range xs.length).filterMap fun i => if i % step = 0 then xs[i]? else none

def stepList (xs : List Bytes) (step : Int) : List Bytes :=
  if step > 0 then everyNth xs step.toNat else everyNth xs.reverse (-step).toNat

/-- `TdmsChannel._read_slice(start, stop, step)`; returns `none` for an empty result produced
    without touching the file -/
def channelReadSlice (f : OpenFile) (p : Bytes) (start stop step : Option Int) : F (List Bytes) := do
  if step = some 0 then throw .stepZero
  let len : Int := (((f.objects.get p).map (·.numValues)).getD 0 : Nat)
  let step : Int := step.getD 1
  let start : Int := match start with
    | none => if step > 0 then 0 else -1
    | some s => s
  let stop : Int := match stop with
    | none => if step > 0 then len else -1 - len
    | some s => s
  let start := if start < 0 then len + start else start
  let stop := if stop < 0 then len + stop else stop
  let start := if step > 0 ∧ start < 0 then 0 else start
  if stop = start then pure []
  else if step > 0 ∧ (stop < start ∨ start ≥ len ∨ stop < 0) then pure []
  else if step < 0 ∧ (stop > start ∨ stop ≥ len ∨ start < 0) then pure []
  else
    let start := if start < 0 then 0 else start
    let start := if start ≥ len then len - 1 else start
    let stop := if stop > len then len else stop
    let stop := if stop < -1 then -1 else stop
    if step > 0 then
      match ← channelReadData f p start (some (stop - start)) with
      | some r => pure (if step > 1 then stepList (r.data.getD []) step else r.data.getD [])
      | none => pure []
    else
      match ← channelReadData f p (stop + 1) (some (start - stop)) with
      | some r => pure (stepList (r.data.getD []) step)
      | none => pure []

/-- `read_channel_chunk_for_index` -/
def readChannelChunkForIndex (f : OpenFile) (p : Bytes) (index : Nat) : F (ChanChunk × Nat) := do
  let ix := buildIndex f.segments p
  let segIndex := ix.firstSegment + searchRight ix.offsets index
  match f.segments[segIndex]? with
  | none => throw .other
  | some s =>
    let cs := match getSegmentObject s p with
      | some o => o.numberValues
      | none => 0
    if cs = 0 then throw .other       -- ZeroDivisionError
    let segStart := if segIndex = ix.firstSegment then 0 else ix.offsets.getD (segIndex - ix.firstSegment - 1) 0
    let chunkIndex := (index - segStart) / cs
    verifySegmentStart f.file s
    let chunks ← segReadChannel f.file s p chunkIndex (some 1)
    match chunks.head? with
    | some c => pure (c, segStart + chunkIndex * cs)
    | none => throw .other            -- StopIteration

/-- the one-chunk cache of `TdmsChannel._read_at_index` -/
structure ChunkCache where
  lo : Nat
  hi : Nat
  vals : List Bytes
deriving Repr, DecidableEq, Inhabited

/-- `TdmsChannel._read_at_index(i)` -/
def channelReadAtIndex (f : OpenFile) (p : Bytes) (cache : Option ChunkCache) (index : Int) :
    F (Bytes × Option ChunkCache) := do
  let len : Int := (((f.objects.get p).map (·.numValues)).getD 0 : Nat)
  let i := if index < 0 then len + index else index
  if i < 0 ∨ i ≥ len then throw .indexError
  let i := i.toNat
  match cache with
  | some c =>
    if c.lo ≤ i ∧ i < c.hi then
      return (c.vals.getD (i - c.lo) [], cache)
  | none => pure ()
  let (chunk, off) ← readChannelChunkForIndex f p i
  let vals := chunk.data.getD []
  match vals[i - off]? with
  | some v => pure (v, some ⟨off, off + vals.length, vals⟩)
  | none => throw .indexError

/-! ## iterators as state machines -/

/-- a suspended `channel.data_chunks()` generator -/
structure ChanIter where
  path : Bytes
  seg : Nat                               -- absolute index of the segment being streamed
  startSeg : Nat
  endSeg : Nat
  total : Int
  inSeg : Option (Nat × Nat) := none      -- inside a segment: (chunks yielded so far, initial_position)
  emptyYielded : Bool := false            -- the extra empty chunk of a segment without kTocRawData
  offset : Nat := 0                       -- `channel_offset` of the next chunk
deriving Repr, DecidableEq, Inhabited

/-- `channel.data_chunks()`: nothing runs until the first `next` -/
def newChanIter (f : OpenFile) (p : Bytes) : ChanIter :=
  let ix := buildIndex f.segments p
  let total : Int := (((f.objects.get p).map (·.numValues)).getD 0 : Nat)
  let start := ix.firstSegment + searchRight ix.offsets 0
  { path := p, seg := start, startSeg := start, endSeg := ix.firstSegment + searchLeft ix.offsets total, total := total }

/-- one `next()` on a channel iterator: `none` is StopIteration -/
def chanIterNext (f : OpenFile) : Nat → ChanIter → F (Option (ChanChunk × Nat) × ChanIter)
  | 0, it => pure (none, it)
  | fuel + 1, it =>
    if it.seg > it.endSeg then pure (none, it)
    else match f.segments[it.seg]? with
      | none => pure (none, it)
      | some s => do
        let plan := segPlan it.path (buildIndex f.segments it.path) 0 it.total it.startSeg it.endSeg it.seg s
        let numChunks : Int := match plan with
          | some (_, _, n) => n
          | none => 0
        let nextSeg : ChanIter := { it with seg := it.seg + 1, inSeg := none, emptyYielded := false }
        match it.inSeg with
        | none =>
          if !it.emptyYielded then verifySegmentStart f.file s
          if plan.isNone then chanIterNext f fuel nextSeg
          else if !hasFlag s.toc kTocRawData ∧ !it.emptyYielded then
            pure (some ({}, it.offset), { it with emptyYielded := true })
          else do
            fSeek s.dataPosition
            let _ ← liftE (chunkSize s.objects)
            let d := s.objects.filter (·.hasData)
            let kind ← liftE (dataReaderKind s)
            let initial ← fTell
            match kind with
            | .interleaved =>
              if numChunks < 0 then throw .other
              let cs' ← readInterleavedChunks f.file s d numChunks.toNat
              match cs'.head? with
              | some c =>
                let cc := RawChunk.get c it.path
                pure (some (cc, it.offset), { it with inSeg := some (1, initial), offset := it.offset + cc.len })
              | none => chanIterNext f fuel nextSeg
            | k =>
              if 0 < numChunks then
                let cc ← readChannelChunkAt f.file s k d it.path 0
                pure (some (cc, it.offset), { it with inSeg := some (1, initial), offset := it.offset + cc.len })
              else chanIterNext f fuel nextSeg
        | some (i, initial) => do
          let chunkSz ← liftE (chunkSize s.objects)
          fSeek (initial + i * chunkSz)
          let d := s.objects.filter (·.hasData)
          let kind ← liftE (dataReaderKind s)
          match kind with
          | .interleaved => chanIterNext f fuel nextSeg
          | k =>
            if (i : Int) < numChunks then
              let cc ← readChannelChunkAt f.file s k d it.path i
              pure (some (cc, it.offset), { it with inSeg := some (i + 1, initial), offset := it.offset + cc.len })
            else chanIterNext f fuel nextSeg

/-- a suspended `TdmsFile.data_chunks()` generator -/
structure FileIter where
  seg : Nat := 0
  inSeg : Option Nat := none              -- chunks yielded so far in this segment
  emptyYielded : Bool := false
  pending : List RawChunk := []           -- interleaved: nothing pending after the single chunk
  offsets : List (Bytes × Nat) := []      -- `channel_offsets`
deriving Repr, DecidableEq, Inhabited

def bumpOffsets (offs : List (Bytes × Nat)) (c : RawChunk) : List (Bytes × Nat) :=
  c.foldl (fun o (p, cc) =>
    if o.any (·.1 = p) then o.map (fun x => if x.1 = p then (p, x.2 + cc.len) else x) else o ++ [(p, cc.len)]) offs

/-- one `next()` on a file iterator; yields the chunk and the channel offsets before it -/
def fileIterNext (f : OpenFile) : Nat → FileIter → F (Option (RawChunk × List (Bytes × Nat)) × FileIter)
  | 0, it => pure (none, it)
  | fuel + 1, it =>
    match f.segments[it.seg]? with
    | none => pure (none, it)
    | some s => do
      let nextSeg : FileIter := { it with seg := it.seg + 1, inSeg := none, emptyYielded := false }
      let yieldChunk (c : RawChunk) (st : FileIter) : F (Option (RawChunk × List (Bytes × Nat)) × FileIter) :=
        pure (some (c, it.offsets), { st with offsets := bumpOffsets it.offsets c })
      match it.inSeg with
      | none =>
        if !it.emptyYielded then verifySegmentStart f.file s
        if !hasFlag s.toc kTocRawData ∧ !it.emptyYielded then
          yieldChunk [] { it with emptyYielded := true }
        else do
          fSeek s.dataPosition
          let d := s.objects.filter (·.hasData)
          let kind ← liftE (dataReaderKind s)
          match kind with
          | .interleaved =>
            let cs ← readInterleavedChunks f.file s d s.numChunks
            match cs.head? with
            | some c => yieldChunk c { it with inSeg := some 1 }
            | none => fileIterNext f fuel nextSeg
          | k =>
            if 0 < s.numChunks then
              let cs ← readChunksSeq f.file s k d 0 1
              match cs.head? with
              | some c => yieldChunk c { it with inSeg := some 1 }
              | none => fileIterNext f fuel nextSeg
            else fileIterNext f fuel nextSeg
      | some i => do
        let chunkSz ← liftE (chunkSize s.objects)
        fSeek (s.dataPosition + i * chunkSz)
        let d := s.objects.filter (·.hasData)
        let kind ← liftE (dataReaderKind s)
        match kind with
        | .interleaved => fileIterNext f fuel nextSeg
        | k =>
          if i < s.numChunks then
            let cs ← readChunksSeq f.file s k d i 1
            match cs.head? with
            | some c => yieldChunk c { it with inSeg := some (i + 1) }
            | none => fileIterNext f fuel nextSeg
          else fileIterNext f fuel nextSeg

/-! ## operation histories on one open file (C05) -/

inductive Op
  | index (p : Bytes) (i : Int)
  | slice (p : Bytes) (a b c : Option Int)
  | read (p : Bytes) (off : Int) (len : Option Int)
  | newChanIter (p : Bytes)
  | newFileIter
  | next (id : Nat)
deriving Repr, DecidableEq, Inhabited

inductive Out
  | value (v : Bytes)
  | values (vs : List Bytes)
  | readOut (r : Option ReadOut)
  | iterId (id : Nat)
  | chanChunk (c : ChanChunk) (offset : Nat)
  | fileChunk (c : RawChunk) (offsets : List (Bytes × Nat))
  | stop
  | badIter
  | error (e : Err)
deriving Repr, DecidableEq, Inhabited

inductive Iter
  | chan (it : ChanIter)
  | file (it : FileIter)
  | finished
deriving Repr, DecidableEq, Inhabited

/-- state of an open `TdmsFile`: file position, per-channel chunk caches, live generators -/
structure OpenState where
  io : FState := {}
  caches : List (Bytes × ChunkCache) := []
  iters : List Iter := []
deriving Repr, Inhabited

def runF {α : Type} (st : OpenState) (m : F α) : Except Err (α × OpenState) :=
  match m.run st.io with
  | .ok (a, io) => .ok (a, { st with io := io })
  | .error e => .error e

def fuelFor (f : OpenFile) : Nat := f.segments.length + 2

/-- one operation on the open file.  A Python exception leaves the object usable: the state keeps
    whatever file position the failed operation left (modelled as unchanged position; every
    operation re-seeks before reading). -/
def step (f : OpenFile) (st : OpenState) : Op → OpenState × Out
  | .index p i =>
    match runF st (channelReadAtIndex f p ((st.caches.find? (·.1 = p)).map (·.2)) i) with
    | .ok ((v, cache), st') =>
      let caches := match cache with
        | some c => (p, c) :: st'.caches.filter (·.1 ≠ p)
        | none => st'.caches
      ({ st' with caches := caches }, .value v)
    | .error e => (st, .error e)
  | .slice p a b c =>
    match runF st (channelReadSlice f p a b c) with
    | .ok (vs, st') => (st', .values vs)
    | .error e => (st, .error e)
  | .read p off len =>
    match runF st (channelReadData f p off len) with
    | .ok (r, st') => (st', .readOut r)
    | .error e => (st, .error e)
  | .newChanIter p => ({ st with iters := st.iters ++ [.chan (newChanIter f p)] }, .iterId st.iters.length)
  | .newFileIter => ({ st with iters := st.iters ++ [.file {}] }, .iterId st.iters.length)
  | .next id =>
    match st.iters[id]? with
    | none => (st, .badIter)
    | some .finished => (st, .stop)
    | some (.chan it) =>
      match runF st (chanIterNext f (fuelFor f) it) with
      | .ok ((some (c, off), it'), st') => ({ st' with iters := st'.iters.set id (.chan it') }, .chanChunk c off)
      | .ok ((none, _), st') => ({ st' with iters := st'.iters.set id .finished }, .stop)
      | .error e => ({ st with iters := st.iters.set id .finished }, .error e)
    | some (.file it) =>
      match runF st (fileIterNext f (fuelFor f) it) with
      | .ok ((some (c, offs), it'), st') => ({ st' with iters := st'.iters.set id (.file it') }, .fileChunk c offs)
      | .ok ((none, _), st') => ({ st' with iters := st'.iters.set id .finished }, .stop)
      | .error e => ({ st with iters := st.iters.set id .finished }, .error e)

def runOps (f : OpenFile) : OpenState → List Op → List Out
  | _, [] => []
  | st, op :: ops =>
    let (st', out) := step f st op
    out :: runOps f st' ops

/-- `TdmsFile.open` on a data file -/
def openFile (file : Bytes) : Except Err OpenFile := do
  let st ← readMetadata file
  pure ⟨file, st.segments, st.objects⟩

end Tdms.Model
