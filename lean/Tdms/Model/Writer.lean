import Tdms.Spec.Format
import Tdms.Model.Path
import Tdms.Model.Timestamp
import Tdms.Generated.Writer
import Tdms.Generated.Timestamp

/-!
# Model of `nptdms/writer.py`

`TdmsWriter.write_segment` (root / group insertion, stable ordering, duplicate check),
`TdmsSegment.metadata`, `raw_data_index`, `leadin`, `_data_size`, `write_data`, `_to_tdms_value`,
`to_int_property_value`, `_infer_dtype`, and the index-file twin.

Names are UTF-8 byte strings; Python sorts `str` by code point, which is the same order as the
lexicographic order of the UTF-8 bytes.
-/

namespace Tdms.Model.Writer

open Tdms Tdms.Generated

/-- a Python value handed to the writer as a property value -/
inductive PyVal
  | int (v : Int)                       -- Python int
  | float (bits : Bytes)                -- Python float: 8 bytes little-endian
  | bool (b : Bool)
  | str (utf8 : Bytes)
  | datetime (unixMicros : Int)         -- datetime / np.datetime64 at microsecond resolution
  | rawTimestamp (seconds : Int) (fractions : Nat)   -- TdmsTimestamp
  | typed (code : Nat) (le : Bytes)     -- numpy scalar or explicit nptdms.types wrapper
deriving Repr, DecidableEq, Inhabited

def tyInt32 : Nat := 3
def tyInt64 : Nat := 4
def tyUint64 : Nat := 8
def tyDouble : Nat := 10
def tyVoid : Nat := 0

/-- `to_int_property_value`, driven by the rules extracted from the source -/
def intPropertyType (v : Int) : Nat :=
  let holds : String × Int → Bool := fun (op, k) =>
    if op = "ge" then v ≥ k else if op = "lt" then v < k else if op = "gt" then v > k else v ≤ k
  let rec pick : List (List (String × Int) × String) → String
    | [] => "Int32"
    | (conds, ty) :: rest => if conds.isEmpty ∨ conds.any holds then ty else pick rest
  match pick intPropertyRules with
  | "Uint64" => tyUint64
  | "Int64" => tyInt64
  | _ => tyInt32

def epochMicros : Int := writerEpochUnixMicroseconds

/-- `_to_tdms_value`: TDMS type code and little-endian value bytes (strings: the UTF-8 bytes) -/
def toTdmsValue : PyVal → Nat × Bytes
  | .int v =>
    let ty := intPropertyType v
    (ty, encLE ((typeSize ty).getD 4) (ofSigned ((typeSize ty).getD 4) v))
  | .float b => (tyDouble, b)
  | .bool b => (tyBoolean, [if b then 1 else 0])
  | .str s => (tyString, s)
  | .datetime us =>
    let (s, f) := Timestamp.encodeFloor (us - epochMicros)
    (tyTimeStamp, Timestamp.toBytesLE s f)
  | .rawTimestamp s f => (tyTimeStamp, Timestamp.toBytesLE s f)
  | .typed code le =>
    -- `struct.pack('<f', value)` goes through a Python float: a signalling float32 NaN comes out quiet
    if (code = 9 ∨ code = 25) ∧ le.length = 4 then
      let b := decLE le
      if (b / 2 ^ 23) % 256 = 255 ∧ b % 2 ^ 23 ≠ 0 ∧ (b / 2 ^ 22) % 2 = 0 then (code, encLE 4 (b + 2 ^ 22)) else (code, le)
    else (code, le)

structure WProp where
  name : Bytes
  val : PyVal
deriving Repr, DecidableEq, Inhabited

/-- data of a channel object after `_to_np_array`: a TDMS type and values in little-endian form
    (`tyVoid` for an empty array whose type cannot be determined) -/
structure WData where
  ty : Nat
  vals : List Bytes
deriving Repr, DecidableEq, Inhabited

inductive WObj
  | root (props : List WProp)
  | group (name : Bytes) (props : List WProp)
  | channel (group name : Bytes) (data : WData) (props : List WProp)
deriving Repr, DecidableEq, Inhabited

def WObj.path : WObj → Bytes
  | .root _ => Path.componentsToPathBytes []
  | .group g _ => Path.componentsToPathBytes [g]
  | .channel g c _ _ => Path.componentsToPathBytes [g, c]

def WObj.props : WObj → List WProp
  | .root p => p
  | .group _ p => p
  | .channel _ _ _ p => p

/-- `_path_ordering_key` -/
def WObj.key : WObj → Nat
  | .root _ => 0
  | .group _ _ => 1
  | .channel _ _ _ _ => 2

/-- stable sort by a three-valued key = concatenation of the three filtered sublists -/
def stableSortByKey (l : List WObj) : List WObj :=
  l.filter (·.key = 0) ++ l.filter (·.key = 1) ++ l.filter (·.key = 2)

def bytesLt : Bytes → Bytes → Bool
  | [], [] => false
  | [], _ :: _ => true
  | _ :: _, [] => false
  | a :: as, b :: bs => if a < b then true else if b < a then false else bytesLt as bs

def insertSorted (x : Bytes) : List Bytes → List Bytes
  | [] => [x]
  | y :: ys => if bytesLt x y then x :: y :: ys else if x = y then y :: ys else y :: insertSorted x ys

/-- `sorted(set(...))` -/
def sortedSet (l : List Bytes) : List Bytes := l.foldl (fun acc x => insertSorted x acc) []

structure WriterState where
  rootWritten : Bool := false
  groupsWritten : List Bytes := []
deriving Repr, DecidableEq, Inhabited

/-- the object list `write_segment` actually writes, or `none` for "Duplicate object paths found" -/
def segmentObjects (st : WriterState) (objs : List WObj) : Option (List WObj × WriterState) :=
  let addRoot := !st.rootWritten && !(objs.any (·.key = 0))
  let included := objs.filterMap fun o => match o with | .group g _ => some g | _ => none
  let required := objs.filterMap fun o => match o with | .channel g _ _ _ => some g | _ => none
  let toAdd := sortedSet (required.filter fun g => !(included.contains g) && !(st.groupsWritten.contains g))
  let all := objs ++ (if addRoot then [WObj.root []] else []) ++ toAdd.map fun g => WObj.group g []
  let sorted := stableSortByKey all
  let paths := sorted.map (·.path)
  if paths.eraseDups.length ≠ paths.length then none
  else some (sorted, { rootWritten := true, groupsWritten := st.groupsWritten ++ included ++ toAdd })

/-! ## serialisation of one segment -/

def encStringLE (s : Bytes) : Bytes := encLE 4 s.length ++ s

/-- `object_data_size` -/
def objectDataSize (d : WData) : Nat :=
  if d.ty = tyString then (d.vals.map fun s => 4 + s.length).sum
  else if d.vals.isEmpty then 0
  else (typeSize d.ty).getD 0 * d.vals.length

/-- `raw_data_index` -/
def rawDataIndex : WObj → Bytes
  | .channel _ _ d _ =>
    if d.ty = tyVoid then [0xFF, 0xFF, 0xFF, 0xFF]
    else
      let base := encLE 4 d.ty ++ encLE 4 1 ++ encLE 8 d.vals.length
      if d.ty = tyString then encLE 4 28 ++ base ++ encLE 8 (objectDataSize d) else encLE 4 20 ++ base
  | _ => [0xFF, 0xFF, 0xFF, 0xFF]

def encWProp (p : WProp) : Bytes :=
  let (ty, v) := toTdmsValue p.val
  encStringLE p.name ++ encLE 4 ty ++ (if ty = tyString then encStringLE v else v)

/-- properties dictionary: a later entry with the same name replaces the value, the position of the
    first occurrence is kept (`OrderedDict` built from a `dict`: keys are unique there already) -/
def encObjMeta (o : WObj) : Bytes :=
  encStringLE o.path ++ rawDataIndex o ++ encLE 4 o.props.length ++ o.props.flatMap encWProp

def metadata (objs : List WObj) : Bytes := encLE 4 objs.length ++ objs.flatMap encObjMeta

def cumOffsetsW (acc : Nat) : List Bytes → List Nat
  | [] => []
  | v :: vs => (acc + v.length) :: cumOffsetsW (acc + v.length) vs

/-- `write_data` -/
def objData : WObj → Bytes
  | .channel _ _ d _ =>
    if d.ty = tyString then (cumOffsetsW 0 d.vals).flatMap (encLE 4) ++ d.vals.flatten
    else d.vals.flatten
  | _ => []

def dataSize (objs : List WObj) : Nat :=
  (objs.map fun o => match o with
    | .channel _ _ d _ => objectDataSize d
    | _ => 0).sum

def tocWritten : Nat := kTocMetaData + kTocRawData + kTocNewObjList

def leadin (isIndex : Bool) (version : Nat) (metaLen dataLen : Nat) : Bytes :=
  (if isIndex then tagIndex else tagData) ++ encLE 4 tocWritten ++ encLE 4 version ++
    encLE 8 (metaLen + dataLen) ++ encLE 8 metaLen

/-- `TdmsSegment.write` -/
def writeSegment (isIndex : Bool) (version : Nat) (objs : List WObj) : Bytes :=
  let m := metadata objs
  leadin isIndex version m.length (dataSize objs) ++ m ++ (if isIndex then [] else objs.flatMap objData)

/-! ## sessions -/

/-- one writer session (`with TdmsWriter(...) as w: w.write_segment(...) ...`); `none` = ValueError -/
def writeSession (version : Nat) : WriterState → List (List WObj) → Option (Bytes × Bytes)
  | _, [] => some ([], [])
  | st, seg :: rest =>
    match segmentObjects st seg with
    | none => none
    | some (objs, st') =>
      match writeSession version st' rest with
      | none => none
      | some (d, i) => some (writeSegment false version objs ++ d, writeSegment true version objs ++ i)

/-- several sessions appending to the same files -/
def writeProgram (version : Nat) : List (List (List WObj)) → Option (Bytes × Bytes)
  | [] => some ([], [])
  | s :: rest =>
    match writeSession version {} s, writeProgram version rest with
    | some (d, i), some (d', i') => some (d ++ d', i ++ i')
    | _, _ => none

/-! ## one data type per channel within a writer session (`TdmsWriter._channel_types`)

`write_segment` refuses (ValueError, before anything is written) an object whose data type differs from the type the same
channel was written with earlier in the same writer session; an empty untyped array (`Void`) declares no type. A new
`TdmsWriter` (append mode) starts with an empty table. -/

/-- `(path, type)` of the typed channel data among the objects handed to `write_segment` -/
def typedChannels (objs : List WObj) : List (Bytes × Nat) :=
  objs.filterMap fun o => match o with
    | .channel _ _ d _ => if d.ty = tyVoid then none else some (o.path, d.ty)
    | _ => none

def lookupType (seen : List (Bytes × Nat)) (p : Bytes) : Option Nat := (seen.find? (·.1 = p)).map (·.2)

/-- the type table after a segment, or `none` for the ValueError -/
def typesStep (seen : List (Bytes × Nat)) (objs : List WObj) : Option (List (Bytes × Nat)) :=
  let cts := typedChannels objs
  if cts.all (fun pt => match lookupType seen pt.1 with | some t => t == pt.2 | none => true)
  then some (cts ++ seen) else none

def sessionTypesOk : List (Bytes × Nat) → List (List WObj) → Bool
  | _, [] => true
  | seen, seg :: rest =>
    match typesStep seen seg with
    | none => false
    | some seen' => sessionTypesOk seen' rest

/-- `writeProgram` with the type guard of every session: what the real `TdmsWriter` does -/
def writeProgramChecked (version : Nat) (prog : List (List (List WObj))) : Option (Bytes × Bytes) :=
  if prog.all (sessionTypesOk []) then writeProgram version prog else none

/-! ## `_infer_dtype` for lists of Python ints -/

def listMax : List Int → Int
  | [] => 0
  | x :: xs => xs.foldl max x
def listMin : List Int → Int
  | [] => 0
  | x :: xs => xs.foldl min x

/-- name of the NumPy dtype `_infer_dtype` picks for a non-empty list of ints -/
def inferDtype (data : List Int) : String :=
  let mx := listMax data
  let mn := listMin data
  let rec go : List (String × Int × Int × String) → String
    | [] => "int8"
    | (k, M, m, dt) :: rest =>
      if k = "and" then (if mx ≥ M ∧ mn ≥ m then dt else go rest)
      else if k = "or" then (if mx ≥ M ∨ mn < m then dt else go rest)
      else dt
  go inferDtypeChain

/-- value range of an integer dtype -/
def dtypeRange (dt : String) : Int × Int :=
  match dt with
  | "int8" => (-2^7, 2^7 - 1) | "uint8" => (0, 2^8 - 1)
  | "int16" => (-2^15, 2^15 - 1) | "uint16" => (0, 2^16 - 1)
  | "int32" => (-2^31, 2^31 - 1) | "uint32" => (0, 2^32 - 1)
  | "int64" => (-2^63, 2^63 - 1) | "uint64" => (0, 2^64 - 1)
  | _ => (0, 0)

end Tdms.Model.Writer
