import Tdms.Generated.Thermocouples

/-! Model of `nptdms/thermocouples.py` and of `ThermocoupleScaling` in `nptdms/scaling.py`, over exact
rationals (`Rat`).  Core Lean only, executable.

Everything here is the *formula* the Python code evaluates in binary64; no statement is made about
rounding.  The exponential term of type K (`a0 * exp (a1 * (t - a2)^2)`, added for `t ≥ 0`) is not a
rational function: the model exposes its rational *arguments* (`forwardExp`), the real value is
`forwardPoly + a0 * exp e`. -/

namespace Tdms.Model.Thermocouple
open Tdms.Generated

/-- `numpy.polynomial.polynomial.polyval x coeffs` (coefficients lowest degree first), Horner form —
mirrors `Polynomial.apply`. -/
def horner (coeffs : List Rat) (x : Rat) : Rat :=
  coeffs.foldr (fun c acc => c + x * acc) 0

/-- `Range.within_range`: inclusive start, exclusive end, `None` = unbounded on that side.
(`Range.__init__` rejects `start = end = None`; the model treats it as "accept everything" and
`C18.no_piece_unbounded_both` shows that it never occurs in the tables.) -/
def acceptPiece (p : TcPiece) (x : Rat) : Bool :=
  match p.lo, p.hi with
  | none, none => true
  | none, some e => decide (x < e)
  | some s, none => decide (s ≤ x)
  | some s, some e => decide (s ≤ x) && decide (x < e)

/-- `np.piecewise(x, conditions, functions ++ [nan])` for one element `x`:
`y = 0; for (cond, f) in zip(conditions, functions): y[cond] = f(x[cond])` — assignments are made in
list order, so with overlapping conditions the LAST accepting piece wins; if no condition holds the
appended default (`nan`) is used: `none`. -/
def selectPiece (pieces : List TcPiece) (x : Rat) : Option TcPiece :=
  pieces.foldl (fun acc p => if acceptPiece p x then some p else acc) none

/-- the FIRST accepting piece (what `np.select` would do) — only used to state that the choice between
first and last is immaterial for the actual tables. -/
def selectFirst (pieces : List TcPiece) (x : Rat) : Option TcPiece :=
  pieces.find? (fun p => acceptPiece p x)

/-- piecewise polynomial evaluation, `none` = the `nan` default branch of `np.piecewise` -/
def evalPieces (pieces : List TcPiece) (x : Rat) : Option Rat :=
  (selectPiece pieces x).map (fun p => horner p.coeffs x)

/-- polynomial part of `Thermocouple.celsius_to_mv` (°C → mV) -/
def forwardPoly (t : TcTable) (x : Rat) : Option Rat := evalPieces t.forward x

/-- `Thermocouple.mv_to_celsius` (mV → °C); purely polynomial -/
def inversePoly (t : TcTable) (x : Rat) : Option Rat := evalPieces t.inverse x

/-- The threshold literal in `np.piecewise(temperature, [temperature >= 0], [exp-term, 0.0])`. -/
def expTermFrom : Rat := 0

/-- exponential term of `celsius_to_mv` at `x`: `some (a0, e)` means "add `a0 * exp e`" with
`e = a1 * (x - a2)^2`; `none` means "add nothing" (no exponential term for this type, or `x < 0`). -/
def forwardExp (t : TcTable) (x : Rat) : Option (Rat × Rat) :=
  match t.expTerm with
  | none => none
  | some (a0, a1, a2) => if expTermFrom ≤ x then some (a0, a1 * ((x - a2) * (x - a2))) else none

/-- `ThermocoupleScaling.__init__`: NI thermocouple type code → table (Python raises `KeyError` for an
unknown code: `none`). -/
def lookupTable (code : Nat) : Option TcTable :=
  match tcTypeCodes.find? (fun c => c.1 == code) with
  | none => none
  | some (_, name) => tcTables.find? (fun t => t.name == name)

/-- defaults of `ThermocoupleScaling.from_properties` when the properties are missing -/
def defaultTypeCode : Nat := 10072
def defaultDirection : Int := 0

/-- `ThermocoupleScaling.from_properties`: `(type_code, scaling_direction)` with the defaults -/
def fromProperties (typeProp : Option Nat) (dirProp : Option Int) : Nat × Int :=
  (typeProp.getD defaultTypeCode, dirProp.getD defaultDirection)

/-- `ThermocoupleScaling.scale` (polynomial part). TDMS data is in µV or °C:
direction 1 ⇒ `1000.0 * celsius_to_mv(data)`, any other direction ⇒ `mv_to_celsius(data / 1000.0)`. -/
def scaleDirection (t : TcTable) (direction : Int) (x : Rat) : Option Rat :=
  if direction = 1 then (forwardPoly t x).map (fun v => 1000 * v)
  else inversePoly t (x / 1000)

/-- exponential part of `ThermocoupleScaling.scale`: `some (c, e)` = "add `c * exp e`" (µV) -/
def scaleDirectionExp (t : TcTable) (direction : Int) (x : Rat) : Option (Rat × Rat) :=
  if direction = 1 then (forwardExp t x).map (fun ae => (1000 * ae.1, ae.2))
  else none

/-- the whole scaling as built from TDMS properties; outer `none` = `KeyError` (unknown type code) -/
def scaleFromProperties (typeProp : Option Nat) (dirProp : Option Int) (x : Rat) : Option (Option Rat) :=
  let (code, dir) := fromProperties typeProp dirProp
  (lookupTable code).map (fun t => scaleDirection t dir x)

end Tdms.Model.Thermocouple
