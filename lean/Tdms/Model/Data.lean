import Tdms.Model.Reader

/-!
# Model of the npTDMS reader: raw data

Mirrors the data readers of `nptdms/tdms_segment.py` (`ContiguousDataReader`,
`InterleavedDataReader`, `TdmsSegmentObject.read_values`), `nptdms/base_segment.py` (`fromfile`,
`read_interleaved_segment_bytes`), `nptdms/daqmx.py` (`DaqmxDataReader`), and the eager path
`TdmsFile._read_data` with the receivers of `nptdms/channel_data.py`.

Every read goes through `fRead`, which advances an explicit file position and appends to an I/O
trace, so "which bytes were fetched" (C19) and "does the result depend on where the file position
was" (C05) are statements about values of this model.
-/

namespace Tdms.Model

open Tdms Tdms.Generated

structure FState where
  pos : Nat := 0
  trace : List (Nat × Nat) := []     -- (position, number of bytes returned) of every read
deriving Repr, DecidableEq, Inhabited

abbrev F := StateT FState (Except Err)

/-- `file.read(n)` / `file.readinto(buffer of n bytes)` -/
def fRead (file : Bytes) (n : Nat) : F Bytes := fun st =>
  let b := (file.drop st.pos).take n
  .ok (b, { pos := st.pos + b.length, trace := st.trace ++ [(st.pos, b.length)] })

/-- `file.read(-1)`: everything up to the end -/
def fReadAll (file : Bytes) : F Bytes := fun st =>
  let b := file.drop st.pos
  .ok (b, { pos := st.pos + b.length, trace := st.trace ++ [(st.pos, b.length)] })

def fSeek (p : Nat) : F Unit := fun st => .ok ((), { st with pos := p })
def fTell : F Nat := fun st => .ok (st.pos, st)

/-- data held by one channel in one chunk (`RawChannelDataChunk`) -/
structure ChanChunk where
  data : Option (List Bytes) := none
  scalers : Option (List (Nat × List Bytes)) := none
deriving Repr, DecidableEq, Inhabited

def ChanChunk.len (c : ChanChunk) : Nat :=
  match c.data, c.scalers with
  | some d, _ => d.length
  | none, some ((_, v) :: _) => v.length
  | _, _ => 0

/-- `RawDataChunk.channel_data`: ordered dictionary path ↦ channel chunk -/
abbrev RawChunk := List (Bytes × ChanChunk)

def RawChunk.get (c : RawChunk) (p : Bytes) : ChanChunk := ((c.find? (·.1 = p)).map (·.2)).getD {}

def dictSet {β : Type} (d : List (Bytes × β)) (p : Bytes) (v : β) : List (Bytes × β) :=
  if d.any (·.1 = p) then d.map (fun x => if x.1 = p then (p, v) else x) else d ++ [(p, v)]

/-- split into items of `w` bytes (`w > 0`), dropping an incomplete tail -/
def splitEvery (w : Nat) : Nat → Bytes → List Bytes
  | 0, _ => []
  | k + 1, bs => if bs.length < w ∨ w = 0 then [] else bs.take w :: splitEvery w k (bs.drop w)

def canonValue (e : Endian) (ty : Nat) (v : Bytes) : Bytes :=
  match e with
  | .little => v
  | .big => swapAtoms (typeAtoms ty) v

/-- `String.read_values` -/
def readStringValues (file : Bytes) (e : Endian) (n : Nat) : F (List Bytes) := do
  let rec offsets : Nat → F (List Nat)
    | 0 => pure []
    | k + 1 => do
      let b ← fRead file 4
      if b.length < 4 then throw .short
      let rest ← offsets k
      pure (dec e b :: rest)
  let offs ← offsets n
  let rec strings : Nat → List Nat → F (List Bytes)
    | _, [] => pure []
    | prev, o :: os => do
      let s ← if o < prev then fReadAll file else fRead file (o - prev)
      let rest ← strings o os
      pure (s :: rest)
  strings 0 offs

/-- `TdmsSegmentObject.read_values` -/
def readValues (file : Bytes) (e : Endian) (o : SegObj) (n : Nat) : F (List Bytes) := do
  match o.dataType with
  | none => throw .noneType
  | some ty =>
    match typeInfo ty with
    | none => throw .unknownType
    | some ti =>
      match ti.size with
      | some sz =>
        -- `fromfile`: read up to n items, keep the complete ones
        let b ← fRead file (n * sz)
        if ti.npKind.isNone ∧ b.length % sz ≠ 0 then throw .other   -- TimeStamp.from_bytes reshape
        pure ((splitEvery sz n b).map (canonValue e ty))
      | none =>
        if ty = tyString then readStringValues file e n else throw .unsupportedType

/-- `BaseDataReader._get_channel_number_values` -/
def channelNumberValues (s : Segment) (o : SegObj) (chunkIndex : Nat) : Nat :=
  match s.override with
  | some ov => if chunkIndex + 1 = s.numChunks then overrideGet ov o.path else o.numberValues
  | none => o.numberValues

/-- `ContiguousDataReader._read_data_chunk` -/
def readContiguousChunk (file : Bytes) (s : Segment) (chunkIndex : Nat) : List SegObj → RawChunk → F RawChunk
  | [], acc => pure acc
  | o :: os, acc => do
    let vals ← readValues file s.endian o (channelNumberValues s o chunkIndex)
    readContiguousChunk file s chunkIndex os (dictSet acc o.path { data := some vals })

/-- `read_interleaved_segment_bytes`: rows of `width` bytes, cropped to whole rows -/
def readRows (file : Bytes) (width numRows : Nat) : F (List Bytes) := do
  let b ← fRead file (width * numRows)
  if width = 0 then throw .other
  pure (splitEvery width numRows b)

def objSize (o : SegObj) : Except Err Nat :=
  match o.dataType with
  | none => .error .noneType
  | some ty => match typeSize ty with
    | some s => .ok s
    | none => .error .other

/-- column selection for every object of an interleaved segment -/
def interleavedColumns (e : Endian) (rows : List Bytes) : Nat → List SegObj → RawChunk → Except Err RawChunk
  | _, [], acc => .ok acc
  | col, o :: os, acc => do
    let sz ← objSize o
    let ty := o.dataType.getD 0
    let vals := rows.map fun r => canonValue e ty ((r.drop col).take sz)
    interleavedColumns e rows (col + sz) os (dictSet acc o.path { data := some vals })

/-- `InterleavedDataReader.read_data_chunks`: all requested chunks are read at once -/
def readInterleavedChunks (file : Bytes) (s : Segment) (d : List SegObj) (numChunks : Nat) : F (List RawChunk) := do
  match d with
  | [] => pure []
  | o0 :: _ =>
    if d.any (·.numberValues ≠ o0.numberValues) then throw .interleavedLengths
    let width ← match d.foldl (fun acc o => do let a ← acc; let s ← objSize o; pure (a + s)) (.ok 0) with
      | .ok w => pure w
      | .error x => throw x
    let rows ← readRows file width (o0.numberValues * numChunks)
    match interleavedColumns s.endian rows 0 d [] with
    | .ok c => pure [c]
    | .error x => throw x

/-- `_have_interleaved_data` -/
def haveInterleavedData (s : Segment) (d : List SegObj) : Except Err Bool :=
  if !hasFlag s.toc kTocInterleavedData then .ok false
  else if d.any (·.dataType.isNone) then .error .noneType
  else
    let unsized := d.filter fun o => (o.dataType.bind typeSize).isNone
    if unsized.length = 0 then .ok true
    else if unsized.length = 1 ∧ d.length = 1 then .ok false
    else .error .interleavedUnsized

/-- value of one scaler in one row (`postprocess_data ∘ from_bytes ∘ column selection`) -/
def daqScalerValue (e : Endian) (sc : DaqScaler) (row : Bytes) : Except Err Bytes :=
  match typeSize sc.ty with
  | none => .error .other
  | some sz =>
    let off := if sc.digital then sc.offset / 8 else sc.offset
    if off + sz > row.length then .error .other
    else
      let raw := (row.drop off).take sz
      if sc.digital then .ok (encLE sz ((dec e raw / 2 ^ (sc.offset % 8)) % 2))
      else .ok (canonValue e sc.ty raw)

def mapExcept {α β : Type} (f : α → Except Err β) : List α → Except Err (List β)
  | [] => .ok []
  | x :: xs => do
    let y ← f x
    let ys ← mapExcept f xs
    pure (y :: ys)

/-- scalers of every object that live in buffer `b` -/
def daqBufferScalers (e : Endian) (b : Nat) (rows : List Bytes) (crop : Bytes → Option Nat) :
    List SegObj → RawChunk → RawChunk → Except Err (RawChunk × RawChunk)
  | [], data, scal => .ok (data, scal)
  | o :: os, data, scal => do
    let scs := ((o.daq.map (·.scalers)).getD []).filter (·.buffer = b)
    let (data, scal) ← scs.foldl (fun acc sc => do
        let (data, scal) ← acc
        let vals ← mapExcept (daqScalerValue e sc) rows
        -- truncated final chunk: only the rows available for all scalers of this channel
        let vals := match crop o.path with
          | some k => vals.take k
          | none => vals
        if o.dataType = some tyDaqmxRaw then
          let cur := ((scal.find? (·.1 = o.path)).bind (·.2.scalers)).getD []
          let cur' := if cur.any (·.1 = sc.scaleId) then cur.map (fun x => if x.1 = sc.scaleId then (x.1, vals) else x)
                      else cur ++ [(sc.scaleId, vals)]
          pure (data, dictSet scal o.path { scalers := some cur' })
        else pure (dictSet data o.path { data := some vals }, scal)) (.ok (data, scal))
    daqBufferScalers e b rows crop os data scal

/-- `DaqmxDataReader._read_data_chunk` -/
def readDaqmxChunk (file : Bytes) (s : Segment) (d : List SegObj) (chunkIndex : Nat) : F RawChunk := do
  let crop : Bytes → Option Nat := fun p => match s.override with
    | some ov => if chunkIndex + 1 = s.numChunks then some (overrideGet ov p) else none
    | none => none
  let dims ← match bufferDimensions d with
    | .ok x => pure x
    | .error x => throw x
  let rec bufs : Nat → List (Nat × Nat) → RawChunk → RawChunk → F (RawChunk × RawChunk)
    | _, [], data, scal => pure (data, scal)
    | b, (n, w) :: rest, data, scal => do
      let rows ← readRows file w n
      match daqBufferScalers s.endian b rows crop d data scal with
      | .ok (data, scal) => bufs (b + 1) rest data scal
      | .error x => throw x
  let (data, scal) ← bufs 0 dims [] []
  pure (data ++ scal)

inductive ReaderKind | daqmx | interleaved | contiguous
deriving Repr, DecidableEq

/-- `_get_data_reader` -/
def dataReaderKind (s : Segment) : Except Err ReaderKind := do
  if ← haveDaqmxObjects s.objects then pure .daqmx
  else if ← haveInterleavedData s (s.objects.filter (·.hasData)) then pure .interleaved
  else pure .contiguous

def liftE {α : Type} (x : Except Err α) : F α := fun st =>
  match x with
  | .ok a => .ok (a, st)
  | .error e => .error e

/-- `BaseDataReader.read_data_chunks` for contiguous and DAQmx data: chunk by chunk from the
    current file position -/
def readChunksSeq (file : Bytes) (s : Segment) (kind : ReaderKind) (d : List SegObj) : Nat → Nat → F (List RawChunk)
  | _, 0 => pure []
  | i, k + 1 => do
    let c ← match kind with
      | .daqmx => readDaqmxChunk file s d i
      | _ => readContiguousChunk file s i d []
    let rest ← readChunksSeq file s kind d (i + 1) k
    pure (c :: rest)

/-- `TdmsSegment.read_raw_data` consumed to the end (eager read): all chunks of a segment -/
def segmentReadRawData (file : Bytes) (s : Segment) : F (List RawChunk) := do
  let pre : List RawChunk := if !hasFlag s.toc kTocRawData then [[]] else []
  fSeek s.dataPosition
  let d := s.objects.filter (·.hasData)
  let kind ← liftE (dataReaderKind s)
  let chunks ← match kind with
    | .interleaved => readInterleavedChunks file s d s.numChunks
    | k => readChunksSeq file s k d 0 s.numChunks
  pure (pre ++ chunks)

/-- `_verify_segment_start` -/
def verifySegmentStart (file : Bytes) (s : Segment) : F Unit := do
  fSeek s.position
  let tag ← fRead file 4
  if tag ≠ tagData then throw .badSegmentStart

/-- `TdmsReader.read_raw_data` consumed to the end -/
def readRawDataAll (file : Bytes) : List Segment → F (List RawChunk)
  | [] => pure []
  | s :: ss => do
    verifySegmentStart file s
    let cs ← segmentReadRawData file s
    let rest ← readRawDataAll file ss
    pure (cs ++ rest)

/-! ## receivers and the eager result -/

structure ChannelData where
  path : Bytes
  data : Option (List Bytes)                    -- `None` receiver when the channel has no type
  scalers : List (Nat × List Bytes) := []
deriving Repr, DecidableEq, Inhabited

def appendScalerData (l : List (Nat × List Bytes)) (id : Nat) (vs : List Bytes) : List (Nat × List Bytes) :=
  if l.any (·.1 = id) then l.map (fun x => if x.1 = id then (x.1, x.2 ++ vs) else x) else l ++ [(id, vs)]

/-- `get_data_receiver` for one object (`none` when the object has no data type) -/
def newReceiver (m : ObjMeta) : Option ChannelData :=
  match m.dataType with
  | none => none
  | some ty =>
    if ty = tyDaqmxRaw then some ⟨m.path, none, (m.scalerTypes.getD []).map fun (id, _) => (id, [])⟩
    else some ⟨m.path, some [], []⟩

/-- append one chunk to the receivers (the loop body of `TdmsFile._read_data`) -/
def receiveChunk (rs : List ChannelData) (c : RawChunk) : Except Err (List ChannelData) :=
  c.foldl (fun acc (p, cc) => do
    let rs ← acc
    match rs.find? (·.path = p) with
    | none => if cc.data.isSome ∨ cc.scalers.isSome then .error .noneType else pure rs
    | some _ =>
      pure (rs.map fun r =>
        if r.path ≠ p then r
        else match cc.data, cc.scalers with
          | some d, _ => { r with data := some (r.data.getD [] ++ d) }
          | none, some sc => { r with scalers := sc.foldl (fun l (id, v) => appendScalerData l id v) r.scalers }
          | none, none => r)) (.ok rs)

/-- is a path a channel path (two components)?  Mirrors the `ObjectPath` classification only as
    far as `_read_file` needs it; the grammar itself is `Model/Path.lean`. -/
def countComponents (path : Bytes) : Nat :=
  -- number of occurrences of "/'" that start a component = number of components for valid paths
  let rec go : List UInt8 → Bool → Nat
    | [], _ => 0
    | 0x2f :: 0x27 :: rest, false => 1 + go rest true          -- "/'" outside quotes opens a component
    | 0x27 :: 0x27 :: rest, true => go rest true               -- escaped quote
    | 0x27 :: rest, true => go rest false                      -- closing quote
    | _ :: rest, q => go rest q
  go path false

structure EagerResult where
  state : ReaderState
  channels : List ChannelData
deriving Repr, Inhabited

/-- receivers exceeding their capacity raise in NumPy (`could not broadcast`) -/
def checkCapacity (st : ReaderState) (rs : List ChannelData) : Except Err Unit :=
  if rs.all fun r =>
      let cap := ((st.objects.get r.path).map (·.numValues)).getD 0
      (r.data.map (·.length)).getD 0 ≤ cap ∧ r.scalers.all fun (_, v) => v.length ≤ cap
  then .ok () else .error .overflow

/-- `TdmsFile.read` on a data file -/
def readFile (file : Bytes) : Except Err EagerResult := do
  let st ← readMetadata file
  let chans := st.objects.filter fun m => countComponents m.path = 2
  let receivers := chans.filterMap newReceiver
  let (chunks, _) ← (readRawDataAll file st.segments).run {}
  let rs ← chunks.foldl (fun acc c => do
    let rs ← acc
    let rs' ← receiveChunk rs c
    checkCapacity st rs'
    pure rs') (.ok receivers)
  pure ⟨st, rs⟩

end Tdms.Model
