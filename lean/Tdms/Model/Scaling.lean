import Tdms.Generated.Thermocouples
import Tdms.Generated.Dtype

/-!
# Model of `nptdms/scaling.py`: building scalings from properties and evaluating the scale graph

`get_scaling`, `_get_channel_scaling`, `_get_number_of_scalings`, the `from_properties` constructors,
`MultiScaling._compute_scaled_data` and `MultiScaling._compute_scale_dtype`.

Values live in an arbitrary type `R` with `+ - * 0` (the theorems instantiate a commutative ring, the
driver `Rat`).  NumPy operations are elementwise, so an array is scaled by mapping the one-element
function over it (`scaleArray`); sensor scalings (RTD, strain, thermistor, thermocouple) appear as opaque
elementwise functions `env k : R → R`.
-/

namespace Tdms.Model.Scaling

open Tdms.Generated

inductive PV (R : Type)
  | num (v : R)            -- numeric property (int or float)
  | nat (n : Nat)          -- unsigned integer property that is used as an index / size / code
  | str (s : String)
deriving Repr, Inhabited

abbrev Props (R : Type) := List (String × PV R)

def Props.get {R : Type} (ps : Props R) (k : String) : Option (PV R) := (ps.find? (·.1 = k)).map (·.2)

inductive Scaling (R : Type)
  | linear (intercept slope : R) (src : Nat)
  | polynomial (coeffs : List R) (src : Nat)
  | table (inputs outputs : List R) (src : Nat)
  | add (left right : Nat)
  | subtract (left right : Nat)
  | daqmx (scaleId : Nat)
  | noop (src : Nat)
  | sensor (k : Nat) (src : Nat)      -- RTD / Strain / Thermistor / Thermocouple: elementwise function `env k`
deriving Repr, Inhabited

inductive ScaleErr
  | keyError | valueError | indexError | invalidDaqmxInput | noFuel
deriving Repr, DecidableEq, Inhabited

def rawSource : Nat := rawDataInputSource

section Build
variable {R : Type}

def getNat (ps : Props R) (k : String) : Except ScaleErr Nat :=
  match ps.get k with
  | some (.nat n) => .ok n
  | _ => .error .keyError

def getNatD (ps : Props R) (k : String) (d : Nat) : Except ScaleErr Nat :=
  match ps.get k with
  | some (.nat n) => .ok n
  | some _ => .error .valueError
  | none => .ok d

def getNum (ps : Props R) (k : String) [NatCast R] : Except ScaleErr R :=
  match ps.get k with
  | some (.num v) => .ok v
  | some (.nat n) => .ok (n : R)
  | _ => .error .keyError

def getNums (ps : Props R) (pre : String) [NatCast R] : Nat → Nat → Except ScaleErr (List R)
  | _, 0 => .ok []
  | i, k + 1 => do
    let v ← getNum ps (pre ++ "[" ++ toString i ++ "]")
    let rest ← getNums ps pre (i + 1) k
    pure (v :: rest)

/-- are consecutive differences all positive (`np.all(np.diff(xs) > 0)`) -/
def strictlyIncreasing [LT R] [DecidableRel (α := R) (· < ·)] : List R → Bool
  | [] => true
  | [_] => true
  | a :: b :: rest => decide (a < b) && strictlyIncreasing (b :: rest)

/-- `"NI_Scale[%d]" % i` -/
def pfx (i : Nat) : String := "NI_Scale[" ++ toString i ++ "]"

/-- the digits of `NI_Scale[<digits>]_Scale_Type…` (`re.match`: anchored at the start only) -/
def scaleTypeIndex (key : String) : Option Nat :=
  if key.startsWith "NI_Scale[" then
    let rest := (key.drop 9).toString
    let digits := (rest.takeWhile Char.isDigit).toString
    if digits.isEmpty then none
    else if (rest.drop digits.length).toString.startsWith "]_Scale_Type" then digits.toNat? else none
  else none

/-- `_get_number_of_scalings` -/
def numberOfScalings (ps : Props R) : Option Nat :=
  match ps.get "NI_Number_Of_Scales" with
  | some (.nat n) => some n
  | some _ => none
  | none =>
    match ps.filterMap fun (k, _) => scaleTypeIndex k with
    | [] => none
    | i :: is => some (is.foldl max i + 1)

/-- one `from_properties` constructor; `none` = unsupported scale type (the whole scaling is dropped) -/
def buildOne [NatCast R] [LT R] [DecidableRel (α := R) (· < ·)] (ps : Props R) (i : Nat) :
    Except ScaleErr (Option (Scaling R)) :=
  match ps.get (pfx i ++ "_Scale_Type") with
  | none => .ok (some (.daqmx i))
  | some (.str "Linear") => do
    let src ← getNatD ps (pfx i ++ "_Linear_Input_Source") rawSource
    let b ← getNum ps (pfx i ++ "_Linear_Y_Intercept")
    let m ← getNum ps (pfx i ++ "_Linear_Slope")
    pure (some (.linear b m src))
  | some (.str "Polynomial") => do
    let n ← getNatD ps (pfx i ++ "_Polynomial_Coefficients_Size") 4
    let src ← getNatD ps (pfx i ++ "_Polynomial_Input_Source") rawSource
    let cs ← getNums ps (pfx i ++ "_Polynomial_Coefficients") 0 n
    pure (some (.polynomial cs src))
  | some (.str "Table") => do
    let src ← getNatD ps (pfx i ++ "_Table_Input_Source") rawSource
    let np ← getNat ps (pfx i ++ "_Table_Pre_Scaled_Values_Size")
    let ns ← getNat ps (pfx i ++ "_Table_Scaled_Values_Size")
    if np ≠ ns then throw .valueError
    let pre ← getNums ps (pfx i ++ "_Table_Pre_Scaled_Values") 0 np
    let sc ← getNums ps (pfx i ++ "_Table_Scaled_Values") 0 ns
    -- TableScaling.__init__: flip when not increasing, fail when still not increasing
    if strictlyIncreasing sc then pure (some (.table sc pre src))
    else if strictlyIncreasing sc.reverse then pure (some (.table sc.reverse pre.reverse src))
    else throw .valueError
  | some (.str "Add") => do
    let l ← getNat ps (pfx i ++ "_Add_Left_Operand_Input_Source")
    let r ← getNat ps (pfx i ++ "_Add_Right_Operand_Input_Source")
    pure (some (.add l r))
  | some (.str "Subtract") => do
    let l ← getNat ps (pfx i ++ "_Subtract_Left_Operand_Input_Source")
    let r ← getNat ps (pfx i ++ "_Subtract_Right_Operand_Input_Source")
    pure (some (.subtract l r))
  | some (.str "AdvancedAPI") => do
    let src ← getNatD ps (pfx i ++ "_AdvancedAPI_Input_Source") rawSource
    pure (some (.noop src))
  | some (.str "RTD") => do
    let src ← getNat ps (pfx i ++ "_RTD_Input_Source")
    pure (some (.sensor i src))
  | some (.str "Strain") => do
    let src ← getNat ps (pfx i ++ "_Strain_Input_Source")
    pure (some (.sensor i src))
  | some (.str "Thermistor") => do
    let src ← getNat ps (pfx i ++ "_Thermistor_Input_Source")
    pure (some (.sensor i src))
  | some (.str "Thermocouple") => do
    let src ← getNatD ps (pfx i ++ "_Thermocouple_Input_Source") rawSource
    pure (some (.sensor i src))
  | some _ => .ok none

def buildAll [NatCast R] [LT R] [DecidableRel (α := R) (· < ·)] (ps : Props R) : Nat → Nat →
    Except ScaleErr (Option (List (Scaling R)))
  | _, 0 => .ok (some [])
  | i, k + 1 => do
    match ← buildOne ps i with
    | none => pure none
    | some s =>
      match ← buildAll ps (i + 1) k with
      | none => pure none
      | some rest => pure (some (s :: rest))

/-- `_get_channel_scaling`: `none` = no scaling defined by these properties -/
def channelScaling [NatCast R] [LT R] [DecidableRel (α := R) (· < ·)] (ps : Props R) :
    Except ScaleErr (Option (List (Scaling R))) :=
  match numberOfScalings ps with
  | none => .ok none
  | some 0 => .ok none
  | some n =>
    match ps.get "NI_Scaling_Status" with
    | some (.str "scaled") => .ok none
    | _ =>
      match buildAll ps 0 n with
      | .ok (some []) => .ok none
      | r => r

/-- `get_scaling`: the channel's scaling, else its group's, else the file's (a generator: later property sets are
    only looked at when the earlier ones define nothing) -/
def getScaling [NatCast R] [LT R] [DecidableRel (α := R) (· < ·)] (chan group file : Props R) :
    Except ScaleErr (Option (List (Scaling R))) := do
  match ← channelScaling chan with
  | some s => pure (some s)
  | none =>
    match ← channelScaling group with
    | some s => pure (some s)
    | none => channelScaling file

end Build

/-! ## evaluation -/

section Eval
variable {R : Type} [Add R] [Sub R] [Mul R] [OfNat R 0]

/-- `numpy.polynomial.polynomial.polyval`: Horner's rule, lowest degree first -/
def horner : List R → R → R
  | [], _ => 0
  | c :: cs, x => c + horner cs x * x

/-- the raw input of one element: plain data and/or DAQmx scalers -/
structure RawElem (R : Type) where
  data : Option R
  scalers : List (Nat × R)

/-- `MultiScaling._compute_scaled_data` on one element.  `interp xs ys x` stands for `np.interp`,
    `env k` for the sensor scaling at index `k`; `fuel` bounds the recursion Python leaves to its stack. -/
def computeScaled (interp : List R → List R → R → R) (env : Nat → R → R) (scalings : List (Scaling R)) (raw : RawElem R) :
    Nat → Nat → Except ScaleErr R
  | 0, _ => .error .noFuel
  | fuel + 1, idx =>
    if idx = rawSource then
      match raw.data with
      | some d => .ok d
      | none => .error .invalidDaqmxInput
    else
      match scalings[idx]? with
      | none => .error .indexError
      | some (.daqmx id) =>
        match raw.scalers.find? (·.1 = id) with
        | some (_, v) => .ok v
        | none => .error .keyError
      | some (.linear b m src) => do
        let x ← computeScaled interp env scalings raw fuel src
        pure (x * m + b)
      | some (.polynomial cs src) => do
        let x ← computeScaled interp env scalings raw fuel src
        pure (horner cs x)
      | some (.table xs ys src) => do
        let x ← computeScaled interp env scalings raw fuel src
        pure (interp xs ys x)
      | some (.noop src) => computeScaled interp env scalings raw fuel src
      | some (.sensor k src) => do
        let x ← computeScaled interp env scalings raw fuel src
        pure (env k x)
      | some (.add l r) => do
        let a ← computeScaled interp env scalings raw fuel l
        let b ← computeScaled interp env scalings raw fuel r
        pure (a + b)
      | some (.subtract l r) => do
        let a ← computeScaled interp env scalings raw fuel l
        let b ← computeScaled interp env scalings raw fuel r
        pure (b - a)          -- right minus left, as the code documents

/-- `MultiScaling.scale` on one element: the last scale is the output -/
def scaleElem (interp : List R → List R → R → R) (env : Nat → R → R) (scalings : List (Scaling R)) (raw : RawElem R) :
    Except ScaleErr R :=
  computeScaled interp env scalings raw (scalings.length + 1) (scalings.length - 1)

/-- scaling an array = scaling every element (NumPy arithmetic is elementwise) -/
def scaleArray (interp : List R → List R → R → R) (env : Nat → R → R) (scalings : List (Scaling R)) (raws : List (RawElem R)) :
    List (Except ScaleErr R) :=
  raws.map (scaleElem interp env scalings)

end Eval

/-! ## `np.interp` on a strictly increasing table (executable, used by the driver over `Rat`) -/

def interpGo (x0 y0 : Rat) : List Rat → List Rat → Rat → Rat
  | x1 :: xs, y1 :: ys, x =>
    if x < x1 then y0 + (y1 - y0) / (x1 - x0) * (x - x0) else interpGo x1 y1 xs ys x
  | _, _, _ => y0

def interpRat : List Rat → List Rat → Rat → Rat
  | x0 :: xs, y0 :: ys, x => if x < x0 then y0 else interpGo x0 y0 xs ys x
  | _, _, _ => 0

/-! ## dtypes (C14): what `channel.dtype` declares and what the arithmetic really produces -/

/-- `np.result_type(a, b)` from the table extracted from the installed NumPy -/
def resultType (a b : String) : String :=
  ((resultTypeTable.find? fun (x, y, _) => x = a ∧ y = b).map (·.2.2)).getD "err"

/-- dtype of `zeros(a) + zeros(b)` / `zeros(b) - zeros(a)` as NumPy computes them -/
def addResult (a b : String) : String :=
  ((addSubResultTable.find? fun (x, y, _, _) => x = a ∧ y = b).map (·.2.2.1)).getD "err"
def subResult (a b : String) : String :=
  ((addSubResultTable.find? fun (x, y, _, _) => x = a ∧ y = b).map (·.2.2.2)).getD "err"

/-- `MultiScaling._compute_scale_dtype` -/
def declaredKind {R : Type} (scalings : List (Scaling R)) (rawKind : String) (scalerKinds : List (Nat × String)) :
    Nat → Nat → Option String
  | 0, _ => none
  | fuel + 1, idx =>
    if idx = rawSource then some rawKind
    else
      match scalings[idx]? with
      | none => none
      | some (.daqmx id) => (scalerKinds.find? (·.1 = id)).map (·.2)
      | some (.add l r) => do
        let a ← declaredKind scalings rawKind scalerKinds fuel l
        let b ← declaredKind scalings rawKind scalerKinds fuel r
        pure (resultType a b)
      | some (.subtract l r) => do
        let a ← declaredKind scalings rawKind scalerKinds fuel l
        let b ← declaredKind scalings rawKind scalerKinds fuel r
        pure (resultType a b)
      | some (.noop src) => declaredKind scalings rawKind scalerKinds fuel src
      | some _ => some "f8"

/-- the dtype of the array `_compute_scaled_data` really returns -/
def actualKind {R : Type} (scalings : List (Scaling R)) (rawKind : String) (scalerKinds : List (Nat × String)) :
    Nat → Nat → Option String
  | 0, _ => none
  | fuel + 1, idx =>
    if idx = rawSource then some rawKind
    else
      match scalings[idx]? with
      | none => none
      | some (.daqmx id) => (scalerKinds.find? (·.1 = id)).map (·.2)
      | some (.add l r) => do
        let a ← actualKind scalings rawKind scalerKinds fuel l
        let b ← actualKind scalings rawKind scalerKinds fuel r
        pure (addResult a b)
      | some (.subtract l r) => do
        let a ← actualKind scalings rawKind scalerKinds fuel l
        let b ← actualKind scalings rawKind scalerKinds fuel r
        pure (subResult a b)
      | some (.noop src) => actualKind scalings rawKind scalerKinds fuel src
      | some (.linear _ _ src) => (actualKind scalings rawKind scalerKinds fuel src).map fun _ => "f8"
      | some (.polynomial _ src) => (actualKind scalings rawKind scalerKinds fuel src).map fun _ => "f8"
      | some (.table _ _ src) => (actualKind scalings rawKind scalerKinds fuel src).map fun _ => "f8"
      | some (.sensor _ src) => (actualKind scalings rawKind scalerKinds fuel src).map fun _ => "f8"

end Tdms.Model.Scaling
