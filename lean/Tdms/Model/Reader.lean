import Tdms.Spec.Format

/-!
# Model of the npTDMS reader: metadata

Mirrors, function by function, `nptdms/reader.py` (`TdmsReader.read_metadata`, `_read_lead_in`,
`_update_object_metadata`, `_update_object_properties`), `nptdms/tdms_segment.py`
(`read_segment_objects`, `_update_existing_object`, `_reuse_previous_object`, `_calculate_chunks`,
`_compute_final_chunk_lengths`, `read_raw_data_index`, `read_property`) and the metadata part of
`nptdms/daqmx.py`.  Python exceptions become values of `Err`.
-/

namespace Tdms.Model

open Tdms Tdms.Generated

inductive Err
  | badTag | noPrevSegment | reuseUnseen | typeChanged | scalerTypesChanged | badDimension
  | unknownType | unsupportedType | zeroSizeButData | negativeSize | mixedDaqmx
  | interleavedUnsized | interleavedLengths | short | daqmxWidths | daqmxScalerCount
  | daqmxScalerType | noneType | overflow | indexOnly | closed | indexError | stepZero
  | negativeArg | badSegmentStart | unsizedSkip | other
deriving Repr, DecidableEq, Inhabited

/-- sequential parser over the remaining input (`file.read` without seeks) -/
abbrev P := StateT Bytes (Except Err)

/-- `struct.unpack` needs exactly `n` bytes: a short read is an error -/
def takeN (n : Nat) : P Bytes := fun bs =>
  if bs.length < n then .error .short else .ok (bs.take n, bs.drop n)

/-- `file.read(n)`: returns what is there -/
def readUpTo (n : Nat) : P Bytes := fun bs => .ok (bs.take n, bs.drop n)

def uN (e : Endian) (w : Nat) : P Nat := do
  let b ← takeN w
  pure (dec e b)

/-- `types.String.read` -/
def readString (e : Endian) : P Bytes := do
  let n ← uN e 4
  readUpTo n

structure DaqScaler where
  scaleId : Nat
  ty : Nat            -- TDMS type code of the scaler's data
  buffer : Nat
  offset : Nat        -- raw_byte_offset / raw_bit_offset
  bitmap : Nat
  digital : Bool
deriving Repr, DecidableEq, Inhabited

structure DaqMeta where
  chunkSize : Nat
  widths : List Nat
  scalers : List DaqScaler
deriving Repr, DecidableEq, Inhabited

/-- `BaseSegmentObject` / `TdmsSegmentObject` / `DaqmxSegmentObject` -/
structure SegObj where
  path : Bytes
  numberValues : Nat := 0
  dataSize : Nat := 0
  hasData : Bool := false
  dataType : Option Nat := none
  daq : Option DaqMeta := none
deriving Repr, DecidableEq, Inhabited

def SegObj.scalerTypes (o : SegObj) : Option (List (Nat × Nat)) :=
  o.daq.map fun d => d.scalers.map fun s => (s.scaleId, s.ty)

/-- does `types.tds_data_types[code]` exist -/
def knownType (code : Nat) : Bool := (typeInfo code).isSome

/-- `TdmsSegmentObject.read_raw_data_index` -/
def readStdIndex (e : Endian) (o : SegObj) : P SegObj := do
  let b ← takeN 16
  let (ty, dim, n) := match e with
    | .little => (decLE (b.take 4), decLE ((b.drop 4).take 4), decLE (b.drop 8))
    | .big => (decBE (b.take 4), decBE ((b.drop 4).take 4), decBE (b.drop 8))
  if !knownType ty then throw .unknownType
  if (typeSize ty).isNone && ty ≠ tyString then throw .unsupportedType
  if dim ≠ 1 then throw .badDimension
  if ty = tyString then
    let total ← uN e 8
    pure { o with numberValues := n, dataType := some ty, dataSize := total }
  else
    pure { o with numberValues := n, dataType := some ty, dataSize := n * (typeSize ty).getD 0 }

def readScalers (e : Endian) (digital : Bool) : Nat → P (List DaqScaler)
  | 0 => pure []
  | k + 1 => do
    let b ← takeN (if digital then digitalLineScalerRecordSize else daqmxScalerRecordSize)
    let f (off w : Nat) := dec e ((b.drop off).take w)
    let code := f 0 4
    let buffer := f 4 4
    let offset := f 8 4
    let (bitmap, sid) := if digital then (f 12 1, f 13 4) else (f 12 4, f 16 4)
    match daqmxTypes.find? (·.1 = code) with
    | none => throw .unknownType
    | some (_, ty) =>
      let rest ← readScalers e digital k
      pure (⟨sid, ty, buffer, offset, bitmap, digital⟩ :: rest)

def readWidths (e : Endian) : Nat → P (List Nat)
  | 0 => pure []
  | k + 1 => do
    let w ← uN e 4
    let rest ← readWidths e k
    pure (w :: rest)

/-- `DaqmxSegmentObject.read_raw_data_index` and `DaqMxMetadata.__init__` -/
def readDaqmxIndex (e : Endian) (header : Nat) (o : SegObj) : P SegObj := do
  let ty ← uN e 4
  if !knownType ty then throw .unknownType
  let b ← takeN 16
  let dim := dec e (b.take 4)
  let chunkSize := dec e ((b.drop 4).take 8)
  let nScalers := dec e (b.drop 12)
  if dim ≠ 1 then throw .badDimension
  let digital := header = digitalLineScaler
  let scalers ← readScalers e digital nScalers
  if ty ≠ tyDaqmxRaw then
    if nScalers ≠ 1 then throw .daqmxScalerCount
    match scalers.head? with
    | some s => if s.ty ≠ ty then throw .daqmxScalerType
    | none => throw .daqmxScalerCount
  let nWidths ← uN e 4
  let widths ← readWidths e nWidths
  pure { o with numberValues := chunkSize, dataType := some ty, daq := some ⟨chunkSize, widths, scalers⟩ }

def isDaqmxHeader (h : Nat) : Bool := h = formatChangingScaler || h = digitalLineScaler

/-- `_new_segment_object` followed by `has_data = True; read_raw_data_index(...)` -/
def newIndexedObject (e : Endian) (path : Bytes) (header : Nat) : P SegObj :=
  let o : SegObj := { path := path, hasData := true }
  if isDaqmxHeader header then readDaqmxIndex e header o else readStdIndex e o

/-- property value in canonical form: (type code, little-endian bytes) -/
structure PropVal where
  name : Bytes
  ty : Nat
  val : Bytes
deriving Repr, DecidableEq, Inhabited

/-- `read_property` -/
def readProperty (e : Endian) : P PropVal := do
  let name ← readString e
  let ty ← uN e 4
  match typeInfo ty with
  | none => throw .unknownType
  | some ti =>
    if ty = tyString then
      let v ← readString e
      pure ⟨name, ty, v⟩
    else if ty = tyTimeStamp then
      let b ← takeN 16
      pure ⟨name, ty, match e with | .little => b | .big => b.reverse⟩
    else if ti.structFmt.isSome then
      let b ← takeN (ti.size.getD 0)
      let v := match e with | .little => b | .big => b.reverse
      if ty = tyBoolean then pure ⟨name, ty, [if decLE v = 0 then 0 else 1]⟩ else pure ⟨name, ty, v⟩
    else throw .unsupportedType

def readProperties (e : Endian) : Nat → P (List PropVal)
  | 0 => pure []
  | k + 1 => do
    let p ← readProperty e
    let rest ← readProperties e k
    pure (p :: rest)

/-! ## the object list state machine (`read_segment_objects`) -/

abbrev PrevObjs := List (Bytes × SegObj)

def PrevObjs.get (m : PrevObjs) (p : Bytes) : Option SegObj := (m.find? (·.1 = p)).map (·.2)
def PrevObjs.set (m : PrevObjs) (p : Bytes) (o : SegObj) : PrevObjs := (p, o) :: m.filter (·.1 ≠ p)

/-- position of a path in `existing_objects` (built from the list copied from the previous
    segment: for a repeated path the later entry wins, as in a dict comprehension) -/
def existingIndex (existing : List SegObj) (p : Bytes) : Option Nat :=
  let idxs := (List.range existing.length).filter fun i => (existing[i]?.map (·.path)) = some p
  idxs.getLast?

/-- `_update_existing_object` -/
def updateExistingObject (e : Endian) (ordered : List SegObj) (i : Nat) (ex : SegObj) (header : Nat) :
    P (List SegObj) :=
  if header = rawDataIndexNoData then
    pure (if ex.hasData then ordered.set i { ex with hasData := false } else ordered)
  else if header = rawDataIndexMatchesPrevious then
    pure (if !ex.hasData then ordered.set i { ex with hasData := true } else ordered)
  else do
    let o ← newIndexedObject e ex.path header
    pure (ordered.set i o)

/-- `_reuse_previous_object` -/
def reusePreviousObject (e : Endian) (ordered : List SegObj) (prev : SegObj) (header : Nat) :
    P (List SegObj) :=
  if header = rawDataIndexNoData then
    pure (ordered ++ [{ prev with hasData := false }])
  else if header = rawDataIndexMatchesPrevious then
    pure (ordered ++ [{ prev with hasData := true }])
  else do
    let o ← newIndexedObject e prev.path header
    pure (ordered ++ [o])

/-- one iteration of the object loop; returns the new list and the object's properties -/
def readOneObject (e : Endian) (existing : Option (List SegObj)) (prevObjs : PrevObjs)
    (ordered : List SegObj) : P (List SegObj × Bytes × List PropVal) := do
  let path ← readString e
  let header ← uN e 4
  let exIdx := match existing with
    | some ex => (existingIndex ex path).bind fun i => ex[i]?.map fun o => (i, o)
    | none => none
  let ordered' ← match exIdx with
    | some (i, ex) => updateExistingObject e ordered i ex header
    | none =>
      match prevObjs.get path with
      | some prev => reusePreviousObject e ordered prev header
      | none =>
        if header = rawDataIndexMatchesPrevious then throw .reuseUnseen
        else if header = rawDataIndexNoData then pure (ordered ++ [{ path := path }])
        else do
          let o ← newIndexedObject e path header
          pure (ordered ++ [o])
  let nProps ← uN e 4
  let props ← readProperties e nProps
  pure (ordered', path, props)

def readObjects (e : Endian) (existing : Option (List SegObj)) (prevObjs : PrevObjs) :
    Nat → List SegObj → List (Bytes × List PropVal) → P (List SegObj × List (Bytes × List PropVal))
  | 0, ordered, props => pure (ordered, props)
  | k + 1, ordered, props => do
    let (ordered', path, ps) ← readOneObject e existing prevObjs ordered
    -- `properties[object_path] = object_properties` only when there is at least one property;
    -- a repeated path overwrites the earlier dict entry but keeps its position
    let props' := if ps.isEmpty then props
      else if props.any (·.1 = path) then props.map (fun x => if x.1 = path then (path, ps) else x)
      else props ++ [(path, ps)]
    readObjects e existing prevObjs k ordered' props'

/-! ## chunks -/

def hasFlag (toc flag : Nat) : Bool := (toc / flag) % 2 = 1

structure Segment where
  position : Nat
  toc : Nat
  nextSegmentPos : Nat
  dataPosition : Nat
  incomplete : Bool
  objects : List SegObj := []
  numChunks : Nat := 0
  override : Option (List (Bytes × Nat)) := none
deriving Repr, DecidableEq, Inhabited

def Segment.endian (s : Segment) : Endian := if hasFlag s.toc kTocBigEndian then .big else .little

/-- `_have_daqmx_objects` -/
def haveDaqmxObjects (objs : List SegObj) : Except Err Bool :=
  let d := objs.filter (·.hasData)
  let q := d.filter (·.daq.isSome)
  if q.length = 0 then .ok false
  else if q.length = d.length then .ok true
  else .error .mixedDaqmx

/-- `get_buffer_dimensions`: (number of values, width) per raw buffer -/
def bufferDimensions (objs : List SegObj) : Except Err (List (Nat × Nat)) :=
  let d := (objs.filter (·.hasData)).filterMap (·.daq)
  match d with
  | [] => .ok []
  | first :: _ =>
    let step (acc : Except Err (List (Nat × Nat))) (m : DaqMeta) : Except Err (List (Nat × Nat)) :=
      match acc with
      | .error x => .error x
      | .ok dims =>
        if m.widths ≠ first.widths then .error .daqmxWidths
        else m.scalers.foldl (fun acc s =>
          match acc with
          | .error x => .error x
          | .ok dims =>
            match dims[s.buffer]? with
            | none => .error .other
            | some (n, w) => .ok (dims.set s.buffer (max n m.chunkSize, w))) (.ok dims)
    d.foldl step (.ok (first.widths.map fun w => (0, w)))

/-- `_get_chunk_size` -/
def chunkSize (objs : List SegObj) : Except Err Nat := do
  if ← haveDaqmxObjects objs then
    let dims ← bufferDimensions objs
    pure (dims.map fun (n, w) => n * w).sum
  else
    pure ((objs.filter (·.hasData)).map (·.dataSize)).sum

/-- `updated_buffer_lengths` in `get_daqmx_final_chunk_lengths` -/
def daqmxBufferLengths : List (Nat × Nat) → Nat → List Nat
  | [], _ => []
  | (n, w) :: rest, rem =>
    if rem > n * w then n :: daqmxBufferLengths rest (rem - n * w)
    else (rem / w) :: rest.map fun _ => 0

/-- `get_daqmx_final_chunk_lengths` -/
def daqmxFinalChunkLengths (objs : List SegObj) (remainder : Nat) : Except Err (List (Bytes × Nat)) := do
  let dims ← bufferDimensions objs
  let lens := daqmxBufferLengths dims remainder
  -- every object gets the number of rows available for all of its scalers
  (objs.filter (·.hasData)).foldr (fun o acc => do
    let rest ← acc
    match o.daq with
    | none => pure rest
    | some m =>
      match m.scalers.map fun sc => lens.getD sc.buffer 0 with
      | [] => throw .other       -- `min()` of an empty sequence
      | l :: ls => pure ((o.path, ls.foldl min l) :: rest)) (pure [])

/-- contiguous truncated data: whole objects while bytes remain, then a partial one, then nothing -/
def contiguousFinalLengths : List SegObj → Nat → List (Bytes × Nat)
  | [], _ => []
  | o :: os, rem =>
    if !o.hasData then contiguousFinalLengths os rem
    else
      let sz := ((o.dataType.bind typeSize).getD 0)
      let dataSize := o.numberValues * sz
      if rem > dataSize then (o.path, o.numberValues) :: contiguousFinalLengths os (rem - dataSize)
      else [(o.path, rem / sz)]

/-- `_compute_final_chunk_lengths` -/
def computeFinalChunkLengths (s : Segment) (chunkSz remainder : Nat) : Except Err (List (Bytes × Nat)) := do
  if ← haveDaqmxObjects s.objects then
    daqmxFinalChunkLengths s.objects remainder
  else
    let d := s.objects.filter (·.hasData)
    if d.any (·.dataType.isNone) then throw .noneType
    if d.any fun o => (o.dataType.bind typeSize).isNone then pure []
    else if hasFlag s.toc kTocInterleavedData || !s.incomplete then
      pure (d.map fun o => (o.path, (o.numberValues * remainder) / chunkSz))
    else
      pure (contiguousFinalLengths s.objects remainder)

/-- `_calculate_chunks` -/
def calculateChunks (s : Segment) : Except Err Segment := do
  let dataSize ← chunkSize s.objects
  if s.nextSegmentPos < s.dataPosition then throw .negativeSize
  let total := s.nextSegmentPos - s.dataPosition
  if dataSize = 0 then
    if total ≠ 0 then throw .zeroSizeButData
    pure { s with numChunks := 0 }
  else
    let rem := total % dataSize
    if rem = 0 then pure { s with numChunks := total / dataSize }
    else
      let ov ← computeFinalChunkLengths s dataSize rem
      pure { s with numChunks := 1 + total / dataSize, override := some ov }

def overrideGet (ov : List (Bytes × Nat)) (p : Bytes) : Nat := ((ov.find? (·.1 = p)).map (·.2)).getD 0

/-- `_number_of_segment_values` -/
def numberOfSegmentValues (o : SegObj) (s : Segment) : Nat :=
  if !o.hasData then 0
  else match s.override with
    | none => o.numberValues * s.numChunks
    | some ov => o.numberValues * (s.numChunks - 1) + overrideGet ov o.path

/-! ## lead-in -/

structure LeadIn where
  toc : Nat
  version : Int
  dataPosition : Nat
  nextSegmentPos : Nat
  incomplete : Bool
deriving Repr, DecidableEq, Inhabited

/-- `_read_lead_in`; `none` is the `EOFError` that ends the loop.
    `dataFileSize = none` when only an index file is available. -/
def readLeadIn (bytes : Bytes) (segmentPosition : Nat) (isIndex : Bool) (dataFileSize : Option Nat) :
    Except Err (Option LeadIn) :=
  if bytes.length < 28 then .ok none
  else
    let tag := bytes.take 4
    if tag ≠ (if isIndex then tagIndex else tagData) then .error .badTag
    else
      let toc := decLE ((bytes.drop 4).take 4)
      let e : Endian := if hasFlag toc kTocBigEndian then .big else .little
      let version := toSigned 4 (dec e ((bytes.drop 8).take 4))
      let nextOff := dec e ((bytes.drop 12).take 8)
      let rawOff := dec e ((bytes.drop 20).take 8)
      let dataPos := segmentPosition + 28 + rawOff
      if nextOff = 2 ^ 64 - 1 then
        match dataFileSize with
        | none => .error .other       -- comparison with None raises TypeError
        | some size =>
          if size < dataPos then .ok none else .ok (some ⟨toc, version, dataPos, size, true⟩)
      else
        let nextPos := segmentPosition + nextOff + 28
        match dataFileSize with
        | some size =>
          if nextPos > size then
            if size < dataPos then .ok none else .ok (some ⟨toc, version, dataPos, size, true⟩)
          else .ok (some ⟨toc, version, dataPos, nextPos, false⟩)
        | none => .ok (some ⟨toc, version, dataPos, nextPos, false⟩)

/-- the version field of a lead-in that was long enough to be unpacked (the tag was already checked) -/
def leadInVersion (bytes : Bytes) : Option Int :=
  if bytes.length < 28 then none
  else
    let toc := decLE ((bytes.drop 4).take 4)
    let e : Endian := if hasFlag toc kTocBigEndian then .big else .little
    some (toSigned 4 (dec e ((bytes.drop 8).take 4)))

/-! ## object metadata (`TdmsReader.object_metadata`) -/

structure ObjMeta where
  path : Bytes
  props : List PropVal := []
  dataType : Option Nat := none
  scalerTypes : Option (List (Nat × Nat)) := none
  numValues : Nat := 0
deriving Repr, DecidableEq, Inhabited

abbrev ObjMetas := List ObjMeta

def ObjMetas.modify (ms : ObjMetas) (p : Bytes) (f : ObjMeta → ObjMeta) : ObjMetas :=
  if ms.any (·.path = p) then ms.map (fun m => if m.path = p then f m else m) else ms ++ [f { path := p }]

def ObjMetas.get (ms : ObjMetas) (p : Bytes) : Option ObjMeta := ms.find? (·.path = p)

def setPropVal (ps : List PropVal) (q : PropVal) : List PropVal :=
  if ps.any (·.name = q.name) then ps.map (fun x => if x.name = q.name then q else x) else ps ++ [q]

/-- `_update_object_metadata` for one segment -/
def updateObjectMetadata (s : Segment) : List SegObj → PrevObjs → ObjMetas → Except Err (PrevObjs × ObjMetas)
  | [], prev, ms => .ok (prev, ms)
  | o :: os, prev, ms =>
    let prev' := prev.set o.path o
    let old := (ms.get o.path).getD { path := o.path }
    if old.dataType.isSome && old.dataType ≠ o.dataType then .error .typeChanged
    else if o.scalerTypes.isSome && old.scalerTypes.isSome && old.scalerTypes ≠ o.scalerTypes then
      .error .scalerTypesChanged
    else
      let ms' := ms.modify o.path fun m =>
        { m with numValues := m.numValues + numberOfSegmentValues o s,
                 dataType := o.dataType,
                 scalerTypes := if o.scalerTypes.isSome then o.scalerTypes else m.scalerTypes }
      updateObjectMetadata s os prev' ms'

/-- `_update_object_properties` -/
def updateObjectProperties (ms : ObjMetas) : List (Bytes × List PropVal) → ObjMetas
  | [] => ms
  | (p, ps) :: rest => updateObjectProperties (ms.modify p fun m => { m with props := ps.foldl setPropVal m.props }) rest

/-! ## `read_metadata` -/

structure ReaderState where
  version : Option Int := none
  versions : List Int := []          -- every version number seen (for the mismatch warning)
  prevObjs : PrevObjs := []
  objects : ObjMetas := []
  segments : List Segment := []
deriving Repr, Inhabited

/-- `read_segment_objects` (metadata present) on the bytes following the lead-in -/
def readSegmentObjects (seg : Segment) (prevSeg : Option Segment) (prevObjs : PrevObjs) (bytes : Bytes) :
    Except Err (Segment × List (Bytes × List PropVal)) := do
  if !hasFlag seg.toc kTocMetaData then
    match prevSeg with
    | none => throw .noPrevSegment
    | some p =>
      let s ← calculateChunks { seg with objects := p.objects }
      pure (s, [])
  else
    let e := seg.endian
    let (ordered, existing) := match prevSeg with
      | some p => if hasFlag seg.toc kTocNewObjList then ([], none) else (p.objects, some p.objects)
      | none => ([], none)
    let ((objs, props), _) ← (do
      let n ← uN e 4
      readObjects e existing prevObjs n ordered []).run bytes
    let s ← calculateChunks { seg with objects := objs }
    pure (s, props)

/-- the `while True` loop of `read_metadata`; `filePos` is the position in the file being parsed
    (index or data), `segPos` the position of the segment in the data file -/
def readMetadataLoop (file : Bytes) (isIndex : Bool) (dataFileSize : Option Nat) :
    Nat → Nat → Nat → ReaderState → Except Err ReaderState
  | 0, _, _, st => .ok st
  | fuel + 1, filePos, segPos, st => do
    match ← readLeadIn (file.drop filePos) segPos isIndex dataFileSize with
    | none =>
      -- `_read_lead_in` records the version before it notices that the metadata is incomplete
      match leadInVersion (file.drop filePos) with
      | some v => pure { st with version := some (st.version.getD v), versions := st.versions ++ [v] }
      | none => pure st
    | some li =>
      let seg : Segment := ⟨segPos, li.toc, li.nextSegmentPos, li.dataPosition, li.incomplete, [], 0, none⟩
      let (seg, props) ← readSegmentObjects seg st.segments.getLast? st.prevObjs (file.drop (filePos + 28))
      let (prev', objs') ← updateObjectMetadata seg seg.objects st.prevObjs st.objects
      let objs'' := updateObjectProperties objs' props
      let st' : ReaderState :=
        { version := some (st.version.getD li.version), versions := st.versions ++ [li.version],
          prevObjs := prev', objects := objs'', segments := st.segments ++ [seg] }
      let nextFilePos := if isIndex then filePos + (seg.dataPosition - seg.position) else seg.nextSegmentPos
      readMetadataLoop file isIndex dataFileSize fuel nextFilePos seg.nextSegmentPos st'

/-- `TdmsReader.read_metadata` on a data file -/
def readMetadata (file : Bytes) : Except Err ReaderState :=
  readMetadataLoop file false (some file.length) (file.length + 1) 0 0 {}

/-- `TdmsReader.read_metadata` when an index file is used; `dataFileSize = none` for index-only -/
def readMetadataIndex (index : Bytes) (dataFileSize : Option Nat) : Except Err ReaderState :=
  readMetadataLoop index true dataFileSize (index.length + 1) 0 0 {}

end Tdms.Model
