import Tdms.Model.Data
import Tdms.Model.Writer

/-!
# Model of `TdmsFile._read_file` (group / channel layout) and `TdmsWriter.defragment`

`defragment` is the composition of the reader model and the writer model: root object, then per group
(in `TdmsFile.groups()` order) the group object and one segment per channel, each channel written
with `channel.read_data(scaled=False)` of a `raw_timestamps=True` read.
-/

namespace Tdms.Model

open Tdms Tdms.Generated

/-- `ObjectPath.from_string` restricted to what `_read_file` distinguishes -/
inductive PathKind
  | root
  | group (g : Bytes)
  | channel (g c : Bytes)
  | invalid
deriving Repr, DecidableEq, Inhabited

def classifyPath (p : Bytes) : PathKind :=
  match Path.pathComponentsBytes p with
  | .ok [] => .root
  | .ok [g] => .group g
  | .ok [g, c] => .channel g c
  | _ => .invalid

structure GroupLayout where
  name : Bytes
  props : List PropVal
  channels : List (Bytes × ObjMeta)       -- channel name, metadata; a repeated name keeps its first position
deriving Repr, Inhabited

def addChannel (chs : List (Bytes × ObjMeta)) (c : Bytes) (m : ObjMeta) : List (Bytes × ObjMeta) :=
  if chs.any (·.1 = c) then chs.map (fun x => if x.1 = c then (c, m) else x) else chs ++ [(c, m)]

/-- `TdmsFile._read_file`: declared groups in order of first appearance, then groups known only
    through their channels; channels of a group in order of first appearance -/
def fileLayout (objects : ObjMetas) : Option (List GroupLayout) :=
  if objects.any fun m => classifyPath m.path = .invalid then none
  else
    let declared := objects.filterMap fun m => match classifyPath m.path with
      | .group g => some (g, m.props)
      | _ => none
    let chans := objects.filterMap fun m => match classifyPath m.path with
      | .channel g c => some (g, c, m)
      | _ => none
    let implied := (chans.map (·.1)).eraseDups.filter fun g => !(declared.any (·.1 = g))
    let names := (declared.map (·.1)).eraseDups ++ implied
    some (names.map fun g =>
      { name := g,
        props := ((declared.filter (·.1 = g)).getLast?.map (·.2)).getD [],
        channels := (chans.filter (·.1 = g)).foldl (fun acc (_, c, m) => addChannel acc c m) [] })

/-! ## property values as the Python objects the reader hands out, re-encoded by the writer -/

/-- IEEE-754 single -> double on bit patterns (what `struct.unpack('<f')` does) -/
def f32ToF64 (b : Nat) : Nat :=
  let sign := b / 2 ^ 31
  let e := (b / 2 ^ 23) % 256
  let m := b % 2 ^ 23
  if e = 255 then
    -- the hardware conversion quiets a signalling NaN (sets the top mantissa bit)
    let m := if m ≠ 0 ∧ m < 2 ^ 22 then m + 2 ^ 22 else m
    sign * 2 ^ 63 + 2047 * 2 ^ 52 + m * 2 ^ 29
  else if e = 0 then
    if m = 0 then sign * 2 ^ 63
    else
      -- subnormal: normalise
      let k := Nat.log2 m                    -- position of the leading one, 0..22
      let e' := 1023 - 126 - (23 - k)
      sign * 2 ^ 63 + e' * 2 ^ 52 + ((m * 2 ^ (23 - k)) % 2 ^ 23) * 2 ^ 29
  else sign * 2 ^ 63 + (e + 1023 - 127) * 2 ^ 52 + m * 2 ^ 29

/-- the Python value a property read with `raw_timestamps=True` becomes -/
def propToPyVal (p : PropVal) : Writer.PyVal :=
  if p.ty = tyString then .str p.val
  else if p.ty = tyTimeStamp then
    let (s, f) := Timestamp.ofBytesLE p.val
    .rawTimestamp s f
  else if p.ty = tyBoolean then .bool (decLE p.val ≠ 0)
  else
    match (typeInfo p.ty).bind (·.structFmt) with
    | some "f" => .float (encLE 8 (f32ToF64 (decLE p.val)))
    | some "d" => .float p.val
    | some fmt =>
      let w := p.val.length
      if fmt = "b" ∨ fmt = "h" ∨ fmt = "l" ∨ fmt = "q" then .int (toSigned w (decLE p.val)) else .int (decLE p.val)
    | none => .int 0

def propsToW (ps : List PropVal) : List Writer.WProp := ps.map fun p => ⟨p.name, propToPyVal p⟩

/-- the TDMS type `ChannelObject.data_type` derives for the array `read_data(scaled=False)` returns -/
def rewrittenType (ty : Nat) : Nat :=
  match typeInfo ty with
  | some ti =>
    match ti.npKind with
    | some k => ((typeTable.find? fun t => t.npKind = some k ∧ t.inNumpyTable).map (·.code)).getD ty
    | none => ty
  | none => ty

/-- `TdmsWriter.defragment(source, destination)`; `none` when a step raises -/
def defragment (file : Bytes) (version : Nat) : Option (Bytes × Bytes) :=
  match readFile file with
  | .error _ => none
  | .ok r =>
    match fileLayout r.state.objects with
    | none => none
    | some groups =>
      let rootProps := ((r.state.objects.get (Path.componentsToPathBytes [])).map (·.props)).getD []
      let segs : List (List Writer.WObj) :=
        [[Writer.WObj.root (propsToW rootProps)]] ++
        groups.flatMap fun g =>
          [[Writer.WObj.group g.name (propsToW g.props)]] ++
          g.channels.map fun (c, m) =>
            let vals := ((r.channels.find? (·.path = m.path)).bind (·.data)).getD []
            let data : Writer.WData := match m.dataType with
              | none => ⟨Writer.tyVoid, []⟩
              | some ty =>
                if (ty = tyString ∨ ty = tyTimeStamp) ∧ vals.isEmpty then ⟨Writer.tyVoid, []⟩
                else ⟨rewrittenType ty, vals⟩
            [Writer.WObj.channel g.name c data (propsToW m.props)]
      Writer.writeSession version {} segs

end Tdms.Model
