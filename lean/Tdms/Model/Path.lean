/-
  Tdms.Model.Path — executable model of the npTDMS object-path grammar
  (nptdms/common.py: `_path_components`, `_components_to_path`, `ObjectPath`).

  Core Lean only (this file is compiled into an executable); no Mathlib.

  Everything is generic over an alphabet `α` with decidable equality and two
  distinguished symbols `q` (the quote, `'`) and `s` (the slash, `/`).
-/

namespace Tdms.Model.Path

/-- The two `ValueError`s of `_path_components`, and the one of `ObjectPath.__init__`. -/
inductive PathErr where
  /-- `ValueError("Invalid path, expected \"/\"")` -/
  | expectedSlash
  /-- `ValueError("Invalid path, expected \"'\"")` -/
  | expectedQuote
  /-- `ValueError("Object path may only have up to two components")` -/
  | tooManyComponents
  deriving DecidableEq, Repr, Inhabited

deriving instance DecidableEq for Except

variable {α : Type} [DecidableEq α]

/-! ### `_components_to_path` -/

/-- `c.replace("'", "''")`: every quote is doubled, everything else is kept. -/
def escape (q : α) : List α → List α
  | [] => []
  | c :: cs => if c = q then q :: q :: escape q cs else c :: escape q cs

/-- `"'" + c.replace("'", "''") + "'"`. -/
def quoted (q : α) (c : List α) : List α :=
  q :: (escape q c ++ [q])

/-- `sep.join(xs)` for a one-symbol separator. -/
def join (s : α) : List (List α) → List α
  | [] => []
  | [x] => x
  | x :: y :: r => x ++ s :: join s (y :: r)

/-- `'/' + '/'.join(["'" + c.replace("'", "''") + "'" for c in components])`.
For `[]` this is `[s]`, the root path `"/"`. -/
def componentsToPath (q s : α) (comps : List (List α)) : List α :=
  s :: join s (comps.map (quoted q))

/-! ### `_path_components`

The Python generator walks `zip_longest(path, path[1:])`, i.e. the pairs
`(path[i], path[i+1])` with `None` as the successor of the last character.  Every
`next(chars)` advances `i` by one; a `next(chars)` past the end raises
`StopIteration`, which the enclosing `try` turns into a silent `return`:
components yielded so far are kept, a component under construction is dropped.

The model recurses structurally on the remaining input (`path[i:]`), so "current
character" is the head and "next character" is the head of the tail.  The
generator has exactly two places where it waits for `next(chars)` at the top of a
loop; those are the two scanner states. -/

/-- Scanner state: which of the two `while True:` loops we are at the top of. -/
inductive St (α : Type) where
  /-- top of the outer loop: the next character must be the slash -/
  | slash
  /-- top of the inner loop; `rev` is `component`, reversed -/
  | comp (rev : List α)

/-- `scan q s st acc input`: run the generator from state `st` on the remaining
`input`, `acc` being the components yielded so far (most recent first). -/
def scan (q s : α) : St α → List (List α) → List α → Except PathErr (List (List α))
  -- `char, next_char = next(chars)` raises StopIteration (either loop): `return`
  | _, acc, [] => .ok acc.reverse
  -- outer loop: `char, next_char = next(chars)`
  | .slash, acc, c :: rest =>
    if c ≠ s then
      -- `if char != '/': raise ValueError(expected "/")`
      .error .expectedSlash
    else
      match rest with
      -- `next_char is None`, so the `else:` branch runs `next(chars)`: StopIteration
      | [] => .ok acc.reverse
      | n :: rest' =>
        if n ≠ q then
          -- `elif next_char is not None and next_char != "'": raise ValueError`
          .error .expectedQuote
        else
          -- `next(chars)` consumes the opening quote; `component = []`
          scan q s (.comp []) acc rest'
  -- inner loop: `char, next_char = next(chars)`
  | .comp rev, acc, c :: rest =>
    if c = q then
      match rest with
      | n :: rest' =>
        if n = q then
          -- `if char == "'" and next_char == "'"`: `component += "'"`, and
          -- `next(chars)` consumes the second quote (it exists, so no StopIteration)
          scan q s (.comp (q :: rev)) acc rest'
        else
          -- `elif char == "'"`: `yield "".join(component); break`
          scan q s .slash (rev.reverse :: acc) (n :: rest')
      -- `next_char is None`: `elif char == "'"`: yield, break; the outer loop's
      -- `next(chars)` then raises StopIteration
      | [] => scan q s .slash (rev.reverse :: acc) []
    else
      -- `else: component += char`
      scan q s (.comp (c :: rev)) acc rest

/-- `list(_path_components(path))`.  A `ValueError` raised after some components
were yielded still aborts the whole `list(...)` call, hence `Except`. -/
def pathComponents (q s : α) (path : List α) : Except PathErr (List (List α)) :=
  scan q s .slash [] path

/-! ### `ObjectPath` -/

/-- `_components_to_path(group, channel)`. -/
def pathOf (q s : α) (group channel : Option (List α)) : List α :=
  componentsToPath q s (group.toList ++ channel.toList)

/-- The invariant of `ObjectPath` objects: `ObjectPath(*components)` sets
`group = components[0]` and `channel = components[1]`, so a channel is never present
without a group.  (The bare function `_components_to_path(None, c)` is callable, but
yields the same string as `_components_to_path(c, None)`.) -/
def IsObjectPath (group channel : Option (List α)) : Prop :=
  group = none → channel = none

/-- `ObjectPath(*components)`: the `(group, channel)` pair, or the `ValueError` for
more than two components. -/
def objectPath : List (List α) → Except PathErr (Option (List α) × Option (List α))
  | [] => .ok (none, none)
  | [g] => .ok (some g, none)
  | [g, c] => .ok (some g, some c)
  | _ :: _ :: _ :: _ => .error .tooManyComponents

/-- `ObjectPath.from_string(s)`, returning `(group, channel)`. -/
def fromString (q s : α) (path : List α) :
    Except PathErr (Option (List α) × Option (List α)) :=
  match pathComponents q s path with
  | .ok comps => objectPath comps
  | .error e => .error e

/-! ### Concrete alphabets -/

/-- Quote and slash as characters. -/
def qChar : Char := '\''
def sChar : Char := '/'

/-- Quote and slash as (ASCII = UTF-8) bytes. -/
def qByte : UInt8 := 0x27
def sByte : UInt8 := 0x2f

/-- `list(_path_components(path))` on strings. -/
def pathComponentsStr (path : String) : Except PathErr (List String) :=
  (pathComponents qChar sChar path.toList).map (·.map String.ofList)

/-- `_components_to_path` generalised to any number of components, on strings. -/
def componentsToPathStr (comps : List String) : String :=
  String.ofList (componentsToPath qChar sChar (comps.map String.toList))

/-- `ObjectPath(group, channel).path` on strings. -/
def pathOfStr (group channel : Option String) : String :=
  String.ofList (pathOf qChar sChar (group.map String.toList) (channel.map String.toList))

/-- `ObjectPath.from_string` on strings. -/
def fromStringStr (path : String) : Except PathErr (Option String × Option String) :=
  (fromString qChar sChar path.toList).map
    fun (g, c) => (g.map String.ofList, c.map String.ofList)

/-- `_path_components` on raw bytes (the on-disk form of a path, before UTF-8 decoding). -/
def pathComponentsBytes (path : List UInt8) : Except PathErr (List (List UInt8)) :=
  pathComponents qByte sByte path

/-- `_components_to_path` on raw bytes. -/
def componentsToPathBytes (comps : List (List UInt8)) : List UInt8 :=
  componentsToPath qByte sByte comps

end Tdms.Model.Path
