/-! HAND-WRITTEN reference constants of the TDMS format, independent of npTDMS's source.

Source: National Instruments, "TDMS File Format Internal Structure" (the `tdsDataType` enumeration, the ToC bit masks
`kTocMetaData = 1<<1 … kTocDAQmxRawData = 1<<7`, the raw-data-index sentinels `0xFFFFFFFF` "no raw data" and
`0x00000000` "same as previous segment", the DAQmx raw-data-index tags `0x00001269` format changing scaler and
`0x0000126A` digital line scaler, the lead-in layout) for everything except the DAQmx scaler type codes, which NI does not
publish: those are the codes observed in LabVIEW-written DAQmx files (the example files under nptdms/test/data and the
byte dumps in nptdms/test/test_daqmx.py use codes 2/3/5), completed by the pinned table of the library.

The spec and the model use the tables re-extracted from the library on every run (`Tdms.Generated`); the theorem
`format_constants_are_reference` (TdmsProofs/Properties/C01Reference.lean) proves that those equal the constants below, so a
changed constant in the library stops the build instead of silently changing spec and model together. -/
namespace Tdms.FormatReference

/-- `tdsDataType`: (code, byte size of a value or none for variable/unsupported, numpy kind of the value) -/
def tdsTypes : List (Nat × String × Option Nat × Option String) := [
  (0x00, "Void", none, none),
  (0x01, "Int8", some 1, some "i1"), (0x02, "Int16", some 2, some "i2"), (0x03, "Int32", some 4, some "i4"), (0x04, "Int64", some 8, some "i8"),
  (0x05, "Uint8", some 1, some "u1"), (0x06, "Uint16", some 2, some "u2"), (0x07, "Uint32", some 4, some "u4"), (0x08, "Uint64", some 8, some "u8"),
  (0x09, "SingleFloat", some 4, some "f4"), (0x0A, "DoubleFloat", some 8, some "f8"), (0x0B, "ExtendedFloat", none, none),
  (0x19, "SingleFloatWithUnit", some 4, some "f4"), (0x1A, "DoubleFloatWithUnit", some 8, some "f8"), (0x1B, "ExtendedFloatWithUnit", none, none),
  (0x20, "String", none, none), (0x21, "Boolean", some 1, some "b1"), (0x44, "TimeStamp", some 16, none),
  (0x08000C, "ComplexSingleFloat", some 8, some "c8"), (0x10000D, "ComplexDoubleFloat", some 16, some "c16"),
  (0xFFFFFFFF, "DaqMxRawData", none, none)]

/-- `struct` format characters of the fixed-width property values (little-endian prefix added at run time) -/
def structFormats : List (Nat × String) :=
  [(1, "b"), (2, "h"), (3, "l"), (4, "q"), (5, "B"), (6, "H"), (7, "L"), (8, "Q"), (9, "f"), (10, "d"), (0x19, "f"), (0x1A, "d"), (0x21, "b")]

def kTocMetaData : Nat := 1 <<< 1
def kTocNewObjList : Nat := 1 <<< 2
def kTocRawData : Nat := 1 <<< 3
def kTocInterleavedData : Nat := 1 <<< 5
def kTocBigEndian : Nat := 1 <<< 6
def kTocDAQmxRawData : Nat := 1 <<< 7

def rawDataIndexNoData : Nat := 0xFFFFFFFF
def rawDataIndexMatchesPrevious : Nat := 0
def formatChangingScaler : Nat := 0x1269
def digitalLineScaler : Nat := 0x126A

/-- DAQmx scaler data type code -> `tdsDataType` code -/
def daqmxTypes : List (Nat × Nat) :=
  [(0, 0x05), (1, 0x01), (2, 0x06), (3, 0x02), (4, 0x07), (5, 0x03), (6, 0x08), (7, 0x04), (8, 0x09), (9, 0x0A), (0xFFFFFFFF, 0x44)]

/-- format-changing scaler record: five unsigned 32-bit fields (type, raw buffer index, byte offset, sample format bitmap,
    scale id); digital line scaler record: type, raw buffer index, bit offset (32 bit each), one byte, scale id -/
def daqmxScalerRecord : Nat × String := (20, "LLLLL")
def digitalLineScalerRecord : Nat × String := (17, "LLLBL")

end Tdms.FormatReference
