import Tdms.Spec.Meaning
import Tdms.Model.Data
import Tdms.Model.Lazy
import Tdms.Model.Timestamp
import Tdms.Model.Path
import Tdms.Model.Writer
import Tdms.Spec.Parse
import Tdms.Model.Defrag
import Tdms.Model.Resource
import Tdms.Model.Thermocouple
import Tdms.Model.Scaling

/-!
# Line protocol of the model executable

One request per line, one JSON response per line.  Everything that is a byte string travels as
hex (`-` for the empty string), so no escaping is needed anywhere.
-/

namespace Tdms.Driver

open Tdms Tdms.Model

/-! ## JSON output -/

def jStr (s : String) : String := "\"" ++ s ++ "\""
def jHex (b : Bytes) : String := jStr (toHex b)
def jArr (xs : List String) : String := "[" ++ ", ".intercalate xs ++ "]"
def jObj (kvs : List (String × String)) : String :=
  "{" ++ ", ".intercalate (kvs.map fun (k, v) => jStr k ++ ": " ++ v) ++ "}"
def jBool (b : Bool) : String := if b then "true" else "false"
def jOpt {α : Type} (f : α → String) : Option α → String
  | none => "null"
  | some a => f a
def jNat (n : Nat) : String := toString n
def jInt (n : Int) : String := toString n

def errName (e : Err) : String := (reprStr e).replace "Tdms.Model.Err." ""
def rejectName (r : Reject) : String := (reprStr r).replace "Tdms.Reject." ""

/-! ## token parser for file encodings -/

abbrev T := StateT (List String) Option

def tok : T String := fun ts => match ts with
  | [] => none
  | t :: rest => some (t, rest)

def tNat : T Nat := do
  let t ← tok
  match t.toNat? with
  | some n => pure n
  | none => failure

def tHex : T Bytes := do
  let t ← tok
  match ofHex t with
  | some b => pure b
  | none => failure

def tBool : T Bool := do
  let n ← tNat
  pure (n ≠ 0)

def tMany {α : Type} (p : T α) : Nat → T (List α)
  | 0 => pure []
  | k + 1 => do
    let x ← p
    let xs ← tMany p k
    pure (x :: xs)

def tCounted {α : Type} (p : T α) : T (List α) := do
  let n ← tNat
  tMany p n

def tProp : T PropEnc := do
  let name ← tHex
  let ty ← tNat
  let val ← tHex
  pure ⟨name, ty, val⟩

def tScaler : T ScalerEnc := do
  let a ← tNat; let b ← tNat; let c ← tNat; let d ← tNat; let e ← tNat
  pure ⟨a, b, c, d, e⟩

def tIdx : T IdxEnc := do
  let k ← tok
  match k with
  | "N" => pure .noData
  | "M" => pure .matchesPrev
  | "F" => do
    let ty ← tNat; let n ← tNat; let total ← tNat
    pure (.full ty n total)
  | "D" => do
    let dg ← tBool; let ty ← tNat; let n ← tNat
    let sc ← tCounted tScaler
    let w ← tCounted tNat
    pure (.daqmx dg ty n sc w)
  | _ => failure

def tObj : T ObjEnc := do
  let path ← tHex
  let idx ← tIdx
  let props ← tCounted tProp
  pure ⟨path, idx, props⟩

def tSeg : T SegEnc := do
  let hasMeta ← tBool; let newList ← tBool; let inter ← tBool; let big ← tBool
  let raw ← tBool; let daq ← tBool; let unk ← tBool
  let version ← tNat
  let padding ← tNat
  let objs ← tCounted tObj
  let chunks ← tCounted (tCounted (tCounted tHex))
  pure ⟨hasMeta, newList, inter, big, raw, daq, version, objs, padding, chunks, unk⟩

def tFile : T FileEnc := tCounted tSeg

/-! ## dumps -/

def jProp (p : PropEnc) : String := jArr [jHex p.name, jNat p.ty, jHex p.val]
def jPropVal (p : PropVal) : String := jArr [jHex p.name, jNat p.ty, jHex p.val]
def jVals (vs : List Bytes) : String := jArr (vs.map jHex)
def jScalers (l : List (Nat × List Bytes)) : String := jArr (l.map fun (id, vs) => jArr [jNat id, jVals vs])

def jContent (c : Content) : String :=
  jArr (c.map fun o => jObj [("path", jHex o.path), ("ty", jOpt jNat o.ty), ("props", jArr (o.props.map jProp)),
    ("values", jVals o.values), ("scalers", jScalers o.scalers)])

def jSegObj (o : SegObj) : String :=
  jArr [jHex o.path, jBool o.hasData, jNat o.numberValues, jNat o.dataSize, jOpt jNat o.dataType, jBool o.daq.isSome]

def jSegment (s : Segment) : String :=
  jObj [("pos", jNat s.position), ("toc", jNat s.toc), ("dataPos", jNat s.dataPosition),
    ("nextPos", jNat s.nextSegmentPos), ("numChunks", jNat s.numChunks), ("incomplete", jBool s.incomplete),
    ("override", jOpt (fun ov => jArr (ov.map fun (p, n) => jArr [jHex p, jNat n])) s.override),
    ("objects", jArr (s.objects.map jSegObj))]

def jObjMeta (m : ObjMeta) : String :=
  jObj [("path", jHex m.path), ("ty", jOpt jNat m.dataType),
    ("scalerTypes", jOpt (fun l => jArr (l.map fun (a, b) => jArr [jNat a, jNat b])) m.scalerTypes),
    ("numValues", jNat m.numValues), ("props", jArr (m.props.map jPropVal))]

def jState (st : ReaderState) : List (String × String) :=
  [("version", jOpt jInt st.version), ("versions", jArr (st.versions.map jInt)),
   ("segments", jArr (st.segments.map jSegment)), ("objects", jArr (st.objects.map jObjMeta))]

def jChannel (c : ChannelData) : String :=
  jObj [("path", jHex c.path), ("data", jOpt jVals c.data), ("scalers", jScalers c.scalers)]

def jErr (e : Err) : String := jObj [("ok", "false"), ("err", jStr (errName e))]

/-! ## commands -/

def cmdEnc (args : List String) : String :=
  match (tFile.run args) with
  | some (e, []) =>
    match encodeFile e, encodeIndex e, denote e with
    | .ok f, .ok ix, .ok c =>
      let ex := match explicit e with
        | .ok e' => match encodeFile e' with
          | .ok b => jHex b
          | .error _ => "null"
        | .error _ => "null"
      jObj [("ok", "true"), ("file", jHex f), ("index", jHex ix), ("wf", jBool (wellFormed e)), ("content", jContent c),
            ("explicit", ex)]
    | .error r, _, _ => jObj [("ok", "false"), ("reject", jStr (rejectName r)), ("file", jHex (encodeForbidden e))]
    | _, .error r, _ => jObj [("ok", "false"), ("reject", jStr (rejectName r))]
    | _, _, .error r => jObj [("ok", "false"), ("reject", jStr (rejectName r))]
  | _ => jObj [("ok", "false"), ("reject", jStr "parse")]

def cmdRead (args : List String) : String :=
  match args with
  | [h] =>
    match ofHex h with
    | none => jObj [("ok", "false"), ("err", jStr "parse")]
    | some f =>
      match readFile f with
      | .ok r => jObj ([("ok", "true")] ++ jState r.state ++ [("channels", jArr (r.channels.map jChannel))])
      | .error e =>
        -- report how far metadata reading got, for diagnosis
        match readMetadata f with
        | .ok st => jObj ([("ok", "false"), ("err", jStr (errName e)), ("stage", jStr "data")] ++ jState st)
        | .error e' => jObj [("ok", "false"), ("err", jStr (errName e')), ("stage", jStr "metadata")]
  | _ => jObj [("ok", "false"), ("err", jStr "parse")]

/-- metadata only, optionally through an index file: `meta <hexdata|-> <hexindex|-> <datasize|->` -/
def cmdMeta (args : List String) : String :=
  match args with
  | [d, ix, sz] =>
    let r : Except Err ReaderState :=
      if ix = "-" then
        match ofHex d with
        | some f => readMetadata f
        | none => .error .other
      else
        match ofHex ix with
        | some i => readMetadataIndex i (if sz = "-" then none else sz.toNat?)
        | none => .error .other
    match r with
    | .ok st => jObj ([("ok", "true")] ++ jState st)
    | .error e => jErr e
  | _ => jObj [("ok", "false"), ("err", jStr "parse")]

/-! ## lazy reads -/

def tOptInt (t : String) : Option (Option Int) :=
  if t = "N" then some none else (t.toInt?).map some

def jReadOut (r : ReadOut) : String := jObj [("data", jOpt jVals r.data), ("scalers", jScalers r.scalers)]
def jChanChunk (c : ChanChunk) : String := jObj [("data", jOpt jVals c.data), ("scalers", jOpt jScalers c.scalers)]
def jRawChunk (c : RawChunk) : String := jArr (c.map fun (p, cc) => jArr [jHex p, jChanChunk cc])
def jTrace (t : List (Nat × Nat)) : String := jArr ((t.filter (·.2 > 0)).map fun (p, n) => jArr [jNat p, jNat n])

def withOpen (h : String) (k : OpenFile → String) : String :=
  match ofHex h with
  | none => jObj [("ok", "false"), ("err", jStr "parse")]
  | some b =>
    match openFile b with
    | .ok f => k f
    | .error e => jErr e

/-- `wins <hex> <path> off:len …` : each window read on a fresh file position, with its I/O trace -/
def cmdWins (args : List String) : String :=
  match args with
  | h :: ph :: ws =>
    withOpen h fun f =>
      match ofHex ph with
      | none => jObj [("ok", "false"), ("err", jStr "parse")]
      | some p =>
        jObj [("ok", "true"), ("results", jArr (ws.map fun w =>
          match w.splitOn ":" with
          | [a, b] =>
            match a.toInt?, tOptInt b with
            | some off, some len =>
              match (channelReadData f p off len).run {} with
              | .ok (some r, st) => jObj [("out", jReadOut r), ("trace", jTrace st.trace)]
              | .ok (none, st) => jObj [("out", "null"), ("trace", jTrace st.trace)]
              | .error e => jObj [("err", jStr (errName e))]
            | _, _ => jObj [("err", jStr "parse")]
          | _ => jObj [("err", jStr "parse")]))]
  | _ => jObj [("ok", "false"), ("err", jStr "parse")]

/-- `slices <hex> <path> a:b:c …` -/
def cmdSlices (args : List String) : String :=
  match args with
  | h :: ph :: ws =>
    withOpen h fun f =>
      match ofHex ph with
      | none => jObj [("ok", "false"), ("err", jStr "parse")]
      | some p =>
        jObj [("ok", "true"), ("results", jArr (ws.map fun w =>
          match w.splitOn ":" with
          | [a, b, c] =>
            match tOptInt a, tOptInt b, tOptInt c with
            | some a, some b, some c =>
              match (channelReadSlice f p a b c).run {} with
              | .ok (vs, st) => jObj [("out", jVals vs), ("trace", jTrace st.trace)]
              | .error e => jObj [("err", jStr (errName e))]
            | _, _, _ => jObj [("err", jStr "parse")]
          | _ => jObj [("err", jStr "parse")]))]
  | _ => jObj [("ok", "false"), ("err", jStr "parse")]

def parseOp (t : String) : Option Op :=
  match t.splitOn "," with
  | ["I", p, i] => do pure (.index (← ofHex p) (← i.toInt?))
  | ["S", p, a, b, c] => do pure (.slice (← ofHex p) (← tOptInt a) (← tOptInt b) (← tOptInt c))
  | ["R", p, o, l] => do pure (.read (← ofHex p) (← o.toInt?) (← tOptInt l))
  | ["C", p] => do pure (.newChanIter (← ofHex p))
  | ["F"] => some .newFileIter
  | ["X", id] => do pure (.next (← id.toNat?))
  | _ => none

def jOut : Out → String
  | .value v => jObj [("k", jStr "value"), ("v", jHex v)]
  | .values vs => jObj [("k", jStr "values"), ("v", jVals vs)]
  | .readOut r => jObj [("k", jStr "read"), ("v", jOpt jReadOut r)]
  | .iterId id => jObj [("k", jStr "iter"), ("v", jNat id)]
  | .chanChunk c off => jObj [("k", jStr "chanchunk"), ("v", jChanChunk c), ("offset", jNat off)]
  | .fileChunk c offs => jObj [("k", jStr "filechunk"), ("v", jRawChunk c),
      ("offsets", jArr (offs.map fun (p, n) => jArr [jHex p, jNat n]))]
  | .stop => jObj [("k", jStr "stop")]
  | .badIter => jObj [("k", jStr "baditer")]
  | .error e => jObj [("k", jStr "error"), ("v", jStr (errName e))]

/-- `ops <hex> op op …` : a history on one open file; every op's output and its own I/O trace -/
def cmdOps (args : List String) : String :=
  match args with
  | h :: ops =>
    withOpen h fun f =>
      match ops.mapM parseOp with
      | none => jObj [("ok", "false"), ("err", jStr "parse")]
      | some ops =>
        let rec go (st : OpenState) : List Op → List String
          | [] => []
          | op :: rest =>
            let st0 := { st with io := { st.io with trace := [] } }
            let (st', out) := step f st0 op
            jObj [("out", jOut out), ("trace", jTrace st'.io.trace)] :: go st' rest
        jObj [("ok", "true"), ("results", jArr (go {} ops))]
  | _ => jObj [("ok", "false"), ("err", jStr "parse")]

/-! ## timestamps (C12) -/

open Tdms.Model.Timestamp in
/-- `tsenc d1 d2 …` : writer model on microseconds since the TDMS epoch -> [seconds, fractions, LE bytes] -/
def cmdTsEnc (args : List String) : String :=
  jArr (args.map fun a =>
    match a.toInt? with
    | some d =>
      let (s, f) := encodeFloor d
      jArr [jInt s, jNat f, jHex (toBytesLE s f)]
    | none => "null")

open Tdms.Model.Timestamp in
/-- `tsdec R s:f s:f …` : scalar and array reader models -> [[scalar, array], …] in units of 1/R s since the epoch -/
def cmdTsDec (args : List String) : String :=
  match args with
  | r :: rest =>
    match r.toNat? with
    | some R =>
      jArr (rest.map fun a =>
        match a.splitOn ":" with
        | [s, f] =>
          match s.toInt?, f.toNat? with
          | some s, some f => jArr [jInt (decode R s f), jInt (decodeArr R s f)]
          | _, _ => "null"
        | _ => "null")
    | none => "null"
  | _ => "null"

/-! ## object paths (C16); code points travel as decimal numbers separated by commas, `-` = empty -/

def parseCodepoints (t : String) : Option (List Nat) :=
  if t = "-" then some [] else (t.splitOn ",").mapM (·.toNat?)

def showCodepoints (l : List Nat) : String := if l.isEmpty then "-" else ",".intercalate (l.map toString)

/-- `pathenc name name …` : `_components_to_path` over an alphabet of code points (quote 39, slash 47) -/
def cmdPathEnc (args : List String) : String :=
  match args.mapM parseCodepoints with
  | some comps => jStr (showCodepoints (Tdms.Model.Path.componentsToPath 39 47 comps))
  | none => jStr "parse"

/-- `pathdec path` : `_path_components` -/
def cmdPathDec (args : List String) : String :=
  match args with
  | [t] =>
    match parseCodepoints t with
    | some p =>
      match Tdms.Model.Path.pathComponents 39 47 p with
      | .ok comps => jObj [("ok", "true"), ("comps", jArr (comps.map fun c => jStr (showCodepoints c)))]
      | .error e => jObj [("ok", "false"), ("err", jStr (reprStr e))]
    | none => jObj [("ok", "false"), ("err", jStr "parse")]
  | _ => jObj [("ok", "false"), ("err", jStr "parse")]

/-! ## writer (C07, C08, C10) -/

open Tdms.Model.Writer in
def tPyVal : T PyVal := do
  let t ← tok
  match t.splitOn ":" with
  | ["i", v] => match v.toInt? with | some i => pure (.int i) | none => failure
  | ["f", h] => match ofHex h with | some b => pure (.float b) | none => failure
  | ["b", v] => pure (.bool (v = "1"))
  | ["s", h] => match ofHex h with | some b => pure (.str b) | none => failure
  | ["d", v] => match v.toInt? with | some i => pure (.datetime i) | none => failure
  | ["t", a, b] => match a.toInt?, b.toNat? with | some x, some y => pure (.rawTimestamp x y) | _, _ => failure
  | ["n", c, h] => match c.toNat?, ofHex h with | some x, some y => pure (.typed x y) | _, _ => failure
  | _ => failure

open Tdms.Model.Writer in
def tWProp : T WProp := do
  let name ← tHex
  let v ← tPyVal
  pure ⟨name, v⟩

/-- numpy kind (e.g. "i4") -> TDMS type code through `numpy_data_types` (generated table) -/
def kindToType (kind : String) : Option Nat :=
  (Tdms.Generated.typeTable.find? fun t => t.npKind = some kind ∧ t.inNumpyTable).map (·.code)

def intKindOfDtype (dt : String) : String :=
  match dt with
  | "int8" => "i1" | "uint8" => "u1" | "int16" => "i2" | "uint16" => "u2"
  | "int32" => "i4" | "uint32" => "u4" | "int64" => "i8" | "uint64" => "u8" | _ => "?"

open Tdms.Model.Writer in
/-- channel data as the writer sees it after `_to_np_array` and `data_type`:
    `K kind n vals…` numpy array; `S n strs…` strings; `D n micros…` datetimes; `L n ints…` list of Python
    ints (dtype inferred by the model); `E` empty array of undeterminable type -/
def tWData : T WData := do
  let k ← tok
  match k with
  | "K" => do
    let kind ← tok
    let vals ← tCounted tHex
    match kindToType kind with
    | some ty => pure ⟨ty, vals⟩
    | none => failure
  | "S" => do
    let vals ← tCounted tHex
    pure ⟨if vals.isEmpty then tyVoid else tyString, vals⟩
  | "D" => do
    let n ← tNat
    let us ← tMany (do let t ← tok; match t.toInt? with | some i => pure i | none => failure) n
    pure ⟨if us.isEmpty then tyVoid else tyTimeStamp, us.map fun u =>
      let (s, f) := Tdms.Model.Timestamp.encodeFloor (u - epochMicros)
      Tdms.Model.Timestamp.toBytesLE s f⟩
  | "L" => do
    let n ← tNat
    let xs ← tMany (do let t ← tok; match t.toInt? with | some i => pure i | none => failure) n
    let kind := intKindOfDtype (inferDtype xs)
    match kindToType kind with
    | some ty =>
      let w := (typeSize ty).getD 1
      pure ⟨ty, xs.map fun x => encLE w (ofSigned w x)⟩
    | none => failure
  | "E" => pure ⟨tyVoid, []⟩
  | _ => failure

open Tdms.Model.Writer in
def tWObj : T WObj := do
  let k ← tok
  match k with
  | "R" => do pure (.root (← tCounted tWProp))
  | "G" => do
    let g ← tHex
    pure (.group g (← tCounted tWProp))
  | "C" => do
    let g ← tHex
    let c ← tHex
    let d ← tWData
    let props ← tCounted tWProp
    pure (.channel g c d props)
  | _ => failure

/-- `write <version> <nsessions> {<nsegments> {<nobjects> {object}}}` -/
def cmdWrite (args : List String) : String :=
  let p : T (Nat × List (List (List Tdms.Model.Writer.WObj))) := do
    let v ← tNat
    let prog ← tCounted (tCounted (tCounted tWObj))
    pure (v, prog)
  match p.run args with
  | some ((v, prog), []) =>
    match Tdms.Model.Writer.writeProgramChecked v prog with
    | some (d, i) => jObj [("ok", "true"), ("data", jHex d), ("index", jHex i)]
    | none => jObj [("ok", "false"), ("err", jStr (if prog.all (Tdms.Model.Writer.sessionTypesOk []) then "duplicate" else "typechange"))]
  | _ => jObj [("ok", "false"), ("err", jStr "parse")]

/-- `strict <hexdata> <hexindex|->` : the strict structural parser on bytes a writer emitted -/
def cmdStrict (args : List String) : String :=
  match args with
  | [d, i] =>
    match ofHex d, (if i = "-" then some none else (ofHex i).map some) with
    | some data, some index =>
      match Tdms.Strict.checkWrittenInForce data index with
      | .ok segs => jObj [("ok", "true"), ("segments", jNat segs.length),
          ("objects", jArr (segs.map fun s => jArr (s.objs.map fun o =>
            jObj [("path", jHex o.path),
                  ("idx", jOpt (fun (x : Nat × Nat × Option Nat) => jArr [jNat x.1, jNat x.2.1, jOpt jNat x.2.2]) o.idx),
                  ("props", jArr (o.props.map fun (n, t, v) => jArr [jHex n, jNat t, jHex v]))])))]
      | .error e => jObj [("ok", "false"), ("issue", jStr ((reprStr e).replace "Tdms.Strict.Issue." ""))]
    | _, _ => jObj [("ok", "false"), ("issue", jStr "parse")]
  | _ => jObj [("ok", "false"), ("issue", jStr "parse")]

/-- `infer i1,i2,…` : `_infer_dtype` on a list of Python ints -/
def cmdInfer (args : List String) : String :=
  match args with
  | [l] =>
    match (l.splitOn ",").mapM (·.toInt?) with
    | some xs => jStr (Tdms.Model.Writer.inferDtype xs)
    | none => jStr "parse"
  | _ => jStr "parse"

/-- `defrag <hex> <version>` -/
def cmdDefrag (args : List String) : String :=
  match args with
  | [h, v] =>
    match ofHex h, v.toNat? with
    | some f, some ver =>
      match Tdms.Model.defragment f ver with
      | some (d, i) => jObj [("ok", "true"), ("data", jHex d), ("index", jHex i)]
      | none => jObj [("ok", "false")]
    | _, _ => jObj [("ok", "false"), ("err", jStr "parse")]
  | _ => jObj [("ok", "false"), ("err", jStr "parse")]

/-- `layout <hex>` : groups and channels as `TdmsFile._read_file` arranges them -/
def cmdLayout (args : List String) : String :=
  match args with
  | [h] =>
    match ofHex h with
    | some f =>
      match readMetadata f with
      | .ok st =>
        match Tdms.Model.fileLayout st.objects with
        | some gs => jObj [("ok", "true"), ("groups", jArr (gs.map fun g => jArr [jHex g.name, jArr (g.channels.map fun c => jHex c.1)]))]
        | none => jObj [("ok", "false"), ("err", jStr "badPath")]
      | .error e => jErr e
    | none => jObj [("ok", "false"), ("err", jStr "parse")]
  | _ => jObj [("ok", "false"), ("err", jStr "parse")]

/-! ## resources (C20) -/

open Tdms.Model.Resource in
def parseSource (t : String) : Option Source :=
  match t with
  | "ds" => some .dataStream | "is" => some .indexStream | "bs" => some .badStream
  | "dp0" => some (.dataPath false) | "dp1" => some (.dataPath true) | "ip" => some .indexPath
  | _ => none

open Tdms.Model.Resource in
def jReader (r : Reader) (extra : List (String × String)) : String :=
  let role (h : Handle) : String := jStr (match h.role with | .data => "data" | .index => "index")
  jObj ([("libOpen", jArr ((libOpen r).map role)),
         ("callerClosed", jBool (r.closedByLib.any (·.owner = .caller))),
         ("closed", jBool (isClosed r))] ++ extra)

open Tdms.Model.Resource in
/-- `res <source> op…` with ops `M` (read_metadata), `C` (close), `R` (a read that needs the file) -/
def cmdRes (args : List String) : String :=
  match args with
  | src :: ops =>
    match parseSource src with
    | none => jObj [("ok", "false"), ("err", jStr "parse")]
    | some source =>
      match init source with
      | none => jObj [("ok", "true"), ("init", "null")]
      | some r0 =>
        let rec go (r : Reader) : List String → List String
          | [] => []
          | op :: rest =>
            match op with
            | "M" => let r' := readMetadata r; jReader r' [] :: go r' rest
            | "C" => let r' := close r; jReader r' [] :: go r' rest
            | "R" =>
              let res := match readNeedsFile r with
                | .data => "data" | .closedError => "closed" | .indexOnlyError => "indexOnly"
              jReader r [("read", jStr res)] :: go r rest
            | _ => ["null"]
        jObj [("ok", "true"), ("init", jReader r0 []), ("steps", jArr (go r0 ops))]
  | _ => jObj [("ok", "false"), ("err", jStr "parse")]

/-- `wres <target>`: s0 s1 p0 p1 -/
def cmdWRes (args : List String) : String :=
  let t : Option Tdms.Model.Resource.WTarget := match args with
    | ["s0"] => some (.stream false) | ["s1"] => some (.stream true)
    | ["p0"] => some (.path false) | ["p1"] => some (.path true) | _ => none
  match t with
  | none => jObj [("ok", "false")]
  | some t =>
    let w := Tdms.Model.Resource.wOpen t
    let c := Tdms.Model.Resource.wClose w
    jObj [("ok", "true"), ("openInside", jNat (Tdms.Model.Resource.wLibOpen w).length),
          ("openAfter", jNat (Tdms.Model.Resource.wLibOpen c).length),
          ("callerClosed", jBool (c.closedByLib.any (·.owner = .caller)))]

/-! ## thermocouples (C18) -/

def parseRatTok (t : String) : Option Rat :=
  match t.splitOn "/" with
  | [n] => n.toInt?.map fun i => (i : Rat)
  | [n, d] => do
    let a ← n.toInt?
    let b ← d.toNat?
    if b = 0 then none else some ((a : Rat) / (b : Rat))
  | _ => none

/-- `tc <type code> <direction> x1 x2 …` : `ThermocoupleScaling.scale` polynomial part, exact rationals.
    Output per point: [polynomial value, exp-term argument or null] as `num/den` strings. -/
def cmdTc (args : List String) : String :=
  match args with
  | code :: dir :: xs =>
    match code.toNat?, dir.toInt? with
    | some code, some dir =>
      match Tdms.Model.Thermocouple.lookupTable code with
      | none => jObj [("ok", "false"), ("err", jStr "unknown-type")]
      | some t =>
        let showR (q : Rat) : String := jStr s!"{q.num}/{q.den}"
        jObj [("ok", "true"), ("results", jArr (xs.map fun x =>
          match parseRatTok x with
          | none => "null"
          | some q =>
            match Tdms.Model.Thermocouple.scaleDirection t dir q with
            | some p =>
              jArr [showR p, match Tdms.Model.Thermocouple.scaleDirectionExp t dir q with
                | some (c, e) => jArr [showR c, showR e]
                | none => "null"]
            | none => "null"))]
    | _, _ => jObj [("ok", "false"), ("err", jStr "parse")]
  | _ => jObj [("ok", "false"), ("err", jStr "parse")]

/-! ## scaling (C13, C14) -/

open Tdms.Model.Scaling in
def tPV : T (String × PV Rat) := do
  let name ← tHex
  let v ← tok
  let nm := (String.fromUTF8? (ByteArray.mk name.toArray)).getD ""
  match v.splitOn ":" with
  | ["n", r] => match parseRatTok r with | some q => pure (nm, .num q) | none => failure
  | ["u", n] => match n.toNat? with | some k => pure (nm, .nat k) | none => failure
  | ["s", h] => match ofHex h with
    | some b => pure (nm, .str ((String.fromUTF8? (ByteArray.mk b.toArray)).getD ""))
    | none => failure
  | _ => failure

def tRat : T Rat := do
  let t ← tok
  match parseRatTok t with
  | some q => pure q
  | none => failure

open Tdms.Model.Scaling in
def scalingName : Scaling Rat → String
  | .linear .. => "linear" | .polynomial .. => "polynomial" | .table .. => "table" | .add .. => "add"
  | .subtract .. => "subtract" | .daqmx .. => "daqmx" | .noop .. => "noop" | .sensor .. => "sensor"

open Tdms.Model.Scaling in
/-- `scale <rawkind|-> <n> data… <nscalers> {id kind n data…} <nchan> props… <ngroup> props… <nfile> props…` -/
def cmdScale (args : List String) : String :=
  let p : T (String × List Rat × List (Nat × String × List Rat) × Props Rat × Props Rat × Props Rat) := do
    let kind ← tok
    let data ← tCounted tRat
    let scalers ← tCounted (do
      let id ← tNat
      let k ← tok
      let d ← tCounted tRat
      pure (id, k, d))
    let c ← tCounted tPV
    let g ← tCounted tPV
    let f ← tCounted tPV
    pure (kind, data, scalers, c, g, f)
  match p.run args with
  | some ((kind, data, scalers, c, g, f), []) =>
    match getScaling c g f with
    | .error e => jObj [("ok", "false"), ("err", jStr (reprStr e))]
    | .ok none => jObj [("ok", "true"), ("scaling", "null")]
    | .ok (some sc) =>
      let n := if kind = "-" then ((scalers.head?.map (·.2.2.length)).getD 0) else data.length
      let raws : List (RawElem Rat) := (List.range n).map fun i =>
        { data := if kind = "-" then none else data[i]?, scalers := scalers.filterMap fun (id, _, d) => d[i]?.map fun v => (id, v) }
      let outs := scaleArray interpRat (fun _ x => x) sc raws
      let fuel := sc.length + 1
      let kinds := scalers.map fun (id, k, _) => (id, k)
      jObj [("ok", "true"), ("scaling", jArr (sc.map fun x => jStr (scalingName x))),
            ("declared", jOpt jStr (declaredKind sc kind kinds fuel (sc.length - 1))),
            ("actual", jOpt jStr (actualKind sc kind kinds fuel (sc.length - 1))),
            ("values", jArr (outs.map fun o => match o with
              | .ok q => jStr s!"{q.num}/{q.den}"
              | .error e => jObj [("err", jStr (reprStr e))]))]
  | _ => jObj [("ok", "false"), ("err", jStr "parse")]

def dispatchBase (cmd : String) (args : List String) : Option String :=
  match cmd with
  | "enc" => some (cmdEnc args)
  | "read" => some (cmdRead args)
  | "meta" => some (cmdMeta args)
  | "wins" => some (cmdWins args)
  | "slices" => some (cmdSlices args)
  | "ops" => some (cmdOps args)
  | "tsenc" => some (cmdTsEnc args)
  | "tsdec" => some (cmdTsDec args)
  | "pathenc" => some (cmdPathEnc args)
  | "pathdec" => some (cmdPathDec args)
  | "write" => some (cmdWrite args)
  | "strict" => some (cmdStrict args)
  | "infer" => some (cmdInfer args)
  | "defrag" => some (cmdDefrag args)
  | "layout" => some (cmdLayout args)
  | "res" => some (cmdRes args)
  | "wres" => some (cmdWRes args)
  | "tc" => some (cmdTc args)
  | "scale" => some (cmdScale args)
  | "ping" => some (jObj [("ok", "true")])
  | _ => none

end Tdms.Driver
