import Tdms.Spec.Format

/-!
# Reference semantics of a TDMS file (spec layer)

`denote` gives the content a `FileEnc` encodes, straight from the format rules and without any
bytes: objects in order of first appearance, the last value written for each property, and for each
channel the file-order concatenation of its values over all chunks of all segments.
`wellFormed` is the decidable predicate the theorems assume.
-/

namespace Tdms

open Generated

structure ObjContent where
  path : Bytes
  ty : Option Nat
  props : List PropEnc
  values : List Bytes
  scalers : List (Nat × List Bytes)      -- DAQmx raw data: scale id ↦ values
deriving Repr, DecidableEq, Inhabited

abbrev Content := List ObjContent

def Content.get (c : Content) (p : Bytes) : Option ObjContent := c.find? (·.path = p)

def Content.modify (c : Content) (p : Bytes) (f : ObjContent → ObjContent) : Content :=
  if c.any (·.path = p) then c.map (fun o => if o.path = p then f o else o)
  else c ++ [f ⟨p, none, [], [], []⟩]

def setProp (ps : List PropEnc) (q : PropEnc) : List PropEnc :=
  if ps.any (·.name = q.name) then ps.map (fun x => if x.name = q.name then q else x) else ps ++ [q]

/-- every active object exists, with the data type its index declares -/
def appendScaler (l : List (Nat × List Bytes)) (id : Nat) (vs : List Bytes) : List (Nat × List Bytes) :=
  if l.any (·.1 = id) then l.map (fun x => if x.1 = id then (x.1, x.2 ++ vs) else x) else l ++ [(id, vs)]

def declareObjs (c : Content) : List ActiveObj → Content
  | [] => c
  | a :: as =>
    declareObjs (c.modify a.path fun o =>
      { o with ty := (a.idx.map (·.ty)).orElse fun _ => o.ty,
               -- a DAQmx raw-data channel has one (possibly empty) value list per declared scaler
               scalers := match a.idx with
                 | some (.daq _ ty _ scalers _) =>
                   if ty = tyDaqmxRaw then scalers.foldl (fun l s => appendScaler l s.scaleId []) o.scalers else o.scalers
                 | _ => o.scalers }) as

def applyProps (c : Content) : List ObjEnc → Content
  | [] => c
  | o :: os => applyProps (c.modify o.path fun x => { x with props := o.props.foldl setProp x.props }) os

/-! DAQmx scalers -/

def daqmxTypeCode (daqType : Nat) : Option Nat := (daqmxTypes.find? (·.1 = daqType)).map (·.2)

def scalerByteOffset (digital : Bool) (s : ScalerEnc) : Nat := if digital then s.offset / 8 else s.offset

/-- canonical value of a scaler in one row of its buffer -/
def scalerValue (e : Endian) (digital : Bool) (s : ScalerEnc) (row : Bytes) : Bytes :=
  let ty := (daqmxTypeCode s.daqType).getD 0
  let sz := (typeSize ty).getD 0
  let raw := (row.drop (scalerByteOffset digital s)).take sz
  if digital then
    encLE sz ((dec e raw / 2 ^ (s.offset % 8)) % 2)
  else
    match e with
    | .little => raw
    | .big => swapAtoms (typeAtoms ty) raw

/-- add the values one chunk holds for one DAQmx object -/
def addDaqmxObj (e : Endian) (bufs : List (List Bytes)) (c : Content) (a : ActiveObj) : Content :=
  match a.idx with
  | some (.daq dg ty _ scalers _) =>
    scalers.foldl (fun c s =>
      let vs := (bufs.getD s.buffer []).map (scalerValue e dg s)
      c.modify a.path fun o =>
        if ty = tyDaqmxRaw then { o with scalers := appendScaler o.scalers s.scaleId vs }
        else { o with values := o.values ++ vs }) c
  | _ => c

def addStdChunk (c : Content) : List ActiveObj → List (List Bytes) → Content
  | a :: as, v :: vs => addStdChunk (c.modify a.path fun o => { o with values := o.values ++ v }) as vs
  | _, _ => c

def addChunk (s : SegEnc) (act : List ActiveObj) (c : Content) (chunk : List (List Bytes)) : Content :=
  let d := dataObjs act
  if d.any isDaqmxObj then d.foldl (addDaqmxObj s.endian chunk) c else addStdChunk c d chunk

def denoteSeg (c : Content) (s : SegEnc) (act : List ActiveObj) : Content :=
  let c := declareObjs c act
  let c := if s.hasMeta then applyProps c s.objs else c
  s.chunks.foldl (addChunk s act) c

def denoteSegs (c : Content) : List SegEnc → List (List ActiveObj) → Content
  | s :: ss, a :: as => denoteSegs (denoteSeg c s a) ss as
  | _, _ => c

def denote (e : FileEnc) : Except Reject Content :=
  match activeLists none [] e with
  | .error r => .error r
  | .ok acts => .ok (denoteSegs [] e acts)

/-! ## well-formedness (decidable) -/

def readablePropType (ty : Nat) : Bool :=
  ty = tyString ∨ ty = tyTimeStamp ∨ ((typeInfo ty).bind (·.structFmt)).isSome

def wfProp (p : PropEnc) : Bool :=
  readablePropType p.ty && (p.ty = tyString || some p.val.length = typeSize p.ty)

def wfIdx : IdxEnc → Bool
  | .noData => true
  | .matchesPrev => true
  | .full ty n _ => (ty = tyString || (typeSize ty).isSome) && n < 2 ^ 64
  | .daqmx dg ty n scalers widths =>
    n < 2 ^ 64 && !scalers.isEmpty && !widths.isEmpty &&
    (ty = tyDaqmxRaw || (scalers.length = 1 && scalers.all fun s => daqmxTypeCode s.daqType = some ty)) &&
    scalers.all fun s =>
      match daqmxTypeCode s.daqType with
      | some t =>
        match typeSize t, widths[s.buffer]? with
        | some sz, some w => scalerByteOffset dg s + sz ≤ w && (!dg || t ≠ tyTimeStamp)
        | _, _ => false
      | none => false

def wfObj (o : ObjEnc) : Bool := wfIdx o.idx && o.props.all wfProp && o.path.length < 2 ^ 32

def noDupPaths : List ObjEnc → Bool
  | [] => true
  | o :: os => !(os.any (·.path = o.path)) && noDupPaths os

/-- shape of one chunk of a standard segment -/
def wfStdChunk : List ActiveObj → List (List Bytes) → Bool
  | [], [] => true
  | a :: as, v :: vs =>
    (match a.idx with
     | some (.std ty n total) =>
       v.length = n &&
       (if ty = tyString then 4 * n + (v.map (·.length)).sum = total
        else v.all fun x => some x.length = typeSize ty)
     | _ => false) && wfStdChunk as vs
  | _, _ => false

def daqWidths (a : ActiveObj) : List Nat :=
  match a.idx with
  | some (.daq _ _ _ _ w) => w
  | _ => []

def daqScalers (a : ActiveObj) : List ScalerEnc :=
  match a.idx with
  | some (.daq _ _ _ s _) => s
  | _ => []

/-- shape of one chunk of a DAQmx segment: one row list per buffer, rows as wide as declared,
    and every object has as many values as each buffer it reads from has rows -/
def wfDaqChunk (d : List ActiveObj) (bufs : List (List Bytes)) : Bool :=
  match d with
  | [] => false
  | a :: _ =>
    let widths := daqWidths a
    d.all (fun o => daqWidths o = widths) &&
    bufs.length = widths.length &&
    (List.range widths.length).all (fun b =>
      (bufs.getD b []).all (fun row => row.length = widths.getD b 0) &&
      ((bufs.getD b []).isEmpty || d.any fun o => (daqScalers o).any (·.buffer = b))) &&
    d.all fun o => (daqScalers o).all fun s => (bufs.getD s.buffer []).length = (o.idx.map (·.n)).getD 0

def chunkBytesNonZero (s : SegEnc) (act : List ActiveObj) : Bool :=
  s.chunks.all fun c => !(encChunk s act c).isEmpty

def wfSeg (s : SegEnc) (act : List ActiveObj) (isLast : Bool) : Bool :=
  let d := dataObjs act
  (s.version = 4712 || s.version = 4713) &&
  (!s.hasMeta → s.objs.isEmpty && !s.newList) &&
  s.objs.all wfObj && noDupPaths s.objs &&
  (s.lengthUnknown → isLast) &&
  (!s.chunks.isEmpty → s.rawFlag) &&
  chunkBytesNonZero s act &&
  (if d.any isDaqmxObj then
     d.all isDaqmxObj && !s.interleaved && s.chunks.all (wfDaqChunk d)
   else
     s.chunks.all (wfStdChunk d) &&
     (s.interleaved →
        (d.all fun a => match a.idx with
                        | some (.std ty _ _) => (typeSize ty).isSome
                        | _ => false) &&
        (match d with
         | [] => true
         | a :: as => as.all fun b => (b.idx.map (·.n)) = (a.idx.map (·.n)))))

def wfSegs : List SegEnc → List (List ActiveObj) → Bool
  | [], [] => true
  | s :: ss, a :: as => wfSeg s a ss.isEmpty && wfSegs ss as
  | _, _ => false

def wellFormed (e : FileEnc) : Bool :=
  match activeLists none [] e with
  | .error _ => false
  | .ok acts => wfSegs e acts

end Tdms

namespace Tdms

/-! ## the fully explicit encoding of the same content (C02) -/

def idxOfDesc : IdxDesc → IdxEnc
  | .std ty n total => .full ty n total
  | .daq dg ty n sc w => .daqmx dg ty n sc w

/-- every segment carries its metadata, starts a new object list and restates every active object
    in full; properties are listed where the original listed them -/
def explicitSeg (s : SegEnc) (act : List ActiveObj) : SegEnc :=
  { s with
    hasMeta := true, newList := true,
    objs := act.map fun a =>
      { path := a.path,
        idx := (match a.hasData, a.idx with
                | true, some d => idxOfDesc d
                | _, _ => .noData),
        props := if s.hasMeta then ((s.objs.filter (·.path = a.path)).flatMap (·.props)) else [] } }

def explicitSegs : List SegEnc → List (List ActiveObj) → List SegEnc
  | s :: ss, a :: as => explicitSeg s a :: explicitSegs ss as
  | _, _ => []

def explicit (e : FileEnc) : Except Reject FileEnc :=
  match activeLists none [] e with
  | .error r => .error r
  | .ok acts => .ok (explicitSegs e acts)

/-! ## bytes of a forbidden encoding: the longest valid prefix in full, then metadata only -/

def validPrefixLen (e : FileEnc) : Nat :=
  ((List.range (e.length + 1)).filter fun k => match activeLists none [] (e.take k) with
    | .ok _ => true
    | .error _ => false).getLast?.getD 0

def encodeSegMetaOnly (s : SegEnc) : Bytes :=
  let m := segMeta s
  encLeadIn tagData s m.length 0 ++ m

def encodeForbidden (e : FileEnc) : Bytes :=
  let k := validPrefixLen e
  match encodeFile (e.take k) with
  | .ok b => b ++ (e.drop k).flatMap encodeSegMetaOnly
  | .error _ => e.flatMap encodeSegMetaOnly

end Tdms
