/-!
# Byte-level integer encodings (spec layer)

`struct.pack/unpack` for unsigned fields, little- and big-endian, as functions on `List UInt8`.
Signed fields are handled as their two's-complement bit patterns (`Nat` below `2^(8w)`), so the
model never needs to interpret a sign except where the Python code does (see `toSigned`).
-/

namespace Tdms

abbrev Bytes := List UInt8

/-- little-endian encoding of `n` in `w` bytes (`n` is reduced modulo `2^(8w)`) -/
def encLE : (w : Nat) → (n : Nat) → Bytes
  | 0, _ => []
  | w + 1, n => UInt8.ofNat (n % 256) :: encLE w (n / 256)

/-- little-endian decoding -/
def decLE : Bytes → Nat
  | [] => 0
  | b :: bs => b.toNat + 256 * decLE bs

def encBE (w n : Nat) : Bytes := (encLE w n).reverse
def decBE (bs : Bytes) : Nat := decLE bs.reverse

/-- byte order of a segment -/
inductive Endian | little | big
deriving DecidableEq, Repr, Inhabited

def enc (e : Endian) (w n : Nat) : Bytes :=
  match e with
  | .little => encLE w n
  | .big => encBE w n

def dec (e : Endian) (bs : Bytes) : Nat :=
  match e with
  | .little => decLE bs
  | .big => decBE bs

/-- two's complement interpretation of a `w`-byte pattern -/
def toSigned (w : Nat) (n : Nat) : Int :=
  if n < 2 ^ (8 * w - 1) then (n : Int) else (n : Int) - (2 ^ (8 * w) : Nat)

/-- bit pattern of a signed value in `w` bytes -/
def ofSigned (w : Nat) (i : Int) : Nat := (i % ((2 ^ (8 * w) : Nat) : Int)).toNat

/-! hex helpers used by the driver (not part of any theorem) -/

def hexDigit (n : Nat) : Char :=
  if n < 10 then Char.ofNat (48 + n) else Char.ofNat (87 + n)

def toHex (bs : Bytes) : String :=
  String.ofList (bs.flatMap fun b => [hexDigit (b.toNat / 16), hexDigit (b.toNat % 16)])

def hexVal (c : Char) : Option Nat :=
  if '0' ≤ c ∧ c ≤ '9' then some (c.toNat - 48)
  else if 'a' ≤ c ∧ c ≤ 'f' then some (c.toNat - 87)
  else if 'A' ≤ c ∧ c ≤ 'F' then some (c.toNat - 55)
  else none

def ofHexChars : List Char → Option Bytes
  | [] => some []
  | [_] => none
  | a :: b :: rest => do
    let x ← hexVal a
    let y ← hexVal b
    let r ← ofHexChars rest
    pure (UInt8.ofNat (16 * x + y) :: r)

/-- `"-"` denotes the empty byte string so that every token is non-empty -/
def ofHex (s : String) : Option Bytes :=
  if s = "-" then some [] else ofHexChars s.toList

def toHexTok (bs : Bytes) : String := if bs.isEmpty then "-" else toHex bs

end Tdms
