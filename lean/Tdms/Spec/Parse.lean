import Tdms.Spec.Format
import Tdms.Model.Path

/-!
# A strict structural parser for TDMS segments (spec layer)

Written from the format description, *not* from npTDMS's reader: it is strict about every field the
library's own reader ignores (the raw-data-index length field, the dimension, the exact extent of
the metadata block, the string offset tables).  Used as the oracle of C08 on the bytes the real
`TdmsWriter` emits.
-/

namespace Tdms.Strict

open Tdms Tdms.Generated

inductive Issue
  | truncated | badTag | metaOverrun | metaUnderrun | badIndexLength | badDimension | badType
  | badPropType | dataLength | stringOffsets | noRootFirst | groupAfterChannel | badPath | indexDiffers
  | trailing
deriving Repr, DecidableEq, Inhabited

abbrev SP := StateT Bytes (Except Issue)

def take (n : Nat) : SP Bytes := fun bs =>
  if bs.length < n then .error .truncated else .ok (bs.take n, bs.drop n)

def u (e : Endian) (w : Nat) : SP Nat := do
  let b ← take w
  pure (dec e b)

def str (e : Endian) : SP Bytes := do
  let n ← u e 4
  take n

structure PObj where
  path : Bytes
  idx : Option (Nat × Nat × Option Nat)     -- type, number of values, total size (strings)
  props : List (Bytes × Nat × Bytes)
deriving Repr, DecidableEq, Inhabited

def pProp (e : Endian) : SP (Bytes × Nat × Bytes) := do
  let name ← str e
  let ty ← u e 4
  if ty = tyString then
    let v ← str e
    pure (name, ty, v)
  else
    match typeSize ty with
    | some sz =>
      if ty = tyTimeStamp ∨ ((typeInfo ty).bind (·.structFmt)).isSome then
        let v ← take sz
        pure (name, ty, v)
      else throw .badPropType
    | none => throw .badPropType

def pProps (e : Endian) : Nat → SP (List (Bytes × Nat × Bytes))
  | 0 => pure []
  | k + 1 => do
    let p ← pProp e
    let rest ← pProps e k
    pure (p :: rest)

def pObj (e : Endian) : SP PObj := do
  let path ← str e
  let len ← u e 4
  let idx ← if len = rawDataIndexNoData then pure none else do
    -- the length field counts itself: 4 + 4 + 4 + 8 (+ 8 for strings)
    let ty ← u e 4
    let dim ← u e 4
    let n ← u e 8
    if dim ≠ 1 then throw .badDimension
    if ty = tyString then
      if len ≠ 28 then throw .badIndexLength
      let total ← u e 8
      pure (some (ty, n, some total))
    else
      match typeSize ty with
      | none => throw .badType
      | some _ =>
        if len ≠ 20 then throw .badIndexLength
        pure (some (ty, n, none))
  let np ← u e 4
  let props ← pProps e np
  pure ⟨path, idx, props⟩

def pObjs (e : Endian) : Nat → SP (List PObj)
  | 0 => pure []
  | k + 1 => do
    let o ← pObj e
    let rest ← pObjs e k
    pure (o :: rest)

structure PSeg where
  isIndex : Bool
  toc : Nat
  version : Nat
  nextOff : Nat
  rawOff : Nat
  objs : List PObj
  leadAndMeta : Bytes     -- the 28 + rawOff bytes of lead-in and metadata
deriving Repr, DecidableEq, Inhabited

def expectedDataLength (objs : List PObj) : Nat :=
  (objs.map fun o => match o.idx with
    | some (ty, _, some total) => if ty = tyString then total else 0
    | some (ty, n, none) => n * (typeSize ty).getD 0
    | none => 0).sum

/-- string offset tables: non-decreasing, last = total − 4n -/
def checkStringData (e : Endian) : List PObj → Bytes → Bool
  | [], _ => true
  | o :: os, data =>
    match o.idx with
    | some (ty, n, some total) =>
      if ty = tyString then
        let offs := (List.range n).map fun i => dec e ((data.drop (4 * i)).take 4)
        let ok := total ≥ 4 * n ∧ (offs.getLast?.getD 0) = total - 4 * n ∧
          (List.range (n - 1)).all fun i => offs.getD i 0 ≤ offs.getD (i + 1) 0
        ok && checkStringData e os (data.drop total)
      else checkStringData e os data
    | some (ty, n, none) => checkStringData e os (data.drop (n * (typeSize ty).getD 0))
    | none => checkStringData e os data

/-- one segment of a data file (`withData`) or of an index file -/
def pSegment (withData : Bool) : SP PSeg := fun bytes => do
  let (lead, _) ← (take 28).run bytes
  let tag := lead.take 4
  let isIndex := tag = tagIndex
  if tag ≠ tagData ∧ tag ≠ tagIndex then throw .badTag
  let toc := decLE ((lead.drop 4).take 4)
  let e : Endian := if (toc / kTocBigEndian) % 2 = 1 then .big else .little
  let version := dec e ((lead.drop 8).take 4)
  let nextOff := dec e ((lead.drop 12).take 8)
  let rawOff := dec e ((lead.drop 20).take 8)
  let after := bytes.drop 28
  if after.length < rawOff then throw .truncated
  let metaBytes := after.take rawOff
  let (objs, rest) ← (do
    let n ← u e 4
    pObjs e n).run metaBytes
  if !rest.isEmpty then throw .metaUnderrun
  if nextOff < rawOff then throw .dataLength
  if nextOff - rawOff ≠ expectedDataLength objs then throw .dataLength
  let seg : PSeg := ⟨isIndex, toc, version, nextOff, rawOff, objs, bytes.take (28 + rawOff)⟩
  if withData then
    let data := (after.drop rawOff).take (nextOff - rawOff)
    if data.length < nextOff - rawOff then throw .truncated
    if !checkStringData e objs data then throw .stringOffsets
    pure (seg, after.drop nextOff)
  else pure (seg, after.drop rawOff)

def pFile (withData : Bool) : Nat → Bytes → Except Issue (List PSeg)
  | 0, bs => if bs.isEmpty then .ok [] else .error .trailing
  | fuel + 1, bs =>
    if bs.isEmpty then .ok []
    else do
      let (s, rest) ← pSegment withData bs
      let more ← pFile withData fuel rest
      pure (s :: more)

/-- the first segment declares the root; every channel's group is declared in the same or an earlier
    segment, and before the channel -/
def parentsFirst (segs : List PSeg) : Except Issue Unit := do
  let paths := segs.flatMap fun s => s.objs.map (·.path)
  match segs.head? with
  | some s => if !(s.objs.any fun o => o.path = Tdms.Model.Path.componentsToPathBytes []) then throw .noRootFirst
  | none => pure ()
  let rec go : List Bytes → List Bytes → Except Issue Unit
    | [], _ => pure ()
    | p :: ps, seenGroups =>
      match Tdms.Model.Path.pathComponentsBytes p with
      | .error _ => throw .badPath
      | .ok [] => go ps seenGroups
      | .ok [g] => go ps (g :: seenGroups)
      | .ok (g :: _ :: _) => if seenGroups.contains g then go ps seenGroups else throw .groupAfterChannel
  go paths []

/-- a data file and its index file: the index is the data file with the raw data removed and the tag replaced -/
def indexIsTwin (data index : Bytes) : Except Issue Unit := do
  let segs ← pFile true (data.length + 1) data
  let expected := segs.flatMap fun s => tagIndex ++ s.leadAndMeta.drop 4
  if expected ≠ index then throw .indexDiffers

/-- everything C08 asks of the bytes a writer emitted -/
def checkWritten (data : Bytes) (index : Option Bytes) : Except Issue (List PSeg) := do
  let segs ← pFile true (data.length + 1) data
  parentsFirst segs
  match index with
  | some ix => indexIsTwin data ix
  | none => pure ()
  pure segs

/-! ## Objects in force

`pSegment` measures a segment's raw data against the objects the segment itself lists, which is the whole truth only when the
segment starts a new object list (`kTocNewObjList`, what `TdmsWriter` always sets).  A segment WITHOUT that flag inherits the
previous segment's objects: those it lists replace or extend them, the others stay in force with their last raw data index.  The
raw data length must then be that of the objects in force. -/

/-- the previous objects with the listed ones replaced (by path), followed by the listed objects that are new -/
def mergeObjs (prev cur : List PObj) : List PObj :=
  (prev.map fun o => (cur.find? (fun c => c.path == o.path)).getD o) ++ cur.filter fun c => !(prev.any fun o => o.path == c.path)

def startsNewList (s : PSeg) : Bool := (s.toc / kTocNewObjList) % 2 == 1

/-- every segment's raw data length is the one its objects IN FORCE imply -/
def inForceOk : List PObj → List PSeg → Bool
  | _, [] => true
  | prev, s :: rest =>
    let objs := if startsNewList s then s.objs else mergeObjs prev s.objs
    (s.nextOff - s.rawOff == expectedDataLength objs) && inForceOk objs rest

/-- `checkWritten` plus the objects-in-force condition -/
def checkWrittenInForce (data : Bytes) (index : Option Bytes) : Except Issue (List PSeg) := do
  let segs ← checkWritten data index
  if inForceOk [] segs then pure segs else throw .dataLength

end Tdms.Strict
