import Tdms.Spec.Bytes
import Tdms.Generated.Types

/-!
# The TDMS format, written as an encoder (spec layer)

This file is *our reading of NI's published TDMS layout*; it does not mirror any npTDMS code.
`encodeFile` maps an explicit description of a file (`FileEnc`) to bytes. Raw data are given
semantically (per chunk, per data object, a list of values in canonical little-endian form), so the
meaning of a file (`Spec/Meaning.lean`) can be stated without decoding anything.
-/

namespace Tdms

open Generated

/-- size in bytes of a fixed-width TDMS type, from the table extracted from `nptdms/types.py` -/
def typeInfo (code : Nat) : Option TypeInfo := typeTable.find? (·.code = code)
def typeSize (code : Nat) : Option Nat := (typeInfo code).bind (·.size)

def tyString : Nat := 0x20
def tyTimeStamp : Nat := 0x44
def tyBoolean : Nat := 0x21
def tyDaqmxRaw : Nat := 0xFFFFFFFF

/-- widths of the separately byte-swapped components of a value (complex numbers have two) -/
def typeAtoms (code : Nat) : List Nat :=
  match typeInfo code with
  | some ti =>
    match ti.size with
    | some s => if ti.npKind = some "c8" ∨ ti.npKind = some "c16" then [s / 2, s / 2] else [s]
    | none => []
  | none => []

/-- reverse each atom of a canonical (little-endian) value -/
def swapAtoms : List Nat → Bytes → Bytes
  | [], _ => []
  | w :: ws, bs => (bs.take w).reverse ++ swapAtoms ws (bs.drop w)

/-- value bytes as stored in a segment of the given byte order -/
def storeValue (e : Endian) (ty : Nat) (v : Bytes) : Bytes :=
  match e with
  | .little => v
  | .big => swapAtoms (typeAtoms ty) v

structure PropEnc where
  name : Bytes
  ty : Nat
  val : Bytes   -- canonical little-endian value bytes; for strings the UTF-8 bytes
deriving Repr, DecidableEq, Inhabited

structure ScalerEnc where
  daqType : Nat
  buffer : Nat
  offset : Nat     -- byte offset (format changing scaler) or bit offset (digital line scaler)
  bitmap : Nat
  scaleId : Nat
deriving Repr, DecidableEq, Inhabited

inductive IdxEnc
  | noData
  | matchesPrev
  | full (ty n totalSize : Nat)      -- `totalSize` is only written for strings
  | daqmx (digital : Bool) (ty n : Nat) (scalers : List ScalerEnc) (widths : List Nat)
deriving Repr, DecidableEq, Inhabited

structure ObjEnc where
  path : Bytes
  idx : IdxEnc
  props : List PropEnc
deriving Repr, DecidableEq, Inhabited

structure SegEnc where
  hasMeta : Bool
  newList : Bool
  interleaved : Bool
  big : Bool
  rawFlag : Bool
  daqmxFlag : Bool
  version : Nat
  objs : List ObjEnc
  padding : Nat                       -- unused bytes between metadata and raw data
  chunks : List (List (List Bytes))   -- chunk → active data object (or DAQmx buffer) → values (rows)
  lengthUnknown : Bool                -- lead-in carries 0xFFFF_FFFF_FFFF_FFFF as next segment offset
deriving Repr, DecidableEq, Inhabited

abbrev FileEnc := List SegEnc

def SegEnc.endian (s : SegEnc) : Endian := if s.big then .big else .little

/-! ## metadata -/

def encString (e : Endian) (s : Bytes) : Bytes := enc e 4 s.length ++ s

def encPropValue (e : Endian) (p : PropEnc) : Bytes :=
  if p.ty = tyString then encString e p.val else storeValue e p.ty p.val

def encProp (e : Endian) (p : PropEnc) : Bytes :=
  encString e p.name ++ enc e 4 p.ty ++ encPropValue e p

def encScaler (e : Endian) (digital : Bool) (s : ScalerEnc) : Bytes :=
  enc e 4 s.daqType ++ enc e 4 s.buffer ++ enc e 4 s.offset ++
    (if digital then enc e 1 s.bitmap else enc e 4 s.bitmap) ++ enc e 4 s.scaleId

def encIdx (e : Endian) : IdxEnc → Bytes
  | .noData => enc e 4 rawDataIndexNoData
  | .matchesPrev => enc e 4 rawDataIndexMatchesPrevious
  | .full ty n total =>
    if ty = tyString then enc e 4 28 ++ enc e 4 ty ++ enc e 4 1 ++ enc e 8 n ++ enc e 8 total
    else enc e 4 20 ++ enc e 4 ty ++ enc e 4 1 ++ enc e 8 n
  | .daqmx digital ty n scalers widths =>
    enc e 4 (if digital then digitalLineScaler else formatChangingScaler) ++ enc e 4 ty ++ enc e 4 1 ++
      enc e 8 n ++ enc e 4 scalers.length ++ (scalers.flatMap (encScaler e digital)) ++
      enc e 4 widths.length ++ (widths.flatMap (enc e 4))

def encObj (e : Endian) (o : ObjEnc) : Bytes :=
  encString e o.path ++ encIdx e o.idx ++ enc e 4 o.props.length ++ o.props.flatMap (encProp e)

def encMeta (e : Endian) (objs : List ObjEnc) : Bytes :=
  enc e 4 objs.length ++ objs.flatMap (encObj e)

/-! ## active object lists (needed to lay out raw data) -/

/-- the raw-data description an object currently carries -/
inductive IdxDesc
  | std (ty n total : Nat)
  | daq (digital : Bool) (ty n : Nat) (scalers : List ScalerEnc) (widths : List Nat)
deriving Repr, DecidableEq, Inhabited

structure ActiveObj where
  path : Bytes
  hasData : Bool
  idx : Option IdxDesc
deriving Repr, DecidableEq, Inhabited

def IdxDesc.n : IdxDesc → Nat
  | .std _ n _ => n
  | .daq _ _ n _ _ => n

def IdxDesc.ty : IdxDesc → Nat
  | .std ty _ _ => ty
  | .daq _ ty _ _ _ => ty

inductive Reject
  | firstSegmentWithoutMetadata
  | reuseOfUndefinedIndex
  | typeChanged
  | duplicatePath
  | malformed
deriving Repr, DecidableEq, Inhabited

abbrev LastIdx := List (Bytes × IdxDesc)

def LastIdx.get (m : LastIdx) (p : Bytes) : Option IdxDesc := (m.find? (·.1 = p)).map (·.2)
def LastIdx.set (m : LastIdx) (p : Bytes) (d : IdxDesc) : LastIdx := (p, d) :: m.filter (·.1 ≠ p)

/-- place an object in the active list: in place if its path is there already, else at the end -/
def placeObj (act : List ActiveObj) (o : ActiveObj) : List ActiveObj :=
  if act.any (·.path = o.path) then act.map (fun a => if a.path = o.path then o else a) else act ++ [o]

/-- resolve one listed object against the most recent index of its path -/
def resolveObj (last : LastIdx) (o : ObjEnc) : Except Reject (ActiveObj × LastIdx) :=
  match o.idx with
  | .noData => .ok (⟨o.path, false, last.get o.path⟩, last)
  | .matchesPrev =>
    match last.get o.path with
    | some d => .ok (⟨o.path, true, some d⟩, last)
    | none => .error .reuseOfUndefinedIndex
  | .full ty n total =>
    match last.get o.path with
    | some d => if d.ty ≠ ty then .error .typeChanged else .ok (⟨o.path, true, some (.std ty n total)⟩, last.set o.path (.std ty n total))
    | none => .ok (⟨o.path, true, some (.std ty n total)⟩, last.set o.path (.std ty n total))
  | .daqmx dg ty n sc w =>
    match last.get o.path with
    | some d => if d.ty ≠ ty then .error .typeChanged else .ok (⟨o.path, true, some (.daq dg ty n sc w)⟩, last.set o.path (.daq dg ty n sc w))
    | none => .ok (⟨o.path, true, some (.daq dg ty n sc w)⟩, last.set o.path (.daq dg ty n sc w))

def resolveObjs (last : LastIdx) (act : List ActiveObj) : List ObjEnc → Except Reject (List ActiveObj × LastIdx)
  | [] => .ok (act, last)
  | o :: os =>
    match resolveObj last o with
    | .error r => .error r
    | .ok (a, last') => resolveObjs last' (placeObj act a) os

/-- the active object list of a segment given the previous one -/
def activeOfSeg (prev : Option (List ActiveObj)) (last : LastIdx) (s : SegEnc) :
    Except Reject (List ActiveObj × LastIdx) :=
  if !s.hasMeta then
    match prev with
    | none => .error .firstSegmentWithoutMetadata
    | some a => .ok (a, last)
  else
    let base := if s.newList then [] else prev.getD []
    resolveObjs last base s.objs

/-- active lists of every segment -/
def activeLists : Option (List ActiveObj) → LastIdx → List SegEnc → Except Reject (List (List ActiveObj))
  | _, _, [] => .ok []
  | prev, last, s :: ss =>
    match activeOfSeg prev last s with
    | .error r => .error r
    | .ok (a, last') =>
      match activeLists (some a) last' ss with
      | .error r => .error r
      | .ok as => .ok (a :: as)

def dataObjs (act : List ActiveObj) : List ActiveObj := act.filter (·.hasData)

def isDaqmxObj (a : ActiveObj) : Bool :=
  match a.idx with
  | some (.daq ..) => true
  | _ => false

/-! ## raw data -/

def cumOffsets (acc : Nat) : List Bytes → List Nat
  | [] => []
  | v :: vs => (acc + v.length) :: cumOffsets (acc + v.length) vs

/-- the values of one object in one chunk, contiguous layout -/
def encObjValues (e : Endian) (ty : Nat) (vals : List Bytes) : Bytes :=
  if ty = tyString then (cumOffsets 0 vals).flatMap (enc e 4) ++ vals.flatten
  else vals.flatMap (storeValue e ty)

def encChunkContiguous (e : Endian) : List ActiveObj → List (List Bytes) → Bytes
  | a :: as, v :: vs => encObjValues e ((a.idx.map (·.ty)).getD 0) v ++ encChunkContiguous e as vs
  | _, _ => []

/-- row `j` of an interleaved chunk -/
def encRow (e : Endian) (j : Nat) : List ActiveObj → List (List Bytes) → Bytes
  | a :: as, v :: vs => storeValue e ((a.idx.map (·.ty)).getD 0) (v.getD j []) ++ encRow e j as vs
  | _, _ => []

def encChunkInterleaved (e : Endian) (objs : List ActiveObj) (vals : List (List Bytes)) : Bytes :=
  let rows := (vals.head?.map (·.length)).getD 0
  (List.range rows).flatMap fun j => encRow e j objs vals

/-- DAQmx: a chunk is the concatenation of its buffers, each a list of rows of raw bytes -/
def encChunkDaqmx (bufs : List (List Bytes)) : Bytes := (bufs.map (·.flatten)).flatten

def encChunk (s : SegEnc) (act : List ActiveObj) (c : List (List Bytes)) : Bytes :=
  let d := dataObjs act
  if d.any isDaqmxObj then encChunkDaqmx c
  else if s.interleaved then encChunkInterleaved s.endian d c
  else encChunkContiguous s.endian d c

def encRaw (s : SegEnc) (act : List ActiveObj) : Bytes := s.chunks.flatMap (encChunk s act)

/-! ## lead-in and segments -/

def tocMask (s : SegEnc) : Nat :=
  (if s.hasMeta then kTocMetaData else 0) + (if s.newList then kTocNewObjList else 0) +
  (if s.rawFlag then kTocRawData else 0) + (if s.interleaved then kTocInterleavedData else 0) +
  (if s.big then kTocBigEndian else 0) + (if s.daqmxFlag then kTocDAQmxRawData else 0)

def encLeadIn (tag : Bytes) (s : SegEnc) (metaLen rawLen : Nat) : Bytes :=
  tag ++ encLE 4 (tocMask s) ++ enc s.endian 4 s.version ++
    enc s.endian 8 (if s.lengthUnknown then 2 ^ 64 - 1 else metaLen + rawLen) ++ enc s.endian 8 metaLen

def tagData : Bytes := [0x54, 0x44, 0x53, 0x6d]   -- "TDSm"
def tagIndex : Bytes := [0x54, 0x44, 0x53, 0x68]  -- "TDSh"

def segMeta (s : SegEnc) : Bytes :=
  (if s.hasMeta then encMeta s.endian s.objs else []) ++ List.replicate s.padding 0

def encodeSeg (s : SegEnc) (act : List ActiveObj) : Bytes :=
  let m := segMeta s
  let r := encRaw s act
  encLeadIn tagData s m.length r.length ++ m ++ r

/-- the `.tdms_index` twin of a segment: the same lead-in and metadata, tag `TDSh`, no raw data -/
def encodeSegIndex (s : SegEnc) (act : List ActiveObj) : Bytes :=
  let m := segMeta s
  let r := encRaw s act
  encLeadIn tagIndex s m.length r.length ++ m

def zipEncode (f : SegEnc → List ActiveObj → Bytes) : List SegEnc → List (List ActiveObj) → Bytes
  | s :: ss, a :: as => f s a ++ zipEncode f ss as
  | _, _ => []

def encodeFile (e : FileEnc) : Except Reject Bytes :=
  match activeLists none [] e with
  | .error r => .error r
  | .ok acts => .ok (zipEncode encodeSeg e acts)

def encodeIndex (e : FileEnc) : Except Reject Bytes :=
  match activeLists none [] e with
  | .error r => .error r
  | .ok acts => .ok (zipEncode encodeSegIndex e acts)

end Tdms
