/-!
# Hand-written helpers used by the GENERATED file `Tdms/Generated/Code.lean`

`harness/pyast2lean.py` translates selected Python functions of npTDMS into Lean definitions
(shallow embedding).  Everything the generated definitions call that is *not* itself generated from
the Python source lives here: the semantics of the Python operations of the supported subset.
This file is part of the trusted base of the translation (together with the signature tables of the
translator); lemmas about it are in `TdmsProofs/Lemmas/TiedPrelude.lean`.  Core Lean only.

Conventions
* Python `int` is `Int` (unbounded in both); `bool` is `Bool`; `None`-able values are `Option`;
  `list`/`tuple`-as-sequence/numpy index arrays are `List`; a `dict` is an insertion-ordered
  association list without repeated keys (`Dict`), exactly Python's iteration order;
  a Python exception is `Except.error "<ExceptionClassName>"`.
* An operation that can raise in Python returns `Except Exc _` and is sequenced with `←` in the
  generated code, in Python's evaluation order.
-/

namespace Tdms.Generated.Py

/-- a Python exception, identified by the name of its class -/
abbrev Exc := String

/-- object paths (dict keys): the bytes of the path string -/
abbrev Path := List UInt8

/-! ## integers -/

/-- `a // b` (floor division; `ZeroDivisionError`) -/
def floordiv (a b : Int) : Except Exc Int :=
  if b = 0 then .error "ZeroDivisionError" else .ok (Int.fdiv a b)

/-- `a % b` (sign of the divisor; `ZeroDivisionError`) -/
def mod (a b : Int) : Except Exc Int :=
  if b = 0 then .error "ZeroDivisionError" else .ok (Int.fmod a b)

/-- `a << n` for a literal `n ≥ 0` -/
def shl (a : Int) (n : Nat) : Int := a * 2 ^ n

/-- `a >> n` for a literal `n ≥ 0` (floor) -/
def shr (a : Int) (n : Nat) : Int := Int.fdiv a (2 ^ n)

/-- `a & b`: `Nat.land` on non-negative ints; a negative operand `-(n+1)` is the infinite two's
    complement `~n` (`m & ~n = m - (m & n)`, `~m & ~n = ~(m | n)`) -/
def band : Int → Int → Int
  | .ofNat m, .ofNat n => ((m &&& n : Nat) : Int)
  | .ofNat m, .negSucc n => ((m - (m &&& n) : Nat) : Int)
  | .negSucc m, .ofNat n => ((n - (m &&& n) : Nat) : Int)
  | .negSucc m, .negSucc n => .negSucc (m ||| n)

/-- `len(xs)` -/
def len {α : Type} (xs : List α) : Int := (xs.length : Int)

/-- `np.uint64(i)` for an in-range Python int (numpy raises OverflowError otherwise; not modelled) -/
def u64 (i : Int) : UInt64 := UInt64.ofNat (i % 18446744073709551616).toNat

/-! ## exceptions -/

/-- `try: m except cls: h` — only the exact class `cls` is caught -/
def tryCatch {α : Type} (m : Except Exc α) (cls : Exc) (h : Except Exc α) : Except Exc α :=
  match m with
  | .ok v => .ok v
  | .error e => if e = cls then h else .error e

/-! ## `None` -/

/-- attribute read / method call on a value that may be `None`: `AttributeError` -/
def attr {α : Type} (o : Option α) : Except Exc α :=
  match o with
  | some v => .ok v
  | none => .error "AttributeError"

/-- a value that may be `None` used where the callee needs a sequence / number: `TypeError` -/
def notNone {α : Type} (o : Option α) : Except Exc α :=
  match o with
  | some v => .ok v
  | none => .error "TypeError"

/-! ## sequences -/

/-- `xs[i]` with Python's negative indices; `IndexError` -/
def index {α : Type} (xs : List α) (i : Int) : Except Exc α :=
  let j : Int := if i < 0 then i + xs.length else i
  if j < 0 then .error "IndexError"
  else match xs[j.toNat]? with
    | some v => .ok v
    | none => .error "IndexError"

/-- `xs[i] = v` (in place in Python; the updated list here); `IndexError` -/
def setItem {α : Type} (xs : List α) (i : Int) (v : α) : Except Exc (List α) :=
  let j : Int := if i < 0 then i + xs.length else i
  if j < 0 then .error "IndexError"
  else if j.toNat < xs.length then .ok (xs.set j.toNat v) else .error "IndexError"

/-- `[v] * n` -/
def replicate {α : Type} (n : Int) (v : α) : List α := List.replicate n.toNat v

/-- `range(n)` -/
def range (n : Int) : List Int := (List.range n.toNat).map fun (i : Nat) => (i : Int)

/-- `enumerate(xs)` -/
def enumerateFrom {α : Type} (i : Int) : List α → List (Int × α)
  | [] => []
  | x :: xs => (i, x) :: enumerateFrom (i + 1) xs

def enumerate {α : Type} (xs : List α) : List (Int × α) := enumerateFrom 0 xs

/-- `zip(xs, ys)` -/
def zip {α β : Type} (xs : List α) (ys : List β) : List (α × β) := List.zip xs ys

/-- `xs[a:b]` for ints `a`, `b` (negative values count from the end, out-of-range values are clipped) -/
def slice {α : Type} (xs : List α) (a b : Int) : List α :=
  let n : Int := xs.length
  let clip (i : Int) : Nat := (if i < 0 then max (i + n) 0 else min i n).toNat
  (xs.take (clip b)).drop (clip a)

/-- `next(it)` on a fresh iterator over `xs`: its first element; `StopIteration` when empty -/
def next {α : Type} : List α → Except Exc α
  | [] => .error "StopIteration"
  | x :: _ => .ok x

/-- `sum(xs)` -/
def sum (xs : List Int) : Int := xs.foldl (· + ·) 0

/-- `min(xs)` of a possibly empty sequence; `ValueError` when empty -/
def minE : List Int → Except Exc Int
  | [] => .error "ValueError"
  | x :: xs => .ok (xs.foldl min x)

/-- `max(xs)`; `ValueError` when empty -/
def maxE : List Int → Except Exc Int
  | [] => .error "ValueError"
  | x :: xs => .ok (xs.foldl max x)

/-- `any(f(x) for x in xs)` where `f` may raise: stops at the first `True` -/
def anyE {α : Type} (xs : List α) (f : α → Except Exc Bool) : Except Exc Bool :=
  match xs with
  | [] => .ok false
  | x :: rest =>
    match f x with
    | .error e => .error e
    | .ok true => .ok true
    | .ok false => anyE rest f

/-- `all(f(x) for x in xs)` where `f` may raise: stops at the first `False` -/
def allE {α : Type} (xs : List α) (f : α → Except Exc Bool) : Except Exc Bool :=
  match xs with
  | [] => .ok true
  | x :: rest =>
    match f x with
    | .error e => .error e
    | .ok false => .ok false
    | .ok true => allE rest f

/-- `[f(x) for x in xs]` where `f` may raise -/
def mapE {α β : Type} (xs : List α) (f : α → Except Exc β) : Except Exc (List β) :=
  match xs with
  | [] => .ok []
  | x :: rest =>
    match f x with
    | .error e => .error e
    | .ok y =>
      match mapE rest f with
      | .error e => .error e
      | .ok ys => .ok (y :: ys)

/-- `[x for x in xs if f(x)]` where `f` may raise -/
def filterE {α : Type} (xs : List α) (f : α → Except Exc Bool) : Except Exc (List α) :=
  match xs with
  | [] => .ok []
  | x :: rest =>
    match f x with
    | .error e => .error e
    | .ok b =>
      match filterE rest f with
      | .error e => .error e
      | .ok ys => .ok (if b then x :: ys else ys)

/-- `set(xs)` when only membership / `min` / `max` / `len`-free iteration is used afterwards:
    the distinct elements in first-occurrence order -/
def toSet {α : Type} [BEq α] (xs : List α) : List α := xs.eraseDups

/-! ## dictionaries -/

/-- insertion-ordered association list without repeated keys -/
abbrev Dict (κ ν : Type) := List (κ × ν)

/-- `d[k] = v`: overwrite in place when the key exists, else append -/
def Dict.set {κ ν : Type} [DecidableEq κ] : Dict κ ν → κ → ν → Dict κ ν
  | [], k, v => [(k, v)]
  | (k', v') :: rest, k, v => if k' = k then (k', v) :: rest else (k', v') :: Dict.set rest k v

/-- `d.get(k, dflt)` -/
def Dict.getD {κ ν : Type} [DecidableEq κ] (d : Dict κ ν) (k : κ) (dflt : ν) : ν :=
  match d.find? (fun kv => decide (kv.1 = k)) with
  | some kv => kv.2
  | none => dflt

/-- `d.get(k)` -/
def Dict.get? {κ ν : Type} [DecidableEq κ] (d : Dict κ ν) (k : κ) : Option ν :=
  (d.find? (fun kv => decide (kv.1 = k))).map (·.2)

/-- `d[k]`; `KeyError` -/
def Dict.getE {κ ν : Type} [DecidableEq κ] (d : Dict κ ν) (k : κ) : Except Exc ν :=
  match d.find? (fun kv => decide (kv.1 = k)) with
  | some kv => .ok kv.2
  | none => .error "KeyError"

/-! ## loops -/

/-- what one iteration of a `for` body does: fall off the end / `continue` (`next`), or `break` (`brk`);
    both carry the values of the loop's running local variables -/
inductive Step (σ : Type) where
  | next (s : σ)
  | brk (s : σ)

/-- `for x in xs: body` with running state `s`; the body cannot raise -/
def forP {α σ : Type} (xs : List α) (s : σ) (body : α → σ → Step σ) : σ :=
  match xs with
  | [] => s
  | x :: rest =>
    match body x s with
    | .next s' => forP rest s' body
    | .brk s' => s'

/-- `for x in xs: body` with running state `s`; the body can raise -/
def forE {α σ : Type} (xs : List α) (s : σ) (body : α → σ → Except Exc (Step σ)) : Except Exc σ :=
  match xs with
  | [] => .ok s
  | x :: rest =>
    match body x s with
    | .error e => .error e
    | .ok (.next s') => forE rest s' body
    | .ok (.brk s') => .ok s'

/-- what one iteration of a loop body does when the loop contains a `return`: as `Step`, or leave the
    enclosing function with a result -/
inductive Ctl (σ ρ : Type) where
  | next (s : σ)
  | brk (s : σ)
  | ret (r : ρ)

/-- how a loop that contains a `return` ended: it fell through to the next statement (exhausted or
    `break`) with the final state, or the function returned -/
inductive LoopOut (σ ρ : Type) where
  | fell (s : σ)
  | returned (r : ρ)

/-- `for x in xs: body` where the body may `return` -/
def forC {α σ ρ : Type} (xs : List α) (s : σ) (body : α → σ → Except Exc (Ctl σ ρ)) : Except Exc (LoopOut σ ρ) :=
  match xs with
  | [] => .ok (.fell s)
  | x :: rest =>
    match body x s with
    | .error e => .error e
    | .ok (.next s') => forC rest s' body
    | .ok (.brk s') => .ok (.fell s')
    | .ok (.ret r) => .ok (.returned r)

/-- `while True: body` with a declared bound `fuel` on the number of iterations; exceeding the bound is the
    pseudo-exception "NonTermination" (the tied theorems show that it is never raised) -/
def whileE {σ ρ : Type} (fuel : Nat) (s : σ) (body : σ → Except Exc (Ctl σ ρ)) : Except Exc (LoopOut σ ρ) :=
  match fuel with
  | 0 => .error "NonTermination"
  | fuel + 1 =>
    match body s with
    | .error e => .error e
    | .ok (.next s') => whileE fuel s' body
    | .ok (.brk s') => .ok (.fell s')
    | .ok (.ret r) => .ok (.returned r)

/-! ## strings (lists of characters) -/

/-- `zip_longest(xs, xs[1:])`: every element paired with its successor, `None` after the last -/
def pairsWithNext {α : Type} : List α → List (α × Option α)
  | [] => []
  | [x] => [(x, none)]
  | x :: y :: rest => (x, some y) :: pairsWithNext (y :: rest)

/-- `sep.join(xs)` -/
def join {α : Type} (sep : List α) : List (List α) → List α
  | [] => []
  | [x] => x
  | x :: y :: rest => x ++ sep ++ join sep (y :: rest)

/-- `s.replace(c, new)` for a one-character pattern `c` -/
def replaceChar {α : Type} [DecidableEq α] (s : List α) (c : α) (new : List α) : List α :=
  s.flatMap fun ch => if ch = c then new else [ch]

/-! ## numpy -/

/-- `np.searchsorted(a, v, side='right')` on a non-decreasing integer array: the number of leading
    elements `≤ v` (for a sorted array: the number of elements `≤ v`) -/
def searchsortedRight (a : List Int) (v : Int) : Int :=
  ((a.takeWhile fun y => decide (y ≤ v)).length : Int)

/-- `np.searchsorted(a, v, side='left')`: the number of leading elements `< v` -/
def searchsortedLeft (a : List Int) (v : Int) : Int :=
  ((a.takeWhile fun y => decide (y < v)).length : Int)

end Tdms.Generated.Py

/-! # Appended for `Tdms/Generated/Code2.lean` (scaling, sensors, writer, thermocouple, resource decisions)

Same role as above: hand-written, trusted semantics of Python operations used by generated code. -/

namespace Tdms.Generated.Py

/-! ## dynamically typed property values

A value of a TDMS property dict (and whatever the scaling classes store of it): a Python / numpy integer,
a float, or a string.  Floats live in an arbitrary type `R` (the model evaluates over exact numbers, the
theorems instantiate a ring / field); nothing is said about binary64 rounding. -/

inductive Val (R : Type) where
  | int (i : Int)
  | num (v : R)
  | str (s : List Char)

namespace Val
variable {R : Type}

/-- the Python int `i` used as a float (`float(i)`, exact in the model) -/
def ofInt [NatCast R] [Neg R] : Int → R
  | .ofNat n => (n : R)
  | .negSucc n => -((n + 1 : Nat) : R)

/-- a value used as an operand of (numpy) arithmetic; a string operand raises (numpy: `UFuncTypeError`,
    a subclass of `TypeError`) -/
def toNum [NatCast R] [Neg R] : Val R → Except Exc R
  | .int i => .ok (ofInt i)
  | .num v => .ok v
  | .str _ => .error "TypeError"

/-- a value used as a list index or as the argument of `range` / `[x] * n`: only ints are accepted
    (`TypeError` for floats and strings) -/
def toIndex : Val R → Except Exc Int
  | .int i => .ok i
  | _ => .error "TypeError"

/-- `int(v)`: the int itself.  Truncation of a float and parsing of a string are NOT modelled: the
    pseudo exception "NotModelled" (the tied theorems assume an integer property) -/
def toIntConv : Val R → Except Exc Int
  | .int i => .ok i
  | _ => .error "NotModelled"

/-- `a == b`: numbers compare by value across int / float, strings with strings, a number never equals a string -/
def eq [DecidableEq R] [NatCast R] [Neg R] : Val R → Val R → Bool
  | .int a, .int b => decide (a = b)
  | .num a, .num b => decide (a = b)
  | .int a, .num b => decide (ofInt a = b)
  | .num a, .int b => decide (a = ofInt b)
  | .str a, .str b => decide (a = b)
  | _, _ => false

end Val

/-- `"%d" % i` -/
def fmtD (i : Int) : List Char := (toString i).toList

/-- `k in d` -/
def Dict.contains {κ ν : Type} [DecidableEq κ] (d : Dict κ ν) (k : κ) : Bool :=
  (d.find? (fun kv => decide (kv.1 = k))).isSome

/-- `d.keys()` -/
def Dict.keys {κ ν : Type} (d : Dict κ ν) : List κ := d.map (·.1)

/-- `d[v]` for a dict with `int` keys and a dynamically typed key `v` (a float key equal to an int key finds it,
    as Python's hash / `==` do); `KeyError` -/
def Dict.getV {R ν : Type} [DecidableEq R] [NatCast R] [Neg R] (d : Dict Int ν) (v : Val R) : Except Exc ν :=
  match d.find? (fun kv => Val.eq (Val.int kv.1) v) with
  | some kv => .ok kv.2
  | none => .error "KeyError"

/-- `try: m except cls:` where the handler leaves the enclosing block (`continue` / `return` / `raise`):
    `none` = the handler has to run -/
def tryOpt {α : Type} (m : Except Exc α) (cls : Exc) : Except Exc (Option α) :=
  match m with
  | .ok v => .ok (some v)
  | .error e => if e = cls then .ok none else .error e

/-- `next(g(y) for y in (f(x) for x in xs) if c(y))` on LAZY generators: `f` is evaluated element by element and
    only until the first hit (`step x = some result`); `StopIteration` when there is none -/
def firstE {α β : Type} (xs : List α) (step : α → Except Exc (Option β)) : Except Exc β :=
  match xs with
  | [] => .error "StopIteration"
  | x :: rest =>
    match step x with
    | .error e => .error e
    | .ok (some y) => .ok y
    | .ok none => firstE rest step

end Tdms.Generated.Py

namespace Tdms.Generated.Py

/-- `a | b`: `Nat.lor` on non-negative ints; a negative operand `-(n+1)` is the infinite two's complement `~n`
    (`m | ~n = ~(n & ~m)`, `~m | ~n = ~(m & n)`) -/
def bor : Int → Int → Int
  | .ofNat m, .ofNat n => ((m ||| n : Nat) : Int)
  | .ofNat m, .negSucc n => .negSucc (n - (m &&& n))
  | .negSucc m, .ofNat n => .negSucc (m - (m &&& n))
  | .negSucc m, .negSucc n => .negSucc (m &&& n)

end Tdms.Generated.Py

namespace Tdms.Generated.Py

/-! ## sets (lists without order significance), dict helpers, sorting -/

/-- `a - b` on sets: the elements of `a` that are not in `b` -/
def setDiff {α : Type} [BEq α] (a b : List α) : List α := a.filter fun x => !b.contains x

/-- `s.update(xs)` / `s | set(xs)`: `s` followed by the new elements of `xs` -/
def setUnion {α : Type} [BEq α] (s xs : List α) : List α := s ++ (xs.eraseDups.filter fun x => !s.contains x)

/-- `dict(pairs)`: later pairs overwrite earlier ones with the same key (position of the first occurrence kept) -/
def Dict.ofPairs {κ ν : Type} [DecidableEq κ] (ps : List (κ × ν)) : Dict κ ν :=
  ps.foldl (fun d kv => Dict.set d kv.1 kv.2) []

/-- `d.update(e)` -/
def Dict.update {κ ν : Type} [DecidableEq κ] (d e : Dict κ ν) : Dict κ ν :=
  e.foldl (fun acc kv => Dict.set acc kv.1 kv.2) d

/-- insertion of `x` (key `k`) behind every element whose key is `≤ k`: keeps the sort stable -/
def insertByKey {α : Type} (k : Int) (x : α) : List (Int × α) → List (Int × α)
  | [] => [(k, x)]
  | (k', y) :: rest => if k < k' then (k, x) :: (k', y) :: rest else (k', y) :: insertByKey k x rest

/-- `xs.sort(key=f)`: all keys are computed first (an exception of `f` propagates), the sort is stable.
    (Python compares keys lazily: a key `None` only raises when it is compared; here it raises always.) -/
def sortByKeyE {α : Type} (xs : List α) (key : α → Except Exc Int) : Except Exc (List α) :=
  match mapE xs (fun x => match key x with | .ok k => .ok (k, x) | .error e => .error e) with
  | .error e => .error e
  | .ok kxs => .ok ((kxs.foldl (fun acc kx => insertByKey kx.1 kx.2 acc) []).map (·.2))

end Tdms.Generated.Py

namespace Tdms.Generated.Py

/-- `s.endswith(suffix)` -/
def endsWith (s suffix : List Char) : Bool := suffix.isSuffixOf s

end Tdms.Generated.Py
