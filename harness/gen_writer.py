"""Seeded generator of writer programs: sequences of TdmsWriter.write_segment calls split over sessions.

A program is a list of sessions; a session a list of segments; a segment a list of object descriptions
  ('R', props) | ('G', group, props) | ('C', group, channel, data, props)
with data = ('K', numpy kind, numpy array) | ('S', list of str) | ('D', list of unix microseconds, how) |
            ('L', list of python ints) | ('E', how)           (how: which Python container is handed to the writer)
and props a list of (name, value description).  Value descriptions:
  ('i', int) ('f', float) ('b', bool) ('s', str) ('d', unix micros, how) ('t', seconds, fractions) ('n', numpy kind, bytes)
  ('w', wrapper class name, kind, bytes)
`to_python` builds the real objects, `to_line` the model request, `expected` the content the property promises.
"""
import datetime
import struct

import numpy as np

from leanio import hx

KINDS = ["i1", "i2", "i4", "i8", "u1", "u2", "u4", "u8", "f4", "f8", "b1", "c8", "c16"]
KIND_DTYPE = {"b1": "?"}
KIND_CODE = {"i1": 1, "i2": 2, "i4": 3, "i8": 4, "u1": 5, "u2": 6, "u4": 7, "u8": 8, "f4": 9, "f8": 10, "b1": 0x21, "c8": 0x08000c, "c16": 0x10000d}
WRAPPERS = {"Int8": "i1", "Int16": "i2", "Int32": "i4", "Int64": "i8", "Uint8": "u1", "Uint16": "u2", "Uint32": "u4", "Uint64": "u8",
            "SingleFloat": "f4", "DoubleFloat": "f8"}
NAMES = ["g", "Group", "it's", "a/b", "", "ünï", "日本", "c", "chan 1", "'", "rack'/'slot", "raw'/", "TDSm", "x TDSm y", "Load 100%", "%s {0}", "group"]
INT_EDGES = [0, 1, -1, 2 ** 31 - 1, 2 ** 31, -2 ** 31, -2 ** 31 - 1, 2 ** 63 - 1, 2 ** 63, -2 ** 63, 2 ** 64 - 1, 127, 128, -128, -129, 255, 256, 32767,
             32768, -32768, -32769, 65535, 65536, 2 ** 32 - 1, 2 ** 32,
             0x6d534454, 0x68534454]      # the little-endian bytes of these two spell the segment tags TDSm / TDSh


def dt(kind):
    return np.dtype(KIND_DTYPE.get(kind, kind))


def rand_array(rnd, kind, n):
    d = dt(kind)
    if kind == "b1":
        return np.array([rnd.random() < 0.5 for _ in range(n)], dtype=d)
    raw = bytes(rnd.getrandbits(8) for _ in range(n * d.itemsize))
    return np.frombuffer(raw, dtype=d).copy()


def rand_micros(rnd):
    return rnd.choice([0, 1, -1, 1577836800000000 + rnd.randrange(10 ** 12), -2082844800000000 - rnd.randrange(10 ** 9),
                       rnd.randrange(-10 ** 16, 10 ** 16), 946684800123456])


def rand_prop_value(rnd):
    k = rnd.choice(["i", "i", "f", "b", "s", "d", "t", "n", "w"])
    if k == "i":
        return ("i", rnd.choice(INT_EDGES + [rnd.randint(-2 ** 63, 2 ** 64 - 1), rnd.randint(-1000, 1000)]))
    if k == "f":
        return ("f", rnd.choice([0.0, -0.0, 1.5, float("inf"), float("nan"), rnd.uniform(-1e9, 1e9), 5e-324]))
    if k == "b":
        return ("b", rnd.random() < 0.5)
    if k == "s":
        return ("s", rnd.choice(["".join(rnd.choice("ab ü日\U0001F600'/") for _ in range(rnd.randint(0, 6))), "TDSm", "aTDSmb", "nul\x00", "\x00", "\ufeff", "\ufeffbom first", "bom\ufeffinside"]))
    if k == "d":
        return ("d", rand_micros(rnd), rnd.choice(["datetime64", "datetime"]))
    if k == "t":
        return ("t", rnd.randint(-2 ** 40, 2 ** 40), rnd.getrandbits(64))
    if k == "n":
        kind = rnd.choice([x for x in KINDS if x not in ("c8", "c16", "b1")])
        return ("n", kind, rand_array(rnd, kind, 1).tobytes())
    name = rnd.choice(list(WRAPPERS))
    kind = WRAPPERS[name]
    return ("w", name, kind, rand_array(rnd, kind, 1).tobytes())


def pun(rnd, v):
    """a value of ANOTHER TDMS type with the same bytes and an equal Python value (0 == 0.0, 1 == True, int32 5 == uint32 5):
    rewriting a property with it must change the property's type in the file"""
    import struct
    k = v[0]
    if k == "b":
        return ("n", rnd.choice(["i1", "u1"]), bytes([1 if v[1] else 0]))
    if k == "f" and struct.pack("<d", v[1]) == bytes(8):
        return ("n", rnd.choice(["i8", "u8"]), bytes(8))
    if k == "i" and -2 ** 31 <= v[1] < 2 ** 31 and v[1] >= 0:
        return ("n", "u4", struct.pack("<I", v[1]))
    if k == "n":
        kind, raw = v[1], v[2]
        if kind in ("i1", "u1") and raw in (b"\x00", b"\x01"):
            return rnd.choice([("b", raw == b"\x01"), ("n", "u1" if kind == "i1" else "i1", raw)])
        if kind[0] in "iu" and raw[-1] < 128:
            return ("n", ("u" if kind[0] == "i" else "i") + kind[1], raw)
        if raw == bytes(len(raw)) and kind in ("i8", "u8", "f8"):
            return ("f", 0.0) if kind != "f8" else ("n", "i8", raw)
        if raw == bytes(4) and kind in ("i4", "u4", "f4"):
            return ("n", "f4" if kind != "f4" else "i4", raw)
    return None


def rand_props(rnd, prev=None):
    """property list for one object in one segment; `prev` (dict, updated) remembers the values already written for that object:
    now and then an earlier property is rewritten with a value of another type but identical bytes (see `pun`)"""
    names = rnd.sample(["p", "unit_string", "wf_increment", "名", "q q", "", "x" * 7, "\ufeffp", "\ufeff"], rnd.choice([0, 0, 1, 2, 3]))
    out = []
    for n in names:
        v = None
        if prev is not None and n in prev and rnd.random() < 0.6:
            v = pun(rnd, prev[n])
        if v is None:
            v = rand_prop_value(rnd)
            if rnd.random() < 0.25:
                v = rnd.choice([("b", True), ("f", 0.0), ("i", rnd.randint(0, 9)), ("n", "i1", b"\x01"), ("n", "i4", bytes(4)), ("n", "i8", bytes(8)), ("n", "u2", b"\x07\x00")])
        out.append((n, v))
        if prev is not None:
            prev[n] = v
    return out


def rand_data(rnd):
    k = rnd.choice(["K", "K", "K", "S", "D", "L", "E"])
    n = rnd.choice([0, 1, 2, 3, 5])
    if k == "K":
        kind = rnd.choice(KINDS)
        return ("K", kind, rand_array(rnd, kind, n))
    if k == "S":
        form = rnd.choice(["list", "object-array"])
        tail = ["", "", "", "\x00", "\x00\x00"] if form == "object-array" else [""]      # a list of str becomes a '<U' array, which cannot hold trailing NULs
        return ("S", [rnd.choice(["", "", "", "\ufeff"]) + "".join(rnd.choice("ab ü日\U0001F600") for _ in range(rnd.randint(0, 4))) + rnd.choice(tail) for _ in range(n)], form)
    if k == "D":
        return ("D", [rand_micros(rnd) for _ in range(n)], rnd.choice(["datetime64-array", "datetime-list"]))
    if k == "L":
        n = max(n, 1)
        lo, hi = rnd.choice([(-100, 100), (0, 300), (-40000, 40000), (0, 70000), (-2 ** 31, 2 ** 31), (0, 2 ** 32), (-2 ** 40, 2 ** 40), (0, 2 ** 64 - 1),
                             (2 ** 63, 2 ** 64 - 1), (-2 ** 63, 2 ** 63 - 1)])
        return ("L", [rnd.choice([lo, hi, rnd.randint(lo, hi)]) for _ in range(n)])
    return ("E", rnd.choice(["empty-object-array", "empty-datetime-array"]))


def tcode(d):
    """data type class of a data description where it is unambiguous (typed numpy array, non-empty strings, datetimes)"""
    if d[0] == "K":
        return ("K", d[1])
    if d[0] == "S" and d[1]:
        return ("S",)
    if d[0] == "D" and d[1]:
        return ("D",)      # an empty datetime64 array carries no TDMS type (Void), like an empty object array
    return None


def type_change(prog):
    """None, "in-session" (a channel gets two data types within one writer session: write_segment must raise) or "across"
    (only across sessions: the writer cannot know)"""
    glob, out = {}, None
    for sess in prog:
        local = {}
        for seg in sess:
            for ob in seg:
                if ob[0] != "C" or tcode(ob[3]) is None:
                    continue
                key, t = (ob[1], ob[2]), tcode(ob[3])
                if local.setdefault(key, t) != t:
                    return "in-session"
                if glob.setdefault(key, t) != t:
                    out = "across"
    return out


def draw(rnd, max_sessions=3, max_segments=4):
    groups = rnd.sample(NAMES, rnd.randint(1, 2))
    chans = []
    for _ in range(rnd.randint(1, 4)):
        gc = (rnd.choice(groups), rnd.choice(NAMES))
        if gc not in chans:
            chans.append(gc)
    chan_data_kind = {}
    chan_typed = set()
    written_props = {}
    prog = []
    for _ in range(rnd.randint(1, max_sessions)):
        sess = []
        for _ in range(rnd.randint(1, max_segments)):
            seg = []
            if rnd.random() < 0.3:
                seg.append(("R", rand_props(rnd, written_props.setdefault("/", {}))))
            for g in groups:
                if rnd.random() < 0.3:
                    seg.append(("G", g, rand_props(rnd, written_props.setdefault(("g", g), {}))))
            for gc in rnd.sample(chans, rnd.randint(0, len(chans))):
                # a channel keeps its data type over the file
                if gc not in chan_data_kind:
                    d = rand_data(rnd)
                    if d[0] == "L":
                        # keep inferred dtype stable: remember the range class by reusing the same list
                        chan_data_kind[gc] = ("L", d[1])
                    elif d[0] == "K":
                        chan_data_kind[gc] = ("K", d[1])
                    else:
                        chan_data_kind[gc] = (d[0],)
                elif chan_data_kind[gc][0] in "KSD" and gc in chan_typed and rnd.random() < 0.04:
                    # (rarely) the same channel with another data type: the writer must refuse it within a session
                    kind2 = rnd.choice([k for k in KINDS if ("K", k) != chan_data_kind[gc][:2]])
                    d = rnd.choice([("K", kind2, rand_array(rnd, kind2, rnd.choice([0, 1, 3])))] +
                                   ([("S", ["x", "yz"], "list")] if chan_data_kind[gc][0] != "S" else []) +
                                   ([("D", [rand_micros(rnd)], "datetime64-array")] if chan_data_kind[gc][0] != "D" else []))
                else:
                    ck = chan_data_kind[gc]
                    n = rnd.choice([0, 1, 2, 4])
                    if ck[0] == "K":
                        d = ("K", ck[1], rand_array(rnd, ck[1], n))
                    elif ck[0] == "S":
                        d = ("S", ["".join(rnd.choice("xyü") for _ in range(rnd.randint(0, 3))) for _ in range(n)], "list")
                    elif ck[0] == "D":
                        d = ("D", [rand_micros(rnd) for _ in range(n)], "datetime64-array")
                    elif ck[0] == "L":
                        d = ("L", list(ck[1]))
                    else:
                        d = ("E", "empty-object-array")
                if tcode(d) is not None:
                    chan_typed.add(gc)       # the channel now has a data type in the file
                seg.append(("C", gc[0], gc[1], d, rand_props(rnd, written_props.setdefault(gc, {}))))
            if rnd.random() < 0.2:
                rnd.shuffle(seg)
            sess.append(seg)
            # now and then the next call lists exactly the same objects in another order, with fresh data of the same kinds
            # (two segments that differ only in the order of their objects)
            chs = [ob for ob in seg if ob[0] == "C"]
            if len(chs) >= 2 and rnd.random() < 0.25:
                again = []
                for ob in seg:
                    if ob[0] != "C":
                        again.append(ob[:-1] + ([],))
                        continue
                    d = ob[3]
                    if d[0] == "K":
                        d = ("K", d[1], rand_array(rnd, d[1], len(d[2])))
                    elif d[0] == "S":
                        d = ("S", ["".join(rnd.choice("pqü") for _ in range(rnd.randint(0, 3))) for _ in d[1]], d[2])
                    elif d[0] == "D":
                        d = ("D", [rand_micros(rnd) for _ in d[1]], d[2])
                    again.append(("C", ob[1], ob[2], d, []))
                rest = [ob for ob in again if ob[0] != "C"]
                perm = [ob for ob in again if ob[0] == "C"]
                perm = perm[1:] + perm[:1] if rnd.random() < 0.5 else perm[::-1]
                sess.append(rest + perm)
            elif len(chs) >= 2 and rnd.random() < 0.3:
                # ... or a channel stops: the next calls list a leading / trailing part of the same objects (a shrinking object list
                # is a NEW object list), once or twice, with fresh data of the same kinds
                keep = chs[:rnd.randint(1, len(chs) - 1)] if rnd.random() < 0.6 else chs[rnd.randint(1, len(chs) - 1):]
                for _rep in range(rnd.randint(1, 2)):
                    part = []
                    for ob in keep:
                        d = ob[3]
                        if d[0] == "K":
                            d = ("K", d[1], rand_array(rnd, d[1], max(len(d[2]), 1)))
                        elif d[0] == "S":
                            d = ("S", ["".join(rnd.choice("rsü") for _ in range(rnd.randint(0, 3))) for _ in d[1]], d[2])
                        elif d[0] == "D":
                            d = ("D", [rand_micros(rnd) for _ in d[1]], d[2])
                        part.append(("C", ob[1], ob[2], d, []))
                    sess.append(part)
        prog.append(sess)
    return prog


EPOCH = datetime.datetime(1970, 1, 1)


def py_datetime(us):
    return EPOCH + datetime.timedelta(microseconds=us)


def to_python_value(v, types, TdmsTimestamp):
    k = v[0]
    if k in ("i", "f", "b", "s"):
        return v[1]
    if k == "d":
        if v[2] == "datetime":
            try:
                return py_datetime(v[1])
            except OverflowError:
                return np.datetime64(v[1], "us")
        return np.datetime64(v[1], "us")
    if k == "t":
        return TdmsTimestamp(v[1], v[2])
    if k == "n":
        return np.frombuffer(v[2], dtype=dt(v[1]))[0]
    if k == "w":
        val = np.frombuffer(v[3], dtype=dt(v[2]))[0]
        return getattr(types, v[1])(val.item())
    raise ValueError(v)


def to_python_data(d):
    k = d[0]
    if k == "K":
        return d[2]
    if k == "S":
        # an empty Python list carries no type (NumPy makes it float64): empty string data is handed over as an object array
        return list(d[1]) if (d[2] == "list" and d[1]) else np.array(d[1], dtype=object)
    if k == "D":
        if d[2] == "datetime-list" and d[1]:
            try:
                return [py_datetime(u) for u in d[1]]
            except OverflowError:
                pass
        return np.array([np.datetime64(u, "us") for u in d[1]], dtype="datetime64[us]")
    if k == "L":
        return list(d[1])
    if d[1] == "empty-datetime-array":
        return np.array([], dtype="datetime64[us]")
    return np.array([], dtype=object)


def to_python(seg, nptdms):
    from nptdms import RootObject, GroupObject, ChannelObject, types
    from nptdms.timestamp import TdmsTimestamp
    out = []
    for ob in seg:
        props = {n: to_python_value(v, types, TdmsTimestamp) for n, v in ob[-1]} if ob[-1] else (None if len(str(ob)) % 2 else {})
        if ob[0] == "R":
            out.append(RootObject(props))
        elif ob[0] == "G":
            out.append(GroupObject(ob[1], props))
        else:
            out.append(ChannelObject(ob[1], ob[2], to_python_data(ob[3]), props))
    return out


REJECTION_KINDS = []      # exception class names of the calls rejected by the last write_resilient (diagnostics)


def write_resilient(prog, nptdms, version, data, index, by_path=None, first_mode="w"):
    """Run the program against the real TdmsWriter the way a caller that survives errors would: a write_segment call that raises
    (ValueError / TypeError / OverflowError, also while the segment's objects are being built) is skipped and the session goes
    on. Returns (accepted program = prog without the rejected segments, number of rejected calls, unexpected exception or None).
    A rejected call must be a no-op: the bytes written must be those of the accepted program."""
    accepted, rejected = [], 0
    del REJECTION_KINDS[:]
    mode = first_mode
    if by_path is not None and first_mode != "w":
        # appending to a data file that exists but is empty (e.g. made by tempfile.mkstemp): the same bytes as a fresh file
        import os
        for q in (by_path, by_path + "_index"):
            open(q, "wb").close() if q == by_path or first_mode == "a+idx" else None
        mode = "a"
    try:
        for sess in prog:
            acc = []
            if by_path is not None:
                w = nptdms.TdmsWriter(by_path, mode=mode, version=version, index_file=True)
            else:
                w = nptdms.TdmsWriter(data, version=version, index_file=index if index is not None else False)
            with w:
                for seg in sess:
                    try:
                        w.write_segment(to_python(seg, nptdms))
                        acc.append(seg)
                    except (ValueError, TypeError, OverflowError) as ex:
                        rejected += 1
                        REJECTION_KINDS.append(type(ex).__name__)
            # later sessions append: every mode string that appends ('a' and 'a+' alternate)
            mode = "a+" if len(accepted) % 2 == 0 else "a"
            accepted.append(acc)
    except Exception as ex:  # noqa
        return accepted, rejected, ex
    return accepted, rejected, None


def val_token(v):
    k = v[0]
    if k == "i":
        return "i:%d" % v[1]
    if k == "f":
        return "f:%s" % struct.pack("<d", v[1]).hex()
    if k == "b":
        return "b:%d" % int(v[1])
    if k == "s":
        return "s:%s" % hx(v[1].encode("utf-8"))
    if k == "d":
        return "d:%d" % v[1]
    if k == "t":
        return "t:%d:%d" % (v[1], v[2])
    if k == "n":
        return "n:%d:%s" % (KIND_CODE[v[1]], v[2].hex())
    return "n:%d:%s" % (KIND_CODE[v[2]], v[3].hex())


def data_tokens(d):
    k = d[0]
    if k == "K":
        arr = d[2]
        w = arr.dtype.itemsize
        raw = arr.astype(arr.dtype.newbyteorder("<")).tobytes()
        return ["K", d[1], str(len(arr))] + [raw[i * w:(i + 1) * w].hex() for i in range(len(arr))]
    if k == "S":
        return ["S", str(len(d[1]))] + [hx(s.encode("utf-8")) for s in d[1]]
    if k == "D":
        return ["D", str(len(d[1]))] + [str(u) for u in d[1]]
    if k == "L":
        return ["L", str(len(d[1]))] + [str(x) for x in d[1]]
    return ["E"]


def to_line(prog, version=4712):
    t = ["write", str(version), str(len(prog))]
    for sess in prog:
        t.append(str(len(sess)))
        for seg in sess:
            t.append(str(len(seg)))
            for ob in seg:
                if ob[0] == "R":
                    t.append("R")
                elif ob[0] == "G":
                    t += ["G", hx(ob[1].encode("utf-8"))]
                else:
                    t += ["C", hx(ob[1].encode("utf-8")), hx(ob[2].encode("utf-8"))] + data_tokens(ob[3])
                t.append(str(len(ob[-1])))
                for n, v in ob[-1]:
                    t += [hx(n.encode("utf-8")), val_token(v)]
    return " ".join(t)


def int_type_by_magnitude(v):
    """the property's statement: Int32 / Int64 / Uint64 chosen by magnitude"""
    if -2 ** 31 <= v < 2 ** 31:
        return 3
    if -2 ** 63 <= v < 2 ** 63:
        return 4
    return 8


def expected(prog):
    """what the property promises to read back: per channel the concatenation, per object the last property values"""
    chans, props, order = {}, {}, []
    for sess in prog:
        for seg in sess:
            for ob in seg:
                key = ("/",) if ob[0] == "R" else (ob[1],) if ob[0] == "G" else (ob[1], ob[2])
                if key not in order:
                    order.append(key)
                pr = props.setdefault(key, {})
                for n, v in ob[-1]:
                    pr[n] = v
                if ob[0] == "C":
                    chans.setdefault(key, []).append(ob[3])
    return chans, props, order
