"""Canonical dumps of npTDMS objects, in the same shape as the JSON the Lean model prints.

Values are compared as bit patterns: every channel value becomes the hex of its canonical
little-endian bytes, every property value becomes a (kind, payload) pair computed from the Python
object.  No float is ever compared with ==.
"""
import io
import logging
import struct
import sys

import numpy as np

logging.disable(logging.CRITICAL)


def import_nptdms(repo=None):
    import os
    repo = repo or os.environ.get("NPTDMS_REPO", "/repo")     # NPTDMS_REPO: only for self-tests against scratch worktrees
    if repo not in sys.path:
        sys.path.insert(0, repo)
    import nptdms
    return nptdms


STRUCT_FMT = {1: "b", 2: "h", 3: "l", 4: "q", 5: "B", 6: "H", 7: "L", 8: "Q", 9: "f", 10: "d", 0x19: "f", 0x1A: "d", 0x21: "b"}


def err_kind(ex):
    """map a Python exception raised by npTDMS to the model's error enum"""
    msg = str(ex)
    name = type(ex).__name__
    table = [
        ("should either start with", "badTag"), ("Segment does not start with", "badTag"),
        ("there is no previous segment", "noPrevSegment"),
        ("we have not seen this object before", "reuseUnseen"),
        ("doesn't have the same type as previous", "typeChanged"),
        ("same scaler data types", "scalerTypesChanged"),
        ("Data dimension is not 1", "badDimension"),
        ("Unrecognised data type", "unknownType"),
        ("Unsupported data type", "unsupportedType"),
        ("Zero channel data size", "zeroSizeButData"),
        ("Negative data size", "negativeSize"),
        ("mixed DAQmx", "mixedDaqmx"), ("mix of DAQmx", "mixedDaqmx"),
        ("interleaved segment containing channels with unsized", "interleavedUnsized"),
        ("interleaved data with different chunk sizes", "interleavedLengths"),
        ("do not match previous widths", "daqmxWidths"),
        ("Expected only one scaler", "daqmxScalerCount"),
        ("Expected scaler data type", "daqmxScalerType"),
        ("did not find segment start header", "badSegmentStart"),
        ("Cannot skip over channel with unsized type", "unsizedSkip"),
        ("Data cannot be read from index file only", "indexOnly"),
        ("underlying TDMS reader is closed", "closed"),
        ("outside of the channel bounds", "indexError"),
        ("Step size cannot be zero", "stepZero"),
        ("must be non-negative", "negativeArg"),
        ("could not broadcast", "overflow"),
    ]
    for frag, kind in table:
        if frag in msg:
            return kind
    if name == "error" or "unpack requires" in msg:   # struct.error
        return "short"
    if name == "NotImplementedError":
        return "unsupportedType"
    if name == "KeyError" and isinstance(ex.args[0] if ex.args else None, int):
        return "unknownType"
    if name == "AttributeError" and "NoneType" in msg:
        return "noneType"
    return "other"


def value_bytes(arr):
    """list of hex strings, one per element, canonical little-endian bytes"""
    if arr is None:
        return None
    from nptdms.timestamp import TimestampArray
    if isinstance(arr, TimestampArray):
        fr = np.asarray(arr["second_fractions"]).astype("<u8")
        se = np.asarray(arr["seconds"]).astype("<i8")
        return [struct.pack("<Qq", int(f), int(s)).hex() for f, s in zip(fr, se)]
    if isinstance(arr, list) or (isinstance(arr, np.ndarray) and arr.dtype == np.dtype("O")):
        return [(x.encode("utf-8") if isinstance(x, str) else bytes(x)).hex() for x in arr]
    arr = np.asarray(arr)
    le = arr.astype(arr.dtype.newbyteorder("<"), copy=False)
    raw = np.ascontiguousarray(le).tobytes()
    w = arr.dtype.itemsize
    return [raw[i * w:(i + 1) * w].hex() for i in range(len(arr))]


def scalar_hex(v):
    """hex of the canonical bytes of one element returned by channel[i]"""
    from nptdms.timestamp import TdmsTimestamp
    if isinstance(v, str):
        return v.encode("utf-8").hex()
    if isinstance(v, TdmsTimestamp):
        return struct.pack("<Qq", int(v.second_fractions), int(v.seconds)).hex()
    a = np.array([v])
    return a.astype(a.dtype.newbyteorder("<"), copy=False).tobytes().hex()


def prop_value(val):
    """(kind, payload) of a property value object returned by npTDMS"""
    from nptdms.timestamp import TdmsTimestamp
    if isinstance(val, (bool, np.bool_)):
        return ("b", int(val))
    if isinstance(val, (int, np.integer)):
        return ("i", int(val))
    if isinstance(val, (float, np.floating)):
        return ("f", struct.pack("<d", float(val)).hex())
    if isinstance(val, str):
        return ("s", val.encode("utf-8", "surrogatepass").hex())
    if isinstance(val, TdmsTimestamp):
        return ("t", (int(val.seconds), int(val.second_fractions)))
    if isinstance(val, np.datetime64):
        return ("d", int(val.astype("datetime64[us]").astype("int64")))
    return ("?", repr(val))


def model_prop_value(ty, valhex):
    """the same (kind, payload) computed from the model's (type code, canonical bytes)"""
    b = bytes.fromhex(valhex)
    if ty == 0x20:
        try:
            return ("s", b.decode("utf-8").encode("utf-8", "surrogatepass").hex())
        except UnicodeDecodeError:
            return ("s", b.decode("utf-8", errors="replace").encode("utf-8").hex())
    if ty == 0x44:
        fr, se = struct.unpack("<Qq", b)
        return ("t", (se, fr))
    if ty == 0x21:
        return ("b", int(b[0] != 0))
    fmt = STRUCT_FMT[ty]
    v = struct.unpack("<" + fmt, b)[0]
    if fmt in "fd":
        return ("f", struct.pack("<d", v).hex())
    return ("i", int(v))


def dump_reader(reader):
    """segments and object metadata of a TdmsReader, in the model's JSON shape"""
    from nptdms.daqmx import DaqmxSegmentObject
    segs = []
    for s in reader._segments:
        ov = s.final_chunk_lengths_override
        segs.append(dict(
            pos=int(s.position), toc=int(s.toc_mask) & 0xFFFFFFFF, dataPos=int(s.data_position),
            nextPos=int(s.next_segment_pos), numChunks=int(s.num_chunks), incomplete=bool(s.segment_incomplete),
            override=None if ov is None else [[p.encode("utf-8").hex(), int(n)] for p, n in ov.items()],
            objects=[[o.path.encode("utf-8").hex(), bool(o.has_data), int(o.number_values), int(o.data_size),
                      None if o.data_type is None else int(o.data_type.enum_value), isinstance(o, DaqmxSegmentObject)]
                     for o in s.ordered_objects]))
    objs = []
    for path, m in reader.object_metadata.items():
        objs.append(dict(
            path=path.encode("utf-8").hex(),
            ty=None if m.data_type is None else int(m.data_type.enum_value),
            scalerTypes=None if m.scaler_data_types is None else [[int(k), int(v.enum_value)] for k, v in m.scaler_data_types.items()],
            numValues=int(m.num_values),
            props=[[k.encode("utf-8").hex(), prop_value(v)] for k, v in m.properties.items()]))
    return dict(version=None if reader.tdms_version is None else int(reader.tdms_version), segments=segs, objects=objs)


def dump_channels_eager(tdms_file):
    """raw data of every channel of an eagerly read file (raw_timestamps=True)"""
    out = []
    for g in tdms_file.groups():
        for c in g.channels():
            rd = c._raw_data
            if rd is None:
                continue
            data = value_bytes(rd.data) if rd.data is not None else None
            scalers = [[int(k), value_bytes(v)] for k, v in rd.scaler_data.items()] if rd.scaler_data else []
            if c.data_type is not None and c.data_type.enum_value == 0xFFFFFFFF:
                data = None
            out.append(dict(path=c.path.encode("utf-8").hex(), data=data, scalers=scalers))
    return out


class PartialReadinto(io.BytesIO):
    """an in-memory binary stream whose `readinto` delivers at most `cap` bytes per call (as the io documentation allows for raw
    streams); `read(n)` stays complete, so only bulk reads through readinto are split up"""

    def __init__(self, data, cap):
        super().__init__(data)
        self.cap = cap

    def readinto(self, b):
        view = memoryview(b).cast("B")
        return super().readinto(view[:self.cap] if len(view) > self.cap else view)


def real_read(data, nptdms=None, eager=True, stream=io.BytesIO):
    """TdmsFile.read / TdmsFile.open on a BytesIO -> dict in the model's `read` shape"""
    nptdms = nptdms or import_nptdms()
    try:
        if eager:
            f = nptdms.TdmsFile.read(stream(data), raw_timestamps=True)
        else:
            f = nptdms.TdmsFile.open(stream(data), raw_timestamps=True)
    except Exception as ex:  # noqa
        return dict(ok=False, err=err_kind(ex), exc="%s: %s" % (type(ex).__name__, str(ex)[:200])), None
    d = dump_reader(f._reader)
    d["ok"] = True
    if eager:
        d["channels"] = dump_channels_eager(f)
    d["groups"] = [[g.name.encode("utf-8", "surrogatepass").hex(), [c.name.encode("utf-8", "surrogatepass").hex() for c in g.channels()]] for g in f.groups()]
    return d, f


def model_props_normalised(props):
    return [[name, list(model_prop_value(ty, val))] for name, ty, val in props]


def norm(x):
    """JSON-normalise tuples to lists"""
    if isinstance(x, tuple):
        return [norm(y) for y in x]
    if isinstance(x, list):
        return [norm(y) for y in x]
    if isinstance(x, dict):
        return {k: norm(v) for k, v in x.items()}
    return x
