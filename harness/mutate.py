#!/venv/bin/python
"""Automated mutation self-test of the checks (a measurement of the machinery, not a check of /repo).

  harness/mutate.py gen  --n 300 --seed 1 --out /tmp/mw/mutants.json
  harness/mutate.py run  --mutants /tmp/mw/mutants.json --workers 8 --out mutation/results.jsonl
  harness/mutate.py report --results mutation/results.jsonl

`gen` makes token-level mutants of the modelled source files (comparison and arithmetic operator slips, off-by-one integer
literals, and/or, True/False, break/continue dropped, is/is not). `run` gives every worker its own scratch worktree of /repo
and its own copy of /verif under /tmp/mw/<k>/ (nothing is ever written to /repo), keeps only the mutants the unedited test
suite does not notice, and runs all twenty quick checks on those with NPTDMS_REPO pointing at the worktree.
A surviving mutant is not necessarily a missed violation: it may be equivalent or outside every property; survivors are
triaged by hand / by sub-agents and recorded in mutation/TRIAGE.md.
"""
import argparse
import io
import json
import os
import random
import shutil
import subprocess
import sys
import time
import tokenize
from concurrent.futures import ThreadPoolExecutor

HERE = os.path.dirname(os.path.abspath(__file__))
VERIF = os.path.dirname(HERE)
FILES = ["reader.py", "tdms_segment.py", "base_segment.py", "tdms.py", "types.py", "timestamp.py", "channel_data.py", "daqmx.py",
         "writer.py", "scaling.py", "thermocouples.py", "common.py"]
OPS = {"<": ["<="], "<=": ["<"], ">": [">="], ">=": [">"], "==": ["!="], "!=": ["=="], "+": ["-"], "-": ["+"], "*": ["//"], "//": ["*", "/"],
       "<<": [">>"], ">>": ["<<"], "+=": ["-="], "-=": ["+="]}
NAMES = {"and": ["or"], "or": ["and"], "True": ["False"], "False": ["True"], "break": ["pass"], "continue": ["pass"], "min": ["max"], "max": ["min"]}
SKIP_LINE_WORDS = ("log.", "raise ", "__repr__", "warnings.", "\"\"\"", "import ", "def __str__", "% (", "% self", "%s", "%d", "%r", "format(")


def gen_for_file(repo, rel):
    path = os.path.join(repo, "nptdms", rel)
    src = open(path).read()
    lines = src.split("\n")
    out = []
    toks = list(tokenize.generate_tokens(io.StringIO(src).readline))
    depth_decorator = False
    for i, t in enumerate(toks):
        line = lines[t.start[0] - 1] if t.start[0] - 1 < len(lines) else ""
        if any(w in line for w in SKIP_LINE_WORDS) or line.strip().startswith(("@", "#")):
            continue
        reps = []
        if t.type == tokenize.OP and t.string in OPS:
            # unary minus / plus and keyword-argument '*' are left alone
            prev = toks[i - 1] if i else None
            if t.string in "+-*" and (prev is None or (prev.type == tokenize.OP and prev.string not in (")", "]", "}")) or prev.type in (tokenize.NEWLINE, tokenize.NL, tokenize.INDENT)
                                     or (prev.type == tokenize.NAME and prev.string in ("return", "in", "and", "or", "not", "if", "else", "lambda", "yield"))):
                continue
            reps = OPS[t.string]
        elif t.type == tokenize.NAME and t.string in NAMES:
            if t.string in ("min", "max") and not (i + 1 < len(toks) and toks[i + 1].string == "("):
                continue
            reps = NAMES[t.string]
        elif t.type == tokenize.NAME and t.string == "is":
            nxt = toks[i + 1]
            if nxt.string == "not":
                out.append(dict(file=rel, line=t.start[0], col=t.start[1], end=nxt.end[1], old="is not", new="is", text=line.strip()))
            else:
                out.append(dict(file=rel, line=t.start[0], col=t.start[1], end=t.end[1], old="is", new="is not", text=line.strip()))
            continue
        elif t.type == tokenize.NUMBER and t.string.isdigit() and int(t.string) < 70:
            n = int(t.string)
            reps = [str(n + 1)] + ([str(n - 1)] if n > 0 else [])
        for r in reps:
            if t.start[0] != t.end[0]:
                continue
            out.append(dict(file=rel, line=t.start[0], col=t.start[1], end=t.end[1], old=t.string, new=r, text=line.strip()))
    return out


def apply_mutant(repo, m):
    path = os.path.join(repo, "nptdms", m["file"])
    lines = open(path).read().split("\n")
    ln = lines[m["line"] - 1]
    assert ln[m["col"]:m["end"]] == m["old"], (ln, m)
    lines[m["line"] - 1] = ln[:m["col"]] + m["new"] + ln[m["end"]:]
    with open(path, "w") as f:
        f.write("\n".join(lines))


def cmd_gen(a):
    rnd = random.Random(a.seed)
    allm = []
    for rel in FILES:
        ms = gen_for_file(a.repo, rel)
        allm += ms
    rnd.shuffle(allm)
    # stratify: at most n/len(FILES)*2 per file
    cap = max(1, 2 * a.n // len(FILES))
    per, out = {}, []
    for m in allm:
        if per.get(m["file"], 0) >= cap:
            continue
        per[m["file"]] = per.get(m["file"], 0) + 1
        out.append(m)
        if len(out) >= a.n:
            break
    for i, m in enumerate(out):
        m["id"] = "a%04d" % i
    os.makedirs(os.path.dirname(os.path.abspath(a.out)), exist_ok=True)
    json.dump(out, open(a.out, "w"), indent=1)
    print("generated %d of %d candidate mutants: %s" % (len(out), len(allm), per))


def sh(cmd, cwd=None, env=None, timeout=None):
    try:
        p = subprocess.run(cmd, cwd=cwd, env=env, stdout=subprocess.PIPE, stderr=subprocess.STDOUT, text=True, timeout=timeout)
        return p.returncode, p.stdout
    except subprocess.TimeoutExpired as ex:
        return 124, (ex.stdout or "") if isinstance(ex.stdout, str) else ""


def setup_worker(k, base):
    d = os.path.join(base, "w%d" % k)
    repo, verif = os.path.join(d, "repo"), os.path.join(d, "verif")
    if not os.path.isdir(repo):
        os.makedirs(d, exist_ok=True)
        rc, out = sh(["git", "-C", "/repo", "worktree", "add", "-q", "--detach", repo, "HEAD"])
        assert rc == 0, out
    if os.path.isdir(verif):
        shutil.rmtree(verif)
    sh(["rsync", "-a", "--exclude", ".git", "--exclude", "replay", "--exclude", "__pycache__", "--exclude", ".build.lock", VERIF + "/", verif + "/"])
    return repo, verif


def run_one(m, repo, verif, checks):
    res = dict(id=m["id"], file=m["file"], line=m["line"], old=m["old"], new=m["new"], text=m["text"])
    sh(["git", "-C", repo, "checkout", "-q", "--", "."])
    apply_mutant(repo, m)
    env = dict(os.environ, PYTHONPATH=repo, PYTHONDONTWRITEBYTECODE="1")
    t0 = time.time()
    rc, out = sh(["/venv/bin/python", "-m", "pytest", "-q", "-x", "-p", "no:cacheprovider", "nptdms/test"], cwd=repo, env=env, timeout=600)
    res["suite_rc"], res["suite_s"] = rc, round(time.time() - t0, 1)
    if rc != 0:
        res["status"] = "killed-by-suite"
        sh(["git", "-C", repo, "checkout", "-q", "--", "."])
        return res
    env2 = dict(os.environ, NPTDMS_REPO=repo)
    env2.pop("PYTHONPATH", None)
    flagged, infra = [], []
    for c in checks:
        rc, out = sh([os.path.join(verif, "check"), c], cwd=verif, env=env2, timeout=900)
        if rc == 1:
            first = [l for l in out.split("\n") if l.startswith("VIOLATION")][:1]
            what = [l.strip() for l in out.split("\n") if l.startswith("  ")][:1]
            flagged.append(dict(check=c, line=(first or [""])[0], what=(what or [""])[0][:300]))
        elif rc != 0:
            infra.append(dict(check=c, rc=rc, tail=out[-300:]))
    res["flagged"], res["infra"] = flagged, infra
    res["status"] = "caught" if flagged else ("infra" if infra else "survived")
    res["total_s"] = round(time.time() - t0, 1)
    sh(["git", "-C", repo, "checkout", "-q", "--", "."])
    shutil.rmtree(os.path.join(verif, "replay"), ignore_errors=True)
    return res


def cmd_run(a):
    muts = json.load(open(a.mutants))
    done = set()
    if os.path.exists(a.out):
        for l in open(a.out):
            done.add(json.loads(l)["id"])
    muts = [m for m in muts if m["id"] not in done]
    checks = a.checks.split(",") if a.checks else ["C%02d" % i for i in range(1, 21)]
    workers = [setup_worker(k, a.base) for k in range(a.workers)]
    os.makedirs(os.path.dirname(os.path.abspath(a.out)), exist_ok=True)
    import queue
    import threading
    q = queue.Queue()
    for m in muts:
        q.put(m)
    lock = threading.Lock()

    def work(k):
        repo, verif = workers[k]
        while True:
            try:
                m = q.get_nowait()
            except queue.Empty:
                return
            try:
                r = run_one(m, repo, verif, checks)
            except Exception as ex:  # noqa
                r = dict(id=m["id"], status="error", error=repr(ex))
            with lock:
                with open(a.out, "a") as f:
                    f.write(json.dumps(r) + "\n")
                print(r["id"], r.get("status"), r.get("file"), r.get("line"), r.get("old"), "->", r.get("new"), [x["check"] for x in r.get("flagged", [])], flush=True)
    with ThreadPoolExecutor(a.workers) as ex:
        list(ex.map(work, range(a.workers)))
    if a.cleanup:
        for k in range(a.workers):
            sh(["git", "-C", "/repo", "worktree", "remove", "--force", workers[k][0]])
        shutil.rmtree(a.base, ignore_errors=True)


def cmd_seeded(a):
    """every seeded change (seeded/<id>/patch.diff) x all twenty quick checks, in scratch worktrees; writes seeded/<id>/result.json
    and seeded/MATRIX.md"""
    import queue
    import threading
    ids = sorted(d for d in os.listdir(os.path.join(VERIF, "seeded")) if os.path.isfile(os.path.join(VERIF, "seeded", d, "patch.diff")))
    if a.only:
        ids = [i for i in ids if i in a.only.split(",")]      # "--only none" just regenerates MATRIX.md from the stored results
    checks = ["C%02d" % i for i in range(1, 21)]
    workers = [setup_worker(k, a.base) for k in range(a.workers)]
    q = queue.Queue()
    for i in ids:
        q.put(i)
    results, lock = {}, threading.Lock()

    def work(k):
        repo, verif = workers[k]
        while True:
            try:
                sid = q.get_nowait()
            except queue.Empty:
                return
            sh(["git", "-C", repo, "checkout", "-q", "--", "."])
            rc, out = sh(["git", "-C", repo, "apply", os.path.join(VERIF, "seeded", sid, "patch.diff")])
            if rc != 0:
                # the tree has moved on since the change was written (later fix: commits): apply with fuzz
                rc, out = sh(["sh", "-c", "cd %s && patch -p1 --fuzz=3 --no-backup-if-mismatch < %s" % (repo, os.path.join(VERIF, "seeded", sid, "patch.diff"))])
            res = dict(id=sid, applies=(rc == 0), flagged={}, infra=[])
            if rc == 0:
                env2 = dict(os.environ, NPTDMS_REPO=repo)
                for c in checks:
                    rc2, o = sh([os.path.join(verif, "check"), c], cwd=verif, env=env2, timeout=1200)
                    if rc2 == 1:
                        vl = [l for l in o.split("\n") if l.startswith("VIOLATION")]
                        what = [l.strip() for l in o.split("\n") if l.startswith("  ")][:1]
                        res["flagged"][c] = dict(no_input=all("no-failing-input-found" in l for l in vl), what=(what or [""])[0][:240])
                    elif rc2 != 0:
                        res["infra"].append(c)
            sh(["git", "-C", repo, "checkout", "-q", "--", "."])
            shutil.rmtree(os.path.join(verif, "replay"), ignore_errors=True)
            with lock:
                results[sid] = res
                json.dump(res, open(os.path.join(VERIF, "seeded", sid, "result.json"), "w"), indent=1)
                print(sid, "applies" if res["applies"] else "DOES NOT APPLY", sorted(res["flagged"]), res["infra"], flush=True)
    with ThreadPoolExecutor(a.workers) as ex:
        list(ex.map(work, range(a.workers)))
    lines = ["# Seeded changes x checks (quick tier, seed 0)", "",
             "`X` = the check reports a violation with a failing input; `x` = only through a broken obligation / correspondence (`no-failing-input-found`).", "",
             "| seeded change | own | " + " | ".join(c[1:] for c in checks) + " |", "|---|---|" + "---|" * len(checks)]
    all_ids = sorted(d for d in os.listdir(os.path.join(VERIF, "seeded")) if os.path.isfile(os.path.join(VERIF, "seeded", d, "result.json")))
    for sid in all_ids:
        r = results.get(sid) or json.load(open(os.path.join(VERIF, "seeded", sid, "result.json")))
        own = sid[:3]
        try:
            own = json.load(open(os.path.join(VERIF, "seeded", sid, "meta.json"))).get("violates", own)
        except Exception:  # noqa
            pass
        cells = [("x" if r["flagged"][c]["no_input"] else "X") if c in r["flagged"] else ("!" if c in r["infra"] else "") for c in checks]
        lines.append("| %s | %s | %s |" % (sid, ("caught" if own == sid[:3] else "caught by %s (see meta.json)" % own) if own in r["flagged"] else ("patch does not apply" if not r["applies"] else "**MISSED**"), " | ".join(cells)))
    open(os.path.join(VERIF, "seeded", "MATRIX.md"), "w").write("\n".join(lines) + "\n")
    if a.cleanup:
        for k in range(a.workers):
            sh(["git", "-C", "/repo", "worktree", "remove", "--force", workers[k][0]])
        shutil.rmtree(a.base, ignore_errors=True)


def cmd_report(a):
    rs = [json.loads(l) for l in open(a.results)]
    by = {}
    for r in rs:
        by.setdefault(r["status"], []).append(r)
    print("mutants: %d; %s" % (len(rs), {k: len(v) for k, v in by.items()}))
    alive = len(by.get("caught", [])) + len(by.get("survived", []))
    if alive:
        print("of the %d mutants the test suite does not notice, the checks flag %d (%.0f%%)" % (alive, len(by.get("caught", [])), 100.0 * len(by.get("caught", [])) / alive))
    for r in by.get("survived", []):
        print("SURVIVED %s %s:%d  %s -> %s   | %s" % (r["id"], r["file"], r["line"], r["old"], r["new"], r["text"][:110]))
    for r in by.get("infra", []):
        print("INFRA %s %s:%d %s" % (r["id"], r["file"], r["line"], r["infra"][:1]))


if __name__ == "__main__":
    ap = argparse.ArgumentParser()
    sub = ap.add_subparsers(dest="cmd")
    g = sub.add_parser("gen"); g.add_argument("--n", type=int, default=300); g.add_argument("--seed", type=int, default=1)
    g.add_argument("--repo", default="/repo"); g.add_argument("--out", default="/tmp/mw/mutants.json")
    r = sub.add_parser("run"); r.add_argument("--mutants", default="/tmp/mw/mutants.json"); r.add_argument("--workers", type=int, default=6)
    r.add_argument("--out", default=os.path.join(VERIF, "mutation", "results.jsonl")); r.add_argument("--base", default="/tmp/mw")
    r.add_argument("--checks", default=""); r.add_argument("--cleanup", action="store_true")
    sd = sub.add_parser("seeded"); sd.add_argument("--workers", type=int, default=6); sd.add_argument("--base", default="/tmp/mwseed")
    sd.add_argument("--only", default=""); sd.add_argument("--cleanup", action="store_true")
    p = sub.add_parser("report"); p.add_argument("--results", default=os.path.join(VERIF, "mutation", "results.jsonl"))
    a = ap.parse_args()
    {"gen": cmd_gen, "run": cmd_run, "report": cmd_report, "seeded": cmd_seeded}[a.cmd](a)
