"""Generator of NI_Scale property sets (scale graphs) and of the files carrying them."""
import struct
from fractions import Fraction

from gen_files import path_of
from leanio import hx

RAW = 0xFFFFFFFF
NUMERIC = {1: ("b", "i1"), 2: ("h", "i2"), 3: ("i", "i4"), 4: ("q", "i8"), 5: ("B", "u1"), 6: ("H", "u2"), 7: ("I", "u4"), 8: ("Q", "u8"), 9: ("f", "f4"), 10: ("d", "f8")}
STRUCTURAL = ["Linear", "Polynomial", "Table", "Add", "Subtract"]
SENSORS = ["RTD", "Strain", "Thermistor", "Thermocouple"]


def dy(rnd, lo, hi, bits=3):
    return rnd.randint(int(lo * 2 ** bits), int(hi * 2 ** bits)) / 2.0 ** bits


def P_u32(name, v):
    return (name.encode(), 7, struct.pack("<I", v))


def P_f64(name, v):
    return (name.encode(), 10, struct.pack("<d", v))


def P_str(name, v):
    return (name.encode(), 0x20, v.encode())


def P_i32(name, v):
    return (name.encode(), 3, struct.pack("<i", v))


def sensor_props(rnd, i, kind, src):
    pre = "NI_Scale[%d]_%s" % (i, kind)
    if kind == "RTD":
        return [P_f64(pre + "_Current_Excitation", 1e-3), P_f64(pre + "_R0_Nominal_Resistance", 100.0), P_f64(pre + "_A", 3.9083e-3), P_f64(pre + "_B", -5.775e-7),
                P_f64(pre + "_C", -4.183e-12), P_f64(pre + "_Lead_Wire_Resistance", 0.0), P_u32(pre + "_Resistance_Configuration", 3), P_u32(pre + "_Input_Source", src)]
    if kind == "Strain":
        return [P_i32(pre + "_Configuration", rnd.choice([10183, 10184, 10185, 10188, 10189, 10271])), P_f64(pre + "_Poisson_Ratio", 0.3),
                P_f64(pre + "_Gage_Resistance", 350.0), P_f64(pre + "_Lead_Wire_Resistance", 0.0), P_f64(pre + "_Initial_Bridge_Voltage", 0.0),
                P_f64(pre + "_Gage_Factor", 2.0), P_f64(pre + "_Bridge_Shunt_Calibration_Gain_Adjustment", 1.0), P_f64(pre + "_Voltage_Excitation", 2.5),
                P_u32(pre + "_Input_Source", src)]
    if kind == "Thermistor":
        return [P_i32(pre + "_Excitation_Type", 10134), P_f64(pre + "_Excitation_Value", 1e-4), P_u32(pre + "_Resistance_Configuration", 4),
                P_f64(pre + "_R1_Reference_Resistance", 0.0), P_f64(pre + "_Lead_Wire_Resistance", 0.0), P_f64(pre + "_A", 1.129e-3), P_f64(pre + "_B", 2.341e-4),
                P_f64(pre + "_C", 8.775e-8), P_f64(pre + "_Temperature_Offset", 273.15), P_u32(pre + "_Input_Source", src)]
    out = [P_u32(pre + "_Thermocouple_Type", rnd.choice([10072, 10073, 10086])), P_u32(pre + "_Scaling_Direction", rnd.choice([0, 1]))]
    if src != RAW or rnd.random() < 0.5:
        out.append(P_u32(pre + "_Input_Source", src))
    return out


def draw_graph(rnd, n=None, types=STRUCTURAL, with_noop=False, with_number=None, first_scales_daqmx=0, forward=False):
    """returns (props list, graph description) ; graph[i] = (type, params...) for the Python-side oracle"""
    n = n or rnd.randint(1, 5)
    props, graph = [], []
    total = n + first_scales_daqmx
    for k in range(first_scales_daqmx):
        graph.append(("daqmx", k))
    for j in range(n):
        i = j + first_scales_daqmx
        avail = list(range(i))

        def src():
            if not avail or rnd.random() < 0.35:
                return RAW if first_scales_daqmx == 0 else rnd.choice(avail)
            return rnd.choice(avail)
        t = rnd.choice(types + (["AdvancedAPI"] if with_noop else []))
        pre = "NI_Scale[%d]" % i
        props.append(P_str(pre + "_Scale_Type", t))
        if t == "Linear":
            s, m, b = src(), dy(rnd, -4, 4), dy(rnd, -8, 8)
            props += [P_f64(pre + "_Linear_Slope", m), P_f64(pre + "_Linear_Y_Intercept", b)]
            if s != RAW or rnd.random() < 0.5:
                props.append(P_u32(pre + "_Linear_Input_Source", s))
            graph.append(("linear", m, b, s))
        elif t == "Polynomial":
            s = src()
            k = rnd.choice([0, 1, 2, 3, 4, 4, 11, 12])      # two-digit coefficient indexes are a size class of their own
            # higher coefficients shrink by 2^-8 per degree so that long polynomials stay well conditioned in binary64 (the oracle is
            # exact; a cancelling degree-11 polynomial evaluated in doubles legitimately differs from it by far more than 1e-12)
            cs = [dy(rnd, -2, 2) if q < 4 else dy(rnd, -1, 1, 1) / 2.0 ** (8 * (q - 3)) for q in range(k)]
            explicit = k != 4 or rnd.random() < 0.5
            if explicit:
                props.append(P_u32(pre + "_Polynomial_Coefficients_Size", k))
            props += [P_f64(pre + "_Polynomial_Coefficients[%d]" % q, c) for q, c in enumerate(cs)]
            if s != RAW or rnd.random() < 0.5:
                props.append(P_u32(pre + "_Polynomial_Input_Source", s))
            graph.append(("polynomial", cs, s))
        elif t == "Table":
            s = src()
            m_ = rnd.randint(2, 5)
            xs = sorted(set(dy(rnd, -16, 16, 2) for _ in range(m_)))
            while len(xs) < 2:
                xs = sorted(set(xs + [dy(rnd, -16, 16, 2)]))
            ys = [dy(rnd, -8, 8, 2) for _ in xs]
            if rnd.random() < 0.3:
                xs, ys = xs[::-1], ys[::-1]
            props += [P_u32(pre + "_Table_Scaled_Values_Size", len(xs)), P_u32(pre + "_Table_Pre_Scaled_Values_Size", len(ys))]
            props += [P_f64(pre + "_Table_Scaled_Values[%d]" % q, v) for q, v in enumerate(xs)]
            props += [P_f64(pre + "_Table_Pre_Scaled_Values[%d]" % q, v) for q, v in enumerate(ys)]
            if s != RAW or rnd.random() < 0.5:
                props.append(P_u32(pre + "_Table_Input_Source", s))
            graph.append(("table", xs, ys, s))
        elif t in ("Add", "Subtract"):
            l, r = src(), src()
            props += [P_u32(pre + "_%s_Left_Operand_Input_Source" % t, l), P_u32(pre + "_%s_Right_Operand_Input_Source" % t, r)]
            graph.append((t.lower(), l, r))
        elif t == "AdvancedAPI":
            s = src()
            if s != RAW or rnd.random() < 0.5:
                props.append(P_u32(pre + "_AdvancedAPI_Input_Source", s))
            graph.append(("noop", s))
        else:
            s = src()
            props[-1] = P_str(pre + "_Scale_Type", t)
            props += sensor_props(rnd, i, t, s)
            graph.append(("sensor", t, s))
    if forward and first_scales_daqmx == 0 and n >= 3:
        props, graph = permute_indices(rnd, props, graph)
    if with_number is None:
        with_number = rnd.random() < 0.6
    if with_number or first_scales_daqmx:
        props.insert(0, P_u32("NI_Number_Of_Scales", total))
    rnd.shuffle(props)
    return props, graph


SOURCE_POS = {"linear": [3], "polynomial": [2], "table": [3], "add": [1, 2], "subtract": [1, 2], "noop": [1], "sensor": [2]}


def permute_indices(rnd, props, graph):
    """the same dataflow graph with the scale indices below the last one permuted: a scale may then take its input from a scale
    with a HIGHER index (still acyclic; the output stays the scale with the highest index)"""
    import re
    n = len(graph)
    order = list(range(n - 1))
    rnd.shuffle(order)
    perm = {old: new for new, old in enumerate(order)}
    perm[n - 1] = n - 1
    out_props = []
    for name, ty, val in props:
        nm = name.decode()
        m = re.match(r"NI_Scale\[(\d+)\](.*)$", nm)
        if m:
            nm = "NI_Scale[%d]%s" % (perm[int(m.group(1))], m.group(2))
            if nm.endswith("Input_Source") and ty == 7:
                v = struct.unpack("<I", val)[0]
                if v != RAW:
                    val = struct.pack("<I", perm[v])
        out_props.append((nm.encode(), ty, val))
    new_graph = [None] * n
    for old, node in enumerate(graph):
        node = list(node)
        for pos in SOURCE_POS.get(node[0], []):
            if node[pos] != RAW:
                node[pos] = perm[node[pos]]
        new_graph[perm[old]] = tuple(node)
    return out_props, new_graph


# largest absolute value among the intermediate results (node values, polynomial terms) of the last eval_graph call: binary64
# evaluation of the same graph is only accurate relative to THAT magnitude ((s0 + s1) - s1 with |s1| >> |s0| legitimately gives 0)
LAST_MAGNITUDE = Fraction(0)


class Wraps(Exception):
    """an integer-typed intermediate result does not fit the raw integer dtype: NumPy wraps, outside the property"""


def eval_graph(graph, raw, scalers=None, int_range=None):
    """independent evaluation of the dataflow graph in exact rationals (the C13 oracle).
    int_range = (lo, hi) of the raw dtype when it is an integer type: Add/Subtract/AdvancedAPI of integer-typed inputs stay
    integer-typed in NumPy; if such a result leaves the range the case is reported through `Wraps`."""
    global LAST_MAGNITUDE
    LAST_MAGNITUDE = Fraction(0)
    # evaluation order: every scale after the scales it reads (indices need not be increasing)
    order, seen = [], set()

    def visit(i, depth=0):
        if i in seen or depth > len(graph):
            return
        seen.add(i)
        for pos in SOURCE_POS.get(graph[i][0], []):
            if graph[i][pos] != RAW:
                visit(graph[i][pos], depth + 1)
        order.append(i)
    for i in range(len(graph)):
        visit(i)
    vals = [None] * len(graph)
    is_int = [None] * len(graph)
    for idx in order:
        node = graph[idx]
        done = [v for v in vals if v is not None]
        if done:
            LAST_MAGNITUDE = max([LAST_MAGNITUDE] + [abs(v) for v in done])

        def inp(s):
            return Fraction(raw) if s == RAW else vals[s]

        def inp_int(s):
            return (int_range is not None) if s == RAW else is_int[s]
        k = node[0]
        if k == "daqmx":
            vals[idx] = (Fraction(scalers[node[1]]))
            is_int[idx] = (int_range is not None)
            continue
        if k in ("add", "subtract"):
            is_int[idx] = (inp_int(node[1]) and inp_int(node[2]))
        elif k == "noop":
            is_int[idx] = (inp_int(node[1]))
        else:
            is_int[idx] = (False)
        if False:
            pass
        elif k == "linear":
            vals[idx] = (inp(node[3]) * Fraction(node[1]) + Fraction(node[2]))
        elif k == "polynomial":
            x = inp(node[2])
            terms = [Fraction(c) * x ** q for q, c in enumerate(node[1])]
            LAST_MAGNITUDE = max([LAST_MAGNITUDE] + [abs(t) for t in terms])
            vals[idx] = (sum(terms))
        elif k == "table":
            xs, ys = node[1], node[2]
            if xs[0] > xs[-1]:
                xs, ys = xs[::-1], ys[::-1]
            x = inp(node[3])
            if x <= xs[0]:
                vals[idx] = (Fraction(ys[0]))
            elif x >= xs[-1]:
                vals[idx] = (Fraction(ys[-1]))
            else:
                j = max(q for q in range(len(xs) - 1) if xs[q] <= x)
                vals[idx] = (Fraction(ys[j]) + (Fraction(ys[j + 1]) - Fraction(ys[j])) / (Fraction(xs[j + 1]) - Fraction(xs[j])) * (x - Fraction(xs[j])))
        elif k == "add":
            vals[idx] = (inp(node[1]) + inp(node[2]))
        elif k == "subtract":
            vals[idx] = (inp(node[2]) - inp(node[1]))
        elif k == "noop":
            vals[idx] = (inp(node[1]))
        else:
            raise ValueError(k)
        if is_int[idx] and not (int_range[0] <= vals[idx] <= int_range[1]):
            raise Wraps()
    return vals[len(graph) - 1]


def prop_token(p):
    name, ty, val = p
    if ty == 0x20:
        return "%s s:%s" % (hx(name), hx(val))
    if ty in (7, 5, 6, 8):
        return "%s u:%d" % (hx(name), int.from_bytes(val, "little"))
    if ty == 3:
        return "%s u:%d" % (hx(name), struct.unpack("<i", val)[0]) if struct.unpack("<i", val)[0] >= 0 else "%s n:%d" % (hx(name), struct.unpack("<i", val)[0])
    v = Fraction(struct.unpack("<d", val)[0])
    return "%s n:%d/%d" % (hx(name), v.numerator, v.denominator)


def raw_values(rnd, ty, n):
    fmt, kind = NUMERIC[ty]
    if kind[0] == "u":
        vals = [rnd.randint(0, 40) for _ in range(n)]
    elif kind[0] == "i":
        vals = [rnd.randint(-20, 20) for _ in range(n)]
    else:
        vals = [dy(rnd, -16, 16, 2) for _ in range(n)]
    return vals, [struct.pack("<" + fmt, v) for v in vals]


def one_channel_file(ty, chunks_vals, chan_props, group_props, root_props, nseg=1, big=False, order="rgc", interleaved=False, names=("g", "c")):
    """file encoding with a root, a group and one channel; chunks_vals: list (per segment) of list of packed values.
    order: "rgc" root, group, channel (what writers produce); "cgr" the channel is listed BEFORE its group and the root;
    "late" the group and root objects only appear in the last segment (after the channel's first data)."""
    pc = path_of(*names)
    segs = []
    for si, vals in enumerate(chunks_vals):
        objs = []
        parents = [dict(path=path_of(), idx=("N",), props=root_props), dict(path=path_of(names[0]), idx=("N",), props=group_props)]
        if order == "rgc" and si == 0:
            objs += parents
        objs.append(dict(path=pc, idx=("F", ty, len(vals), 0), props=chan_props if si == 0 else []))
        if (order == "cgr" and si == 0) or (order == "late" and si == len(chunks_vals) - 1):
            objs += parents[::-1]
        segs.append(dict(hasMeta=True, newList=True, interleaved=interleaved, big=big, rawFlag=True, daqmxFlag=False, lengthUnknown=False, version=4713,
                         padding=0, objs=objs, chunks=[[vals]] if vals else []))
    return segs
