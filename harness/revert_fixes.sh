#!/bin/bash
# self-test (not a registered command): needs a scratch worktree of /repo at /tmp/mut/verify (git -C /repo worktree add --detach /tmp/mut/verify)
# for every fixed: line, re-introduce the defect in the scratch worktree and run the property's quick check
cd /verif
/venv/bin/python - <<'PY' > /tmp/nptdms_verif_fixed_list.txt
import json,re
d=json.load(open('/verif/known_findings.json'))
for l in d['fixed']:
    m=re.match(r'fixed: property=(C\d\d) ([0-9a-f]+) (D\d+)',l)
    print(m.group(1),m.group(2),m.group(3))
PY
while read prop h dn; do
  git -C /tmp/mut/verify checkout -q -- .
  if git -C /repo diff $h^ $h -- nptdms | git -C /tmp/mut/verify apply -R 2>/dev/null; then
    rm -rf replay
    out=$(NPTDMS_REPO=/tmp/mut/verify ./check $prop 2>&1 | grep -E "^(OK|FAIL|VIOLATION|INFRA)" | head -2 | tr '\n' ' ')
    echo "$dn $prop $h :: ${out:0:200}"
    if [ -f replay/$prop-0-0.json ] && [ -d corpus/$prop ] ; then /venv/bin/python harness/promote.py replay/$prop-0-0.json regression-$dn "defect $dn re-introduced (fix $h reverted)" >/dev/null; fi
  else
    echo "$dn $prop $h :: revert does not apply"
  fi
done < /tmp/nptdms_verif_fixed_list.txt
git -C /tmp/mut/verify checkout -q -- .
rm -rf replay
/venv/bin/python harness/translate.py > /dev/null
