"""Levels claimed per property. A property is claimed at `proof` only when its headline theorems are in
lean/TdmsProofs/Properties and listed in lean/obligations.json; otherwise at `translation_validation`."""

COMMON_NOTE = ("Trusted: Lean 4.33 kernel (+ leanchecker in the thorough tier), axioms ⊆ {propext, Classical.choice, Quot.sound}; the translator "
               "(harness/translate.py) and the correspondence harness; CPython/NumPy primitives, IEEE-754 evaluation and the OS are modelled, not verified. ")

CHECKS = {
    "C01": dict(category="translation_validation",
                text="Executable Lean model of the reader (lead-in, metadata state machine, chunk arithmetic, contiguous/interleaved/DAQmx decoders, receivers) "
                     "compared with the real TdmsFile.read on files produced by an independent Lean spec encoder, on the repo's example files and on all scenario "
                     "files; the spec's reference meaning (denote) is the oracle for the real read. Layer theorems are being added; until the headline theorem exists "
                     "this is claimed as validation of the model against the code, not as proof.",
                level_note=COMMON_NOTE + "The format spec is our reading of the NI layout, validated on LabVIEW-made files.",
                technique="Lean 4 executable model + differential correspondence + spec oracle"),
    "C03": dict(category="translation_validation",
                text="Model chunk streams and eager data vs the real ones; on the real code all access paths x {memmap} x {raw_timestamps} x {path, stream} are compared "
                     "pairwise. The Lean theorems relating the lazy and eager model paths are not yet registered, so this is claimed as model validation + oracle.",
                level_note=COMMON_NOTE + "memmap_dir is modelled as the identity.",
                technique="Lean 4 executable model + differential correspondence + agreement oracle"),
    "C04": dict(category="translation_validation",
                text="Lean lazy-read model (index, start/end segment search, chunk trimming, slice normalisation, index cache) vs real read_data/slices/indices, "
                     "exhaustive per file for small channels; oracle = NumPy semantics on the eager array. Window theorem not yet registered.",
                level_note=COMMON_NOTE,
                technique="Lean 4 executable model + differential correspondence + NumPy-slice oracle"),
    "C05": dict(category="translation_validation",
                text="Lean open-file state machine (file position, chunk caches, suspended generators as explicit states) vs one real TdmsFile.open object under random "
                     "operation histories; oracle = same op on a fresh file / uninterrupted fresh iterator. History-independence theorem not yet registered.",
                level_note=COMMON_NOTE + "Single-threaded histories only.",
                technique="Lean 4 state-machine model + history correspondence + fresh-file oracle"),
    "C12": dict(category="proof",
                text="Integer theorems for all values (no enumeration): microsecond write/read round trip for every datetime incl. pre-1904 and far dates "
                     "(encodeFloor_decode), tolerance band for double-precision writers, conversion within one unit and monotone for s/ms/us/ns, scalar = array "
                     "(limb multiplication exact for all 64-bit operands), raw bytes round trip in both byte orders, time_track over any field, the absolute track within one unit of the relative one "
                     "(absolute_track_within_one_unit; the source shape of time_track is re-extracted and tied, time_track_source_tied); constants are "
                     "re-extracted from the source on every run (constants_tied). Tied to the code by a correspondence check of the executable model against "
                     "TimeStamp / TdmsTimestamp / TimestampArray (thorough: all 10^6 microsecond values).",
                level_note=COMMON_NOTE + "np.linspace and float multiplication in time_track are measured, not proved.",
                technique="Lean 4 proof (omega/arith) + translator + differential correspondence"),
    "C16": dict(category="proof",
                text="path_roundtrip / path_injective / object_path_roundtrip / object_path_injective proved by induction for all strings over any alphabet with "
                     "distinct quote and slash; the scanner model follows _path_components literally (zip_longest pairs, StopIteration exits) and is compared with "
                     "the real functions exhaustively on small strings and on random unicode; end-to-end through TdmsWriter and TdmsFile.",
                level_note=COMMON_NOTE + "Python str is modelled as a list of code points; UTF-8 injectivity is assumed.",
                technique="Lean 4 proof by induction + exhaustive small-scope correspondence"),
    "C17": dict(category="proof",
                text="Exact inverse identities over ℝ / arbitrary fields: RTD quadratic branch, quartic coefficients and uniqueness of the negative root, thermistor "
                     "(current and voltage excitation, Steinhart-Hart), all seven bridge types with gain / lead / initial voltage, Horner = polynomial, table = clamped "
                     "piecewise-linear interpolation. The transcribed formulas are run over ℚ against the real scale(); scale(law(x)) = x is measured to 1e-6.",
                level_note=COMMON_NOTE + "Floating-point accuracy and numpy.polyroots are measured, not proved (rtd_*_partial).",
                technique="Lean 4 + Mathlib proof (field_simp/ring) + evaluation of the Lean definitions over ℚ against the code"),
    "C19": dict(category="translation_validation",
                text="The model's I/O trace of every window / slice / index read equals the byte ranges seen by a recording stream under the real code; oracle = bound "
                     "formula on the real trace (tags of touched segments + channel bytes of overlapping chunks; cached index reads fetch nothing). Trace-bound theorem "
                     "not yet registered.",
                level_note=COMMON_NOTE + "Observation point is the stream handed to TdmsFile.open.",
                technique="Lean 4 executable model with I/O trace + trace correspondence + bound oracle"),
}

PENDING = "check under construction in this round (model and theorems not yet registered); not a statement that the technique cannot apply"
NOT_APPLICABLE = {k: PENDING for k in ("C02", "C06", "C07", "C08", "C09", "C10", "C11", "C13", "C14", "C15", "C18", "C20")}

CHECKS.update({
    "C02": dict(category="translation_validation",
                text="Reader model vs real reader on every encoding incl. per-segment object lists after the whole file (aliasing); oracle: real read of an encoding equals "
                     "real read of its explicit normal form produced by the Lean spec, forbidden encodings are rejected; exhaustive small scope in the thorough tier. "
                     "Refinement theorem for the metadata state machine not yet registered.",
                level_note=COMMON_NOTE, technique="Lean 4 executable model + normal-form oracle + small-scope enumeration"),
    "C06": dict(category="translation_validation",
                text="Reader and lazy models on every prefix of generated files vs the real reader; oracle: no exception, prefix of the uncut read, whole segments kept, "
                     "len = values, lazy = eager, file_status exact. Truncation theorem not yet registered.",
                level_note=COMMON_NOTE, technique="Lean 4 executable model + exhaustive cut enumeration per file + prefix oracle"),
    "C07": dict(category="translation_validation",
                text="Lean writer model (object insertion/order, metadata, raw index, property typing, data serialisation, _infer_dtype) equals the real TdmsWriter byte for byte "
                     "(data and index); oracle: real write -> real read = promised content incl. TDMS type of every property via the strict parser. Headline theorems not yet registered.",
                level_note=COMMON_NOTE, technique="Lean 4 executable model + byte-equality correspondence + read-back oracle"),
    "C08": dict(category="translation_validation",
                text="Strict structural parser written from the format description (lean/Tdms/Spec/Parse.lean, not the reader model) applied to the bytes the real writer emits: "
                     "offsets, every length field, metadata extent, data length, string offset tables, root first, groups before channels, index twin. Theorem that the writer "
                     "model always satisfies the strict parser not yet registered.",
                level_note=COMMON_NOTE, technique="Lean 4 strict parser as oracle + byte-equality correspondence of the writer model"),
    "C09": dict(category="translation_validation",
                text="Reader model walking an index file vs the real reader with a .tdms_index beside the data file (also shorter data, index only); oracle: read/open/read_metadata "
                     "identical with and without index (spec-encoder index and TdmsWriter index), index-only gives the same metadata and refuses data reads.",
                level_note=COMMON_NOTE, technique="Lean 4 executable model + differential correspondence + with/without-index oracle"),
    "C10": dict(category="translation_validation",
                text="Lean defragment (reader model composed with writer model) reproduces the real TdmsWriter.defragment output byte for byte; oracle: real read of source vs "
                     "destination (groups, channels, properties, lengths, raw values, dtype, scaled data).",
                level_note=COMMON_NOTE, technique="Lean 4 executable model (composition) + byte-equality correspondence + content oracle"),
    "C11": dict(category="translation_validation",
                text="Reader/lazy models vs real reader on generated DAQmx files (multi-buffer, padding, digital lines, both byte orders, cuts); oracle: direct byte arithmetic on the "
                     "generated buffers, lazy windows and chunk streams = slices of eager, truncated chunks give complete rows only.",
                level_note=COMMON_NOTE, technique="Lean 4 executable model + differential correspondence + byte-arithmetic oracle"),
    "C15": dict(category="translation_validation",
                text="Same content encoded all-little, all-big and mixed by the Lean spec (DAQmx at scaler-value level) reads identically through the real reader and the model.",
                level_note=COMMON_NOTE, technique="Lean 4 spec encoder + executable model + pairwise oracle"),
    "C18": dict(category="proof",
                text="The complete thermocouple tables are regenerated from the source as exact rationals on every run; kernel-checked: forward tables = vendored NIST tables, pieces "
                     "partition ℚ (total, never NaN, inclusive start/exclusive end), forward function = NIST polynomial (+ exponential term for K) on every NIST piece, boundary "
                     "continuity bounds evaluated exactly, direction/units/defaults of ThermocoupleScaling; the exp enclosure for type K is proved sound over ℝ (Mathlib). "
                     "Monotonicity and inverse error are grid-level (`_partial`, 501 rational points per type). Dense float sweep of the real code against the vendored reference.",
                level_note=COMMON_NOTE + "NIST's stated inverse errors are unavailable offline: measured maxima are used and named as such.",
                technique="Lean 4 proof (decide +kernel over regenerated tables, induction for the partition) + translator + dense sweep"),
    "C20": dict(category="proof",
                text="Ownership state machine of reader and writer: the reachable state space is computed, shown closed under every operation in the kernel, and no-leak / "
                     "caller-streams-untouched / closed-reads-fail / close-idempotent are proved for every source kind and every operation sequence; the model's predicted open "
                     "handles are compared with /proc/self/fd around every API step of the real code under injected faults.",
                level_note=COMMON_NOTE + "The OS side (descriptor table) is observed, not modelled. TdmsFile.open raising is out of scope (observation).",
                technique="Lean 4 proof (finite reachable set closed under steps + induction over op lists) + descriptor accounting"),
})
for _k in ("C02", "C06", "C07", "C08", "C09", "C10", "C11", "C15", "C18", "C20"):
    NOT_APPLICABLE.pop(_k, None)

CHECKS.update({
    "C13": dict(category="translation_validation",
                text="Lean model of get_scaling / _get_channel_scaling / the from_properties constructors / MultiScaling evaluation over ℚ vs the real channel[:] on files "
                     "carrying NI_Scale properties (channel / group / root placement, status 'scaled', DAQmx scaler inputs); oracle: independent exact-rational evaluation of "
                     "the graph, window = window of scaled, lazy = eager, raw bytes unchanged. Ring-level theorem not yet registered.",
                level_note=COMMON_NOTE + "binary64 evaluation compared with exact rationals within 1e-12; cyclic wiring excluded.",
                technique="Lean 4 executable model over ℚ + differential correspondence + exact-rational oracle"),
    "C14": dict(category="translation_validation",
                text="Model of the declared dtype (_compute_scale_dtype) and of the dtype the scale graph really produces, with NumPy's promotion table re-extracted on every run, "
                     "vs channel.dtype and the arrays returned; oracle: every kind of read of every raw type x scale kind, eager and lazy, returns channel.dtype (modulo byte order), "
                     "empty results included, full reads have len(channel) elements. Theorem declared = actual not yet registered.",
                level_note=COMMON_NOTE,
                technique="Lean 4 executable model + NumPy promotion table translator + exhaustive type x scale enumeration"),
})
NOT_APPLICABLE.pop("C13", None)
NOT_APPLICABLE.pop("C14", None)

CHECKS["C13"].update(category="proof",
    text="Over an arbitrary commutative ring: scaleElem = textbook DAG evaluation for every well-founded scale graph incl. both error cases (scaling_is_dataflow), Horner = "
         "Σ cᵢxⁱ, fuel sufficiency, scaling a window = window of the scaled data, get_scaling lookup order, status 'scaled', number of scales incl. the regex prefix semantics "
         "for all indices. Tied to the code by the executable model over ℚ vs the real channel[:] on files carrying NI_Scale properties and by an independent exact-rational oracle.",
    technique="Lean 4 + Mathlib proof (ring-level refinement to a DAG spec) + executable model over ℚ + exact-rational oracle")
CHECKS["C14"].update(category="proof",
    text="declared_eq_actual: for every well-founded scale graph over numeric raw / scaler types the dtype channel.dtype declares equals the dtype the arithmetic produces, "
         "using NumPy's promotion tables re-extracted from the installed NumPy on every run (tables_agree, resultType_closed by kernel evaluation); value scales give float64. "
         "Tied to the code by declared/actual kinds of the model vs channel.dtype / returned arrays, and by the exhaustive raw type x scale kind x read kind oracle.",
    technique="Lean 4 proof (induction along the wiring + decide +kernel over regenerated NumPy tables) + exhaustive type x scale enumeration")

CHECKS["C01"].update(category="proof",
    text="Layer theorems, each for arbitrary sizes and an arbitrary byte order: integer/string codecs, value canonicalisation for all 16 fixed-width types, property "
         "and raw-data-index (standard and DAQmx) parse round trips, lead-in round trip incl. all six ToC flags and the length-unknown marker, fixed-width and string "
         "contiguous data, whole contiguous chunks, interleaved column selection and value positions, and the metadata object loop for objects new to the reader "
         "(readMeta_encMeta): the model's decoder applied to the spec's encoding returns the encoded thing and consumes exactly its bytes. The composition of the layers "
         "into one whole-file theorem (read (encode e) = denote e incl. the inheritance state machine and multi-segment concatenation) is NOT proved; that composition is "
         "covered by the correspondence of the executable model with the real reader and by the spec oracle (denote) on every generated file.",
    technique="Lean 4 proof (parser/printer round trips by induction) + executable model correspondence + spec oracle")
CHECKS["C15"].update(category="proof",
    text="byte_order_irrelevant_*: for any two byte orders, decoding the e1-encoding in e1 gives the same result as decoding the e2-encoding in e2 — integers, strings, "
         "values of every fixed-width type (complex = two atoms, timestamps reversed as a whole), properties, standard and DAQmx indexes, lead-ins (ToC always little-endian), "
         "fixed-width / string / whole-chunk contiguous data, interleaved data, metadata blocks. Whole files: same content encoded all-little, all-big and mixed by the Lean "
         "spec reads identically through the real reader and the model (DAQmx at scaler-value level).",
    technique="Lean 4 proof (codec round trips parametric in the byte order) + spec encoder + pairwise oracle")

CHECKS["C08"].update(category="proof",
    text="segment_self_consistent / checkWritten_ok: for every program the writer model accepts (any sessions, segments, objects; decidable WritableProgram), the strict "
         "structural parser — written from the format description — accepts the emitted bytes: lead-in offsets = byte lengths written, metadata parses to exactly "
         "raw-data-offset bytes with every length field matching what follows (20 / 28), data length = what types and counts imply incl. string offset tables, root first, "
         "groups before their channels (parents_first, no well-formedness needed), index file = data file minus raw data with TDSh tags (index_is_twin). The writer model "
         "equals the real TdmsWriter byte for byte on generated programs, and the strict parser is also run on the real writer's bytes.",
    technique="Lean 4 proof (printer/strict-parser round trip, session invariant by induction) + byte-equality correspondence + strict parser as oracle")
CHECKS["C07"].update(category="proof",
    text="Value level: Int32/Int64/Uint64 chosen exactly by magnitude with boundaries -2^31, 2^31, 2^63 (iff-statements through the rules re-extracted from the source) and "
         "integer property round trip; bool/float/string/typed/raw-timestamp property encodings; datetime properties decode back to the written microsecond (through C12); "
         "exact characterisation of _infer_dtype (infer_dtype_exact: the chosen dtype holds every element iff the list is outside the signed-gap cases, which NumPy rejects). "
         "Structure level: the writer model emits what the strict parser accepts (C08). The whole write -> read composition is not proved as one theorem; it is covered by "
         "the byte-for-byte correspondence of the writer model with the real writer plus the real write -> real read oracle.",
    technique="Lean 4 proof (value-level codecs, magnitude rules, _infer_dtype characterisation) + byte-equality correspondence + read-back oracle")

CHECKS["C04"].update(category="proof",
    text="window_eq_slice: for every layout of a channel (any number of segments, chunk counts incl. 0, truncated final chunks incl. ones holding 0 values, segments where the "
         "channel is absent anywhere), every offset >= 0 incl. beyond the end and every length or None, the arithmetic of read_raw_data_for_channel — the model's own "
         "buildIndex/searchsorted/segPlan/trimStream — selects exactly full[offset:offset+length]; windowLoop_eq_windowPure links it to the model's I/O loop; "
         "read_slice_eq_pySlice: the slice normalisation of _read_slice equals CPython's slice semantics for all start/stop/step (ValueError iff step 0), read_at_index_eq for "
         "integer indices; read_slice_end_to_end composes them. The CPython slice spec itself is cross-checked exhaustively against the interpreter for small sizes. Assumed, "
         "not derived: per-segment well-formedness produced by the metadata reader and that each chunk read returns that chunk's values (data layer: C01 layers + correspondence).",
    technique="Lean 4 proof (induction over segments, searchsorted/cumsum lemmas, div/mod arithmetic) + exhaustive per-file correspondence + NumPy-slice oracle")
CHECKS["C06"].update(category="proof",
    text="Arithmetic core for arbitrary object lists and sizes: chunk count and override in the exact and truncated cases; interleaved truncation = complete rows (r/W); contiguous "
         "truncation = prefix-maximal fit (nothing invented, nothing complete lost, later objects empty); per-segment monotonicity of the value count under truncation (also DAQmx, "
         "with the needed side conditions exhibited by counterexamples); incomplete flag iff the declared end lies beyond the data file, segment dropped iff the metadata is "
         "incomplete, length-unknown marker; the metadata loop makes progress so its fuel suffices. The whole-file statement (values are a prefix for every cut offset) is not "
         "proved as one theorem: it is checked by reading every prefix of generated files through the model and the real reader with the prefix oracle.",
    technique="Lean 4 proof (div/mod arithmetic, induction over object lists) + exhaustive cut enumeration per file + prefix oracle")
CHECKS["C09"].update(category="proof",
    text="index_positions: walking an index file, the file position advances by 28 + raw data offset while the segment position advances exactly as in the data file, so after k "
         "segments both walks describe the same segment positions (induction over the loop); index-only with the length-unknown marker cannot be resolved (error). Equality of the "
         "parsed content follows from the parser round trips of C01 for the identical metadata bytes; it is not assembled into one theorem and is covered by the correspondence of "
         "the model's index walk with the real reader and by the with/without-index oracle.",
    technique="Lean 4 proof (loop invariant on positions) + differential correspondence + with/without-index oracle")
CHECKS["C11"].update(category="proof",
    text="daq_value_position / daq_scaler_value_eq_spec: value j of a scaler is decoded from the bytes at chunk start + sum of preceding buffers + j * width + offset, interpreted "
         "in the segment's byte order (digital lines: the addressed bit, digital_line_bit); splitEvery yields only complete rows; buffer dimensions = max over users, chunk size = "
         "sum len*width; truncated final chunk: whole buffers, then complete rows, then nothing, object length = min over its scalers' buffers. The parser round trip for DAQmx "
         "indexes is in C01 (readDaqmxIndex_encIdx). Lazy windows / chunk streams = slices of eager are checked by correspondence and oracle on generated DAQmx files.",
    technique="Lean 4 proof (row/column arithmetic by induction) + differential correspondence + byte-arithmetic oracle")

CHECKS["C01"].update(
    text="read_encode_single (whole-file theorem for one segment): for every well-formed single-segment encoding with standard (non-DAQmx, contiguous) indexes — any number "
         "of objects, properties incl. repeated names, string and fixed-width channels, any number of chunks, either byte order, padding, any ToC flag combination — "
         "readFile (encodeFile [s]) succeeds and its content (objects in order, types, canonical properties, values) equals denote [s]; with read_metadata_single and "
         "read_data_single for the reader state and chunk stream. Layer theorems for arbitrary sizes and byte orders: integer/string codecs, value canonicalisation for all 16 "
         "fixed-width types, property and raw-data-index (standard and DAQmx) round trips, lead-in round trip incl. all six ToC flags and the length-unknown marker, whole "
         "contiguous chunks, interleaved column selection, and the metadata object loop. Multi-segment files: the metadata state machine refines the spec's inheritance "
         "(C02 file_refines) and per-layer data theorems apply, but read (encode e) = denote e for several segments, interleaved and DAQmx data is NOT one theorem; it is "
         "covered by the correspondence of the executable model with the real reader and by the spec oracle (denote) on every generated file.",
    technique="Lean 4 proof (parser/printer round trips by induction; single-segment whole-file theorem) + executable model correspondence + spec oracle")
CHECKS["C02"].update(category="proof",
    text="meta_refines_spec / file_refines_spec: the reader's metadata state machine (applyHeader over _prev_segment_objects, object_metadata, the 'matches previous' reuse, "
         "new-object-list flag, segments without metadata) refines the spec's resolveObjs/activeLists for every file of any length: same active object list per segment "
         "(order, index description, has-data), same rejections (first segment without metadata, reuse of an undefined index, type change), under the invariant FileInv "
         "proved from the empty state by induction; the one divergence (a bare 'matches previous' for a path seen without index is accepted by the code, rejected by the spec) "
         "is stated exactly (meta_divergence) with a decidable guard NoBareReuse; readOneObject_factor/readSegmentObjects_eq tie the pure machine to the model's byte-level "
         "loop; explicit_same_active / denote_explicit: an encoding and its explicit normal form have the same active lists and the same meaning; existingIndex_spec. The "
         "model is tied to the real reader by correspondence on every generated encoding incl. the per-segment object lists; the oracle compares the real read of an "
         "encoding with the real read of its explicit normal form.",
    technique="Lean 4 proof (refinement of the metadata state machine to the spec, invariant by induction over segments) + executable model correspondence + normal-form oracle")
CHECKS["C10"].update(category="proof",
    text="defragment_eq / defragSegs_structure / each_channel_once / source_channel_written: the defragment model is the writer session over root, then per group the group "
         "followed by one segment per channel; every source channel is written exactly once, the writer never rejects (writer_never_rejects); channel_fixed_width / "
         "channel_string / channel_timestamp (+ _reads_back): the values written are the values read from the source, serialised so that the reader primitives return them; "
         "rewrittenType_preserves (only the unit-carrying float codes 25/26 become 9/10); prop_value_preserved with per-type statements, incl. the exact float32 -> float64 "
         "widening (f32ToF64_value, injective); defrag_valid: the copy is accepted by the strict structural parser with the expected paths and segment count. End-to-end "
         "readFile (defragment f) = readFile f as one theorem only on the demo; in general it is the byte-for-byte correspondence of the model with the real "
         "TdmsWriter.defragment plus the real source-vs-copy oracle.",
    technique="Lean 4 proof (structure of the defragmented session, value/property preservation incl. float widening) + byte-equality correspondence + content oracle")

CHECKS["C01"].update(
    text="read_encode_multi (whole-file theorem): for every well-formed encoding of ANY number of segments with standard (non-DAQmx) indexes and contiguous layout — segments "
         "without metadata, incremental object lists, 'matches previous' indexes, changed value counts, objects appearing / disappearing / re-appearing, properties "
         "overwritten in later segments, byte order chosen per segment, padding, any number of chunks, string and all fixed-width types — readFile (encodeFile e) succeeds "
         "and its content (objects in order, types, canonical properties, values) equals denote e; read_metadata_multi / read_data_multi give the reader state (segment "
         "positions = sums of byte lengths, object lists = the spec's active lists) and the chunk stream; denote_multi_values gives the values in closed form. Field-width side "
         "conditions (FileFits, < 2^63 bytes) and 'only channels carry data' are explicit, decidable, shown necessary by kernel-checked counterexamples and satisfied by a "
         "7-segment example. Layer theorems for arbitrary sizes and byte orders additionally cover interleaved column selection and DAQmx index round trips; "
         "read (encode e) = denote e for interleaved and DAQmx DATA and for the length-unknown marker is NOT one theorem: there it is the correspondence of the executable "
         "model with the real reader and the spec oracle (denote) on every generated file.",
    technique="Lean 4 proof (whole-file theorem by induction over segments on top of parser/printer round trips and the C02 refinement) + executable model correspondence + spec oracle")
CHECKS["C05"].update(category="proof",
    text="operations_position_independent: the result of read_data, slices, integer indexing and next() on channel-level and file-level chunk iterators is the same from any "
         "two states of the shared file (position, trace) — every path seeks absolutely before it reads; history_independent / read_history_independent / "
         "slice_history_independent: after ANY finite history of operations the output of a window or slice read equals its output on a freshly opened file; "
         "cache_sound_invariant + index_history_independent: the one-chunk cache only ever holds the chunk it claims, so integer indexing after any history equals "
         "indexing a fresh file (for files satisfying IndexWF: no DAQmx segment — the DAQmx case is index_history_independent_partial, conditional on chunk locality); "
         "iterator_complete / chan_iterator_complete_fresh / file_iterator_complete_fresh: an iterator advanced along any interleaved history yields exactly what an "
         "uninterrupted fresh iterator yields. IndexWF is not derived from readMetadata's output. The model's state machine is tied to one real TdmsFile.open object "
         "under random operation histories; the oracle replays every operation on a fresh file.",
    technique="Lean 4 proof (relational Hoare logic on the file-state monad, invariant over operation histories) + history correspondence + fresh-file oracle")
CHECKS["C19"].update(category="proof",
    text="window_io_bound / window_io_bound_contiguous: every trace entry appended by read_raw_data_for_channel lies in the 4 tag bytes of a window segment or inside the "
         "planned chunk range of that segment; for contiguous fixed-width data inside the requested channel's bytes of one planned chunk — other channels' bytes are never "
         "fetched; the byte budget is sum(4 + chunk size x planned chunks), independent of the file size; index_io_bound / index_budget_le: an index read touches one tag "
         "and one chunk (<= 4 + chunk size bytes); cache_hit_no_io: a cache hit performs no I/O. Exclusions stated in the theorems: string channels (offset tables), "
         "interleaved segments are bounded by the union of planned chunks, bounds are relative to segPlan (C04 proves segPlan selects exactly the overlapping chunks), "
         "segment well-formedness is assumed. The model's I/O trace equals the byte ranges seen by a recording stream under the real code; the bound formula is evaluated "
         "on the real trace.",
    technique="Lean 4 proof (Hoare logic over the model's I/O trace) + trace correspondence + bound oracle on the real trace")
CHECKS["C09"].update(
    text="readMetadata_with_index_eq: for every encoding in the decidable class indexClass (any number of segments, all index kinds incl. DAQmx, both byte orders; implied by "
         "wellFormed + sizesFit), walking the index (encodeIndex e) with the data file's size yields the SAME reader state (segments, positions, chunk counts, objects, "
         "metadata, errors) as walking the data file; twin_files_same_metadata: the same for arbitrary bytes under the metadata-independence predicate; "
         "readFile_with_index_eq / openFile_with_index_eq; index_only_same_metadata, index_only_unknown_length_raises, index_only_refuses_data (over any operation sequence); "
         "readMetadata_with_index_truncated: with the data file cut at ANY offset the two walks give the same segments / objects / clamp / incomplete flag (version "
         "bookkeeping may differ when the cut falls inside the last lead-in — kernel-checked witnesses); index_positions. The model's index walk is tied to the real reader "
         "by correspondence; the with/without-index oracle runs on the real code, also with the data file cut short.",
    technique="Lean 4 proof (two-walk loop invariant, metadata independence of the parser) + differential correspondence + with/without-index oracle")

TIED = (" Tied to the source by proof as well: harness/pyast2lean.py translates the current Python text of %s into Lean definitions "
        "(lean/Tdms/Generated/Code.lean, regenerated on every run) and the *_tied theorems prove them equal to the model functions the theorems above are about; "
        "a semantic edit of those functions stops the build (180-case self-test: harness/pyast2lean_selftest.py), a cosmetic one does not.")
CHECKS["C03"].update(category="proof",
    text="For every reader state satisfying the decidable invariant SegsWf (tag at each segment start, distinct paths per segment, contiguous reader, exact chunks incl. "
         "truncated final chunks; proved for ANY byte string readMetadata accepts whose segments hold fixed-width contiguous data — invariants_hold_sized — and for the "
         "encodings of C01): eager_eq_chunk_concat / file_data_chunks_eq_eager (TdmsFile.data_chunks, offsets = running count), channel_chunks_eq_eager / "
         "channel_data_chunks_eq_eager (channel.data_chunks, iteration), window_eq_eager (read_data(offset, length) = eager[offset : offset+length]), slice_eq_eager "
         "(channel[a:b:c] = CPython slice of the eager values), index_eq_eager / index_scan_eq_eager (integer indexing through the one-chunk cache). Key lemma on arbitrary "
         "bytes: chunk_component_agrees (seeking over the other objects reads the same values as the whole-chunk read). Interleaved segments: file-level iterator, "
         "read_raw_data_for_channel and read_data() proved (…_mixed), windows / slices / index on interleaved segments, DAQmx scalers, memmap and the raw_timestamps "
         "representation change are covered by correspondence and the pairwise agreement oracle on the real code only.",
    technique="Lean 4 proof (agreement of the model's access paths, arbitrary-bytes chunk lemma, invariant by induction over the metadata loop) + differential correspondence + agreement oracle")
CHECKS["C04"].update(
    text="lazy_window_eq_denote_slice (whole-file): for every well-formed standard contiguous multi-segment encoding e, every typed object, every offset >= 0 and every length "
         "or None, read_data(offset, length) on openFile (encodeFile e) returns exactly (values of denote e)[offset : offset+length] (fixed-width and string channels); "
         "lazy_slice_eq_denote_pySlice (all start/stop/step, ValueError iff step 0), lazy_index_eq_denote (after any history), lazy_window_eq_eager_slice; "
         "c04_hypotheses_of_encoded discharges every assumption of the arithmetic theorem window_eq_slice (any layout: chunk counts incl. 0, truncated final chunks, absent "
         "segments) for encoded files, and openFile_layout_wf derives them for ANY accepted byte string with distinct paths per segment and no DAQmx. The CPython slice spec "
         "is cross-checked exhaustively against the interpreter for small sizes. Interleaved and DAQmx windows: arithmetic theorem + correspondence." + TIED % (
             "TdmsReader.read_raw_data_for_channel, TdmsSegment.read_raw_data_for_channel, _trim_channel_chunk, TdmsChannel._read_slice"),
    technique="Lean 4 proof (whole-file window theorem composing C04 arithmetic, C01Multi and the per-chunk lemmas; source-to-Lean translation with tied theorems) + exhaustive per-file correspondence + NumPy-slice oracle")
CHECKS["C06"].update(
    text="read_cut_single / read_cut_multi (whole-file): for every standard contiguous file (one segment of any shape incl. the length-unknown marker; several "
         "segments with the same object signature) and EVERY cut offset K, readFile (bytes.take K) succeeds, every channel's values are a prefix of the uncut values "
         "(= denote), contain every value of the segments wholly before the cut (read_cut_multi_boundary), numValues = values returned, the incomplete flag is set iff the cut "
         "falls inside raw data or the marker is present (read_cut_multi_status), monotone in K (…_mono); closed forms for the kept values (cutQ/cutR, finalCount). Arithmetic "
         "core for arbitrary object lists: chunk count and override, interleaved = complete rows, contiguous = prefix-maximal fit, DAQmx monotonicity with counterexamples for "
         "the side conditions. Lazy = eager on cut files, changing object lists, interleaved and DAQmx cuts: every prefix of generated files through the model and the real "
         "reader with the prefix oracle." + TIED % "TdmsSegment._calculate_chunks, _compute_final_chunk_lengths, _get_chunk_size",
    technique="Lean 4 proof (whole-file cut theorem at every byte offset; div/mod arithmetic; source-to-Lean translation with tied theorems) + exhaustive cut enumeration per file + prefix oracle")
CHECKS["C07"].update(
    text="write_then_read (whole composition): for every program of sessions / segments / objects the writer model accepts (WritableProgram) whose channels keep one data "
         "type (typesConsistent — forced by the proof; the real writer accepted such sequences and wrote unreadable files: defect D19, repaired in-session, cross-session case "
         "a known finding), version 4712/4713, readFile of the written bytes succeeds and its content equals promisedView prog: objects in first-appearance order, last "
         "written property values with the promised TDMS types, each channel the concatenation of everything written to it. Bridge: the writer's bytes ARE a spec encoding "
         "(encodeFile_encOfProgram) whose meaning is the promise (denote_encOfProgram). Value level: Int32/Int64/Uint64 by magnitude with exact boundaries, bool/float/"
         "string/typed/timestamp encodings (through C12), exact characterisation of _infer_dtype. The writer model equals the real TdmsWriter byte for byte on generated "
         "programs; the real write -> real read oracle runs on every program.",
    technique="Lean 4 proof (writer output = spec encoding, composed with the C01 whole-file theorem; value-level codecs) + byte-equality correspondence + read-back oracle")
CHECKS["C05"].update(
    text=CHECKS["C05"]["text"].replace("IndexWF is not derived from readMetadata's output.",
         "indexWF_of_openFile / index_history_independent_of_openFile derive IndexWF for ANY accepted byte string with distinct paths per segment; index_history_independent_encoded "
         "needs no hypothesis on the open file; chunk_local_daqmx covers DAQmx segments with uniform buffers (daq_uniform_is_needed: kernel-checked counterexample in the model "
         "for non-uniform shared buffers)."))
CHECKS["C19"].update(
    text=CHECKS["C19"]["text"].replace("segment well-formedness is assumed.", "window_plan_in_segment proves the planned chunks lie inside the segment, segWF_of_openFile / "
         "window_io_bound_of_openFile / window_io_bound_encoded discharge the well-formedness assumptions.") + TIED % "TdmsChannel._read_at_index, TdmsReader.read_channel_chunk_for_index")
for _k, _fns in (("C02", "_reuse_previous_object / _update_existing_object / _number_of_segment_values"), ("C11", "get_buffer_dimensions, get_daqmx_chunk_size, get_daqmx_final_chunk_lengths"),
                 ("C12", "TimeStamp.__init__ (integer part), as_datetime64, _multiply_high"), ("C16", "_components_to_path and _path_components")):
    CHECKS[_k].update(text=CHECKS[_k]["text"] + TIED % _fns)

CHECKS["C01"].update(
    text="Whole-file theorems read_encode_multi / read_encode_multi_interleaved / read_encode_multi_daqmx: for every well-formed encoding of ANY number of segments — segments "
         "without metadata, incremental object lists, 'matches previous' indexes, changed value counts, objects appearing / disappearing / re-appearing, properties "
         "overwritten later, byte order chosen per segment, padding, any number of chunks; contiguous (strings and all fixed-width types), interleaved, and DAQmx layouts "
         "(any number of raw buffers, scalers in any buffer and order, digital-line scalers), freely mixed — readFile (encodeFile e) succeeds and its content (objects in "
         "order, types, canonical properties, values, per-scaler raw values) equals denote e; read_metadata_multi* give the reader state, denote_multi*_values the values in "
         "closed form. Side conditions are explicit decidable predicates (field widths FileFits / FileFitsD, < 2^63 bytes, only channels carry data, DAQmx widths agree), each "
         "shown necessary by a kernel-checked counterexample and satisfied by 7-segment examples evaluated in the kernel. format_constants_are_reference / "
         "type_table_is_reference / daqmx_tables_are_reference: the constants the spec and the model take from the library equal a hand-written transcription of the format "
         "description. Not one theorem: the length-unknown marker on uncut files of several segments, typed DAQmx channels; those are covered by the correspondence of the "
         "executable model with the real reader and by the spec oracle (denote) on every generated file, and on the repo's LabVIEW-written example files.",
    technique="Lean 4 proof (whole-file theorems by induction over segments for all three layouts; reference constants) + executable model correspondence + spec oracle")
CHECKS["C11"].update(text=CHECKS["C11"]["text"].replace("The parser round trip for DAQmx indexes is in C01 (readDaqmxIndex_encIdx).",
    "Whole files: read_encode_multi_daqmx (C01Layouts) — reading a multi-segment file with DAQmx segments returns exactly the per-scaler values the spec assigns; "
    "daqmx_tables_are_reference ties the scaler type codes to the reference table."))

CHECKS["C15"].update(
    text="read_endian_irrelevant (whole files): for every well-formed file mixing contiguous, interleaved and DAQmx segments (class MultiStdD) and any two assignments of byte "
         "orders to its segments, both encodings have the same length, both read, and the contents (objects, properties, types, values, per-scaler raw values) are "
         "identical; denote_endian_irrelevant: the meaning does not depend on the assignment (standard segments: only the flag changes; DAQmx rows are re-encoded field by "
         "field, possible exactly when scaler fields of a buffer are identical or disjoint — FieldsCompat, shown necessary by no_reencoding_of_overlapping_fields); lazy "
         "windows, slices and index reads likewise (lazy_window_endian_irrelevant, standard contiguous class). Codec level: byte_order_irrelevant_* for integers, strings, "
         "values of every fixed-width type (complex = two atoms, timestamps reversed as a whole), properties, standard and DAQmx indexes, lead-ins (ToC always little-endian), "
         "contiguous / interleaved data and metadata blocks. The same content encoded all-little, all-big and mixed by the Lean spec reads identically through the real "
         "reader and the model on every generated file.",
    technique="Lean 4 proof (whole-file byte-order independence on top of the C01 whole-file theorems; codec round trips parametric in the byte order) + spec encoder + pairwise oracle")

CHECKS["C03"].update(text=CHECKS["C03"]["text"].replace(
    "Interleaved segments: file-level iterator, read_raw_data_for_channel and read_data() proved (…_mixed), windows / slices / index on interleaved segments, DAQmx scalers, memmap and the raw_timestamps "
    "representation change are covered by correspondence and the pairwise agreement oracle on the real code only.",
    "Files mixing contiguous and interleaved segments, incl. truncated interleaved final chunks (complete rows): window_eq_eager_mixed, slice_eq_eager_mixed, "
    "index_eq_eager_mixed, channel_data_chunks_eq_eager_mixed, on top of trimStream_coalesce' (trimming a concatenation does not depend on how it is chunked) and "
    "interleaved_range_agrees (arbitrary bytes). DAQmx scaler data: window_eq_eager_daqmx / daqmx_chunk_component_agrees (C11Lazy; hypotheses checked by evaluation, not "
    "derived from metadata). memmap and the raw_timestamps representation change are covered by correspondence and the pairwise agreement oracle on the real code only."))
CHECKS["C10"].update(
    text="defragment_preserves_content / defragment_same_content (whole files): for every source the model reads (readFile src = .ok r) whose copy is writable (CopyWritable: "
         "layout exists, sizes fit; DAQmx sources not covered) readFile (defragment src) succeeds and its content equals defragView r — root, then per group the group and "
         "its channels, properties re-typed exactly as a property read and written again (rereadProp: float32 widened to float64, small ints to Int32), unit-carrying float "
         "codes 25/26 written as 9/10, values identical; under canonical source paths (SourceCanonical, shown necessary by exNonCanonical_merged) source and copy have the "
         "same objects, values and property values up to that re-typing and ordering (sameContentUpTo). read_invariants proves for EVERY successful read that paths are "
         "distinct and only typed channels hold values. Structure: defragment_eq, defragSegs_structure, each_channel_once, writer_never_rejects, defrag_valid (strict parser "
         "accepts the copy); float widening exact (f32ToF64_value, injective). The model equals the real TdmsWriter.defragment byte for byte on generated sources; the real "
         "source-vs-copy oracle runs on every case.",
    technique="Lean 4 proof (whole-file content preservation composing the reader, writer and C07 write-read theorems) + byte-equality correspondence + content oracle")
CHECKS["C07"].update(text=CHECKS["C07"]["text"].replace("Bridge: the writer's bytes ARE a spec encoding",
    "write_then_read_checked: for the writer with the in-session type guard (writeProgramChecked = what the repaired TdmsWriter does) only cross-session consistency "
    "remains as a hypothesis, none for a single session; typesConsistent_iff characterises the guard exactly; exAcross_finding is the kernel-checked witness of the known "
    "finding. Bridge: the writer's bytes ARE a spec encoding"))
CHECKS["C11"].update(text=CHECKS["C11"]["text"] + " Lazy windows of scaler data = slices of the eager scaler data: window_eq_eager_daqmx (C11Lazy).")

for _k, _fns in (("C13", "the from_properties constructors and scale methods of the structural scalings, _get_number_of_scalings, _get_channel_scaling, get_scaling, MultiScaling._compute_scaled_data"),
                 ("C14", "MultiScaling._compute_scale_dtype / get_dtype"),
                 ("C17", "from_properties of RTD / Strain / Thermistor, _adjust_for_lead_resistance, StrainScaling.scale and the resistance parts of the RTD / thermistor scale methods"),
                 ("C07", "_to_tdms_value, to_int_property_value, _infer_dtype"),
                 ("C08", "_path_ordering_key, object_data_size, TdmsSegment.raw_data_index / _data_size / leadin / __init__, and write_segment's object completion, type guard and state update"),
                 ("C18", "Range.within_range, Polynomial.within_range, _verify_contiguous"),
                 ("C20", "TdmsReader.__init__ / close and TdmsWriter.open / close (which handles are opened and closed for every kind of source)")):
    CHECKS[_k].update(text=CHECKS[_k]["text"] + TIED % _fns)

CHECKS["C13"].update(text="File level: scaled_read_is_dataflow_of_denote — for every well-formed standard contiguous multi-segment encoding, the scaled data of every numeric channel read "
    "from the file is the dataflow evaluation (Spec.evalGraph) of the NI_Scale properties THE FILE ENCODES (last write wins across segments; channel, else group, else root) "
    "applied to the values the file encodes; scaled_window_commutes_file (every lazy window of scaled data = window of the scaled eager data), scaled_lazy_eq_eager, "
    "raw_unchanged (the scaled data is a function of the data type, the three property dictionaries and the raw values only). " + CHECKS["C13"]["text"])
CHECKS["C14"].update(text="File level: file_dtype_declared_eq_actual / file_dtype_of_returned_data (the declared kind computed from the file's properties is the kind of every value the "
    "scaled read returns), file_scaled_length / file_scaled_lazy_length (a full read has exactly the number of values the reader recorded = the number the file encodes). "
    + CHECKS["C14"]["text"])

CHECKS["C06"].update(text=CHECKS["C06"]["text"].replace("Lazy = eager on cut files, changing object lists, interleaved and DAQmx cuts: every prefix",
    "read_cut_general: the same for files whose object lists change between segments, with strings and the length-unknown marker, at every cut offset; "
    "cut_lazy_eq_eager_general / cut_lazy_eq_eager_multi: on the cut file every lazy path (read_data, every window, slice, index, chunk streams) agrees with the eager "
    "read and len(channel) is the number of values returned (fixed-width channels; for strings cut inside a chunk only the chunk-level statement "
    "cut_string_chunk_partial). Interleaved and DAQmx cuts: every prefix"))
CHECKS["C01"].update(text=CHECKS["C01"]["text"].replace("Not one theorem: the length-unknown marker on uncut files of several segments, typed DAQmx channels;",
    "read_encode_multi_marker: the last segment may carry the length-unknown marker (any types, any number of chunks). Not one theorem: typed DAQmx channels;"))

CHECKS["C04"].update(text=CHECKS["C04"]["text"].replace("Interleaved and DAQmx windows: arithmetic theorem + correspondence.",
    "lazy_window_eq_denote_slice_interleaved / lazy_slice_eq_denote_pySlice_interleaved / lazy_index_eq_denote_interleaved (C04Layouts): the same for files mixing contiguous "
    "and interleaved segments; lazy_window_eq_denote_slice_daqmx (C11Whole): windows of DAQmx scaler data = slices of the scaler values the file encodes."))
CHECKS["C11"].update(text=CHECKS["C11"]["text"] + " lazy_window_eq_denote_slice_daqmx / invariants_hold_encoded_daqmx (C11Whole): for every well-formed file with DAQmx segments "
    "the lazy window of every scaler equals the slice of the values the file encodes, and len(channel) is their number; the hypotheses of C11Lazy are derived, not assumed.")
CHECKS["C12"].update(text="File level (C12File): datetime_property_roundtrip / datetime_channel_roundtrip — for EVERY integer microsecond count the writer accepts (exactly those whose "
    "seconds fit the struct field; every datetime64[us]) a datetime written as a property or as channel data by any accepted program is read back as a 16-byte TimeStamp that "
    "decodes (scalar and array conversion) to the same microsecond; raw timestamps bit-exactly; the same after defragment (defragment_keeps_timestamps). "
    "Composed on the source-derived definitions (C12TiedRoundtrip): generated_us_roundtrip / generated_us_roundtrip_array — for every integer microsecond count the translated "
    "TimeStamp.__init__ followed by the translated scalar and array as_datetime64 returns that count. " + CHECKS["C12"]["text"])
CHECKS["C16"].update(text="File level (C16File): names_survive_write_read / no_aliasing — for every accepted writer program the (group, channel) name pairs read back are exactly those "
    "written, distinct names give distinct objects, and the object found under a name holds exactly the properties and the concatenated data written under that name; names "
    "are arbitrary byte strings in the model and string_path_bytes proves the byte-level path equals the UTF-8 encoding of the Python path string for all strings. "
    "Composed on the source-derived definitions (C16TiedRoundtrip): generated_roundtrip / generated_injective / generated_shapes state round-trip and non-aliasing for "
    "the translated _components_to_path and _path_components themselves, with no hand-written model function left in the statement. "
    + CHECKS["C16"]["text"])
CHECKS["C19"].update(text=CHECKS["C19"]["text"].replace("Exclusions stated in the theorems: string channels (offset tables), interleaved segments are bounded by the union of planned chunks,",
    "window_io_bound_strings (C19Strings): for encoded files also string channels — every read lies inside the requested channel's bytes (offset table + characters) of a "
    "planned chunk, other channels are skipped by their declared size; interleaved_read_exact / interleaved_read_minimal: an interleaved read fetches exactly the planned "
    "rows (other columns of those rows included — the smallest row-aligned range); bytes_fetched_le: bytes fetched <= 4 x touched segments + chunk size x (length / values "
    "per chunk + 2) per touched segment, independent of the file size. On corrupt string offset tables (arbitrary bytes) only the forward-only bound string_reads_forward "
    "holds (corrupt_table_escapes). Remaining exclusions:"))

NOTES = ("Properties move from not_applicable to checks as their model, correspondence and theorems are built; a check is claimed at `proof` only when its "
         "headline theorems are registered in lean/obligations.json. See DESIGN.md.")
