"""C13 — Scaled data is the dataflow evaluation of the NI_Scale definitions.

Correspondence: Lean `Model/Scaling.lean` (property parsing, get_scaling lookup order, MultiScaling evaluation over ℚ)
vs the real `channel[:]` on files carrying the properties; dyadic inputs so binary64 evaluation is (almost always) exact.
Oracle (real code only): independent evaluation of the scale graph in Python `fractions.Fraction`; scaling a window =
window of the scaled data; lazy = eager; raw data bytes unchanged by scaling.
"""
import io
import os
import struct
import sys
from fractions import Fraction

import numpy as np

sys.path.insert(0, os.path.dirname(os.path.dirname(os.path.abspath(__file__))))
import canon
import gen_files
import gen_scaling as gs
from framework import Violation
from gen_files import path_of

LEVEL = "proof"
ANCHOR_FILES = ["nptdms/scaling.py", "nptdms/tdms.py"]
ASSUMPTIONS = ["cyclic input-source wiring makes the Python recurse until RecursionError: excluded (well-formed graphs only read smaller indices or the raw data)",
               "binary64 evaluation is compared with exact rational evaluation within 1e-12 relative (inputs are small dyadic rationals; most results are exact)",
               "sensor scalings (RTD, strain, thermistor, thermocouple) are covered by C17/C18; here they only appear as opaque elementwise nodes"]
TRUSTED_EXTRA = ["harness/gen_scaling.py (graph generator and exact-rational oracle)"]


def close(got, exact, magnitude=0):
    """binary64 agreement with the exact value, relative to the largest intermediate magnitude of the evaluation (cancellation
    between huge intermediates legitimately loses the small result)"""
    return abs(Fraction(float(got)) - exact) <= Fraction(1, 10 ** 12) * max(1, abs(exact), magnitude)


def run(ctx):
    nptdms = ctx.nptdms()
    model = ctx.get_model() if ctx.build_ok else None
    if model is None:
        return dict(coverage=dict(evaluations=0, distinct_nontrivial=0, rule="model unavailable", samples=[]))
    rnd = ctx.rnd
    violations, disagreements, samples = [], [], []
    stats = dict(cases=0, values=0, exact=0, daqmx=0, by_location=dict(channel=0, group=0, root=0, channel_over_group=0, status_scaled=0, status_scaled_unscaled=0))
    nontrivial = set()
    for i in range(ctx.n(1500, 30000)):
        scenario = rnd.choice(["channel", "group", "root", "channel_over_group", "status_scaled", "status_scaled_unscaled"])
        daq = i % 7 == 6
        if daq:
            scenario = "channel"
        k = rnd.randint(1, 2) if daq else 0
        if i % 9 == 4 and not daq:
            # long chains: 9-14 scales, without NI_Number_Of_Scales (the count comes from the highest NI_Scale[i] index)
            props_x, graph_x = gs.draw_graph(rnd, n=rnd.randint(9, 14), types=["Linear", "Add", "Subtract"], with_noop=True, with_number=rnd.random() < 0.3)
        else:
            # (every fourth plain graph with permuted indices: inputs taken from scales with a HIGHER index, still acyclic)
            props_x, graph_x = gs.draw_graph(rnd, first_scales_daqmx=k, with_noop=rnd.random() < 0.2, forward=(not daq and i % 4 == 1))
        props_y, graph_y = gs.draw_graph(rnd, with_noop=False)
        cp, gp, rp = [], [], []
        effective = graph_x
        if scenario == "channel":
            cp = props_x
        elif scenario == "group":
            gp = props_x
        elif scenario == "root":
            rp = props_x
        elif scenario == "channel_over_group":
            cp, gp = props_x, props_y
        elif scenario == "status_scaled":
            cp, gp, effective = props_x + [gs.P_str("NI_Scaling_Status", "scaled")], props_y, graph_y
        else:
            cp, effective = props_x + [gs.P_str("NI_Scaling_Status", "scaled")], None
        stats["by_location"][scenario] += 1
        stats["cases"] += 1
        n = rnd.choice([0, 1, 3, 6])
        if daq:
            stats["daqmx"] += 1
            scal = [[rnd.randint(-20, 20) for _ in range(n)] for _ in range(k)]
            rows = [b"".join(struct.pack("<h", scal[j][r]) for j in range(k)) for r in range(n)]
            idx = ("D", False, 0xFFFFFFFF, n, [[3, 0, 2 * j, 0, j] for j in range(k)], [2 * k])
            segs = [dict(hasMeta=True, newList=True, interleaved=False, big=False, rawFlag=True, daqmxFlag=True, lengthUnknown=False, version=4713, padding=0,
                         objs=[dict(path=path_of("g", "c"), idx=idx, props=cp)], chunks=[[rows]] if n else [])]
            vals = None
            ty = None
        else:
            ty = rnd.choice(list(gs.NUMERIC))
            vals, packed = gs.raw_values(rnd, ty, n)
            cut = rnd.randint(0, n)
            # (group and channel names with quotes / slashes / nothing: the group's and the file's properties are found through paths)
            gname, cname = rnd.choice(["g", "g", "it's", "Bob's rig", "a/b", "", "'"]), rnd.choice(["c", "c", "c'", "'", "x/y"])
            segs = gs.one_channel_file(ty, [packed[:cut], packed[cut:]] if rnd.random() < 0.5 else [packed], cp, gp, rp, big=rnd.random() < 0.3,
                                         order=rnd.choice(["rgc", "rgc", "cgr", "late"]), names=(gname, cname))
        e = model.ask(gen_files.to_line(segs))
        if not e.get("ok") or not e.get("wf"):
            disagreements.append(dict(what="generated scaling file is not well-formed: %s" % str(e)[:100]))
            continue
        data = bytes.fromhex(e["file"])
        info = dict(file=data.hex(), scenario=scenario)
        try:
            fe = nptdms.TdmsFile.read(io.BytesIO(data))
            fl = nptdms.TdmsFile.open(io.BytesIO(data))
            che, chl = (fe["g"]["c"], fl["g"]["c"]) if daq else (fe[gname][cname], fl[gname][cname])
            raw_before = None if daq else che.raw_data.tobytes()
            got = che[:]
            got_lazy = chl[:]
        except Exception as ex:  # noqa
            violations.append(Violation("reading scaled data raised %s: %s (%s)" % (type(ex).__name__, str(ex)[:120], scenario), info))
            continue
        # oracle
        int_range = None
        if daq:
            int_range = (-2 ** 15, 2 ** 15 - 1)
        elif gs.NUMERIC[ty][1][0] in "iu":
            w = 8 * int(gs.NUMERIC[ty][1][1])
            int_range = (0, 2 ** w - 1) if gs.NUMERIC[ty][1][0] == "u" else (-2 ** (w - 1), 2 ** (w - 1) - 1)
        try:
            mags = [0] * n
            if effective is None:
                exp = [Fraction(v) for v in vals]
            else:
                exp = []
                for r in range(n):
                    exp.append(gs.eval_graph(effective, None, [scal[j][r] for j in range(k)], int_range) if daq else gs.eval_graph(effective, vals[r], None, int_range))
                    mags[r] = gs.LAST_MAGNITUDE
        except gs.Wraps:
            stats["integer_wraps_skipped"] = stats.get("integer_wraps_skipped", 0) + 1
            continue
        if len(got) != n:
            violations.append(Violation("scaled channel has %d values, raw channel %d" % (len(got), n), info))
            continue
        for r in range(n):
            stats["values"] += 1
            if Fraction(float(got[r])) == exp[r]:
                stats["exact"] += 1
            if not close(got[r], exp[r], mags[r]):
                violations.append(Violation("scaled value %r differs from the dataflow evaluation %s of the NI_Scale graph (%s)" % (float(got[r]), float(exp[r]), scenario),
                                            dict(info, index=r, graph=str(effective)[:400])))
                break
        if canon.value_bytes(np.asarray(got_lazy)) != canon.value_bytes(np.asarray(got)):
            violations.append(Violation("lazy and eager scaled data differ", info))
        if n >= 2:
            a, b = sorted(rnd.sample(range(n + 1), 2))
            w = chl.read_data(a, b - a)
            if canon.value_bytes(np.asarray(w)) != canon.value_bytes(np.asarray(got)[a:b]):
                violations.append(Violation("scaling the window [%d:%d] differs from the window of the scaled data" % (a, b), info))
        # results already handed out stay what they were when later requests are served (windows, then the chunk stream)
        if n >= 2:
            h = n // 2
            try:
                w1 = chl.read_data(0, h)
                w1c = np.array(w1)
                w2 = chl.read_data(h, h)
                w2c = np.array(w2)
                parts = [c[:] for c in chl.data_chunks()]
                whole = np.concatenate(parts) if parts else np.zeros(0)
                e1 = che.read_data(0, h)
                e1c = np.array(e1)
                che.read_data(h, h)
            except Exception as ex:  # noqa
                violations.append(Violation("windows / chunks of a scaled channel raised %s: %s" % (type(ex).__name__, str(ex)[:100]), info))
                continue
            vb_ = lambda x: canon.value_bytes(np.asarray(x))  # noqa
            if vb_(w1) != vb_(w1c) or vb_(w2) != vb_(w2c) or vb_(e1) != vb_(e1c):
                violations.append(Violation("a scaled window handed out earlier changed when a later window / the chunk stream of the same channel was scaled", info))
            elif vb_(w1c) != vb_(np.asarray(got)[:h]) or vb_(whole) != vb_(np.asarray(got)):
                violations.append(Violation("scaled windows / concatenated scaled chunks differ from the scaled full read", info))
        if raw_before is not None and che.raw_data.tobytes() != raw_before:
            violations.append(Violation("scaling modified the raw data it read", info))
        # model
        if daq:
            line = "scale - 0 %d %s" % (k, " ".join("%d i2 %d %s" % (j, n, " ".join(str(v) for v in scal[j])) for j in range(k)))
        else:
            line = "scale %s %d %s 0" % (gs.NUMERIC[ty][1], n, " ".join("%d/%d" % (Fraction(v).numerator, Fraction(v).denominator) for v in vals))
        for plist in (cp, gp, rp):
            line += " %d %s" % (len(plist), " ".join(gs.prop_token(p) for p in plist))
        m = model.ask(" ".join(line.split()))
        if not m.get("ok"):
            disagreements.append(dict(what="model scaling failed: %s (%s)" % (m.get("err"), scenario), **info))
        elif (m.get("scaling") is None) != (effective is None):
            disagreements.append(dict(what="model finds %s scaling, expected %s (%s)" % (m.get("scaling"), effective is not None, scenario), **info))
        elif m.get("scaling") is not None:
            for r in range(n):
                mv = m["values"][r]
                if isinstance(mv, dict):
                    disagreements.append(dict(what="model value error %s" % mv, **info))
                    break
                a, b = mv.split("/")
                if not close(got[r], Fraction(int(a), int(b)), mags[r]):
                    disagreements.append(dict(what="value %d: model %s real %r (%s)" % (r, mv, float(got[r]), scenario), **info))
                    break
        if effective is not None and len(effective) > 1:
            nontrivial.add(data)
        if len(samples) < 2 and effective is not None and len(effective) >= 2:
            samples.append(dict(graph=str(effective)[:300], scenario=scenario))
        if len(violations) >= 5 or len(disagreements) >= ctx.dis_limit:
            break
        if ctx.tier == "quick" and ctx.elapsed() > 45:
            break
    return dict(violations=violations[:5], disagreements=disagreements[:20],
                coverage=dict(evaluations=stats["cases"], distinct_nontrivial=len(nontrivial),
                              rule="scale graphs of 1-5 structural scales (Linear, Polynomial, Table incl. decreasing tables, Add, Subtract, sometimes AdvancedAPI) with "
                                   "arbitrary well-founded input wiring, dyadic coefficients, with/without NI_Number_Of_Scales, every numeric raw type, data split over "
                                   "segments, both byte orders; properties on channel / group / root, channel over group, NI_Scaling_Status='scaled' with and without another "
                                   "scaling in scope; every ninth case a chain of 9-14 scales mostly without NI_Number_Of_Scales; every seventh case a DAQmx channel whose first scales are raw scalers; non-trivial = distinct files whose effective graph "
                                   "has at least two scales",
                              samples=samples or [dict(note="none")], counts=stats))


def search(ctx, broken, disagreements):
    ctx.budget_factor = max(ctx.budget_factor, 4)
    return run(ctx)["violations"][:1]


def replay(ctx, path):
    import json
    with open(path) as f:
        rp = json.load(f)["replay"]
    nptdms = ctx.nptdms()
    f = nptdms.TdmsFile.read(io.BytesIO(bytes.fromhex(rp["file"])))
    print("replay: scaled data now %r (recorded problem: see the replay file)" % (list(f["g"]["c"][:])[:8],))
    return 1
