"""C10 — Defragmenting a file preserves its content.

Correspondence: Lean `defragment` (reader model composed with writer model) vs the bytes the real
`TdmsWriter.defragment` produces.
Oracle (real code only): real read(source, raw timestamps) vs real read(destination, raw timestamps): same groups and
channels, same properties, same lengths, bit-identical raw values, dtype preserved when there is at least one value;
scaled data equal.  Destination as stream or path, with and without index file.
"""
import io
import os
import shutil
import struct
import sys
import tempfile

import numpy as np

sys.path.insert(0, os.path.dirname(os.path.dirname(os.path.abspath(__file__))))
import canon
import gen_files
import corr_lazy as cl
from framework import Violation
from leanio import hx

LEVEL = "proof"
ANCHOR_FILES = ["nptdms/writer.py", "nptdms/tdms.py", "nptdms/reader.py"]
ASSUMPTIONS = ["property values are compared as the Python values the reader returns (defragment re-types integer properties by magnitude and widens float32 properties)",
               "'data type preserved' is read as the NumPy dtype of the channel data (float-with-unit channels are rewritten as plain floats)"]
TRUSTED_EXTRA = ["harness/props/C10.py"]

SCALE_PROPS = [(b"NI_Number_Of_Scales", 7, struct.pack("<I", 1)), (b"NI_Scale[0]_Scale_Type", 0x20, b"Linear"),
               (b"NI_Scale[0]_Linear_Slope", 10, struct.pack("<d", 2.5)), (b"NI_Scale[0]_Linear_Y_Intercept", 10, struct.pack("<d", -1.0)),
               (b"NI_Scale[0]_Linear_Input_Source", 7, struct.pack("<I", 0xFFFFFFFF))]


def content(f):
    out = dict(root=[[k, canon.norm(canon.prop_value(v))] for k, v in f.properties.items()], groups=[])
    for g in f.groups():
        chans = []
        for c in g.channels():
            rd = c._raw_data
            data = None if rd is None or rd.data is None else canon.value_bytes(rd.data)
            ent = dict(name=c.name, n=len(c), props=[[k, canon.norm(canon.prop_value(v))] for k, v in c.properties.items()], data=data or [],
                       dtype=str(np.asarray(rd.data).dtype) if (rd is not None and rd.data is not None and len(c) > 0 and not isinstance(rd.data, list)) else None)
            try:
                sc = c[:]
                ent["scaled"] = canon.value_bytes(sc)
            except Exception as ex:  # noqa
                ent["scaled"] = "raised %s" % type(ex).__name__
            chans.append(ent)
        out["groups"].append(dict(name=g.name, props=[[k, canon.norm(canon.prop_value(v))] for k, v in g.properties.items()], channels=chans))
    return out


def add_scaling(rnd, segs):
    """attach a linear scaling to the first numeric channel listing (properties only)"""
    for s in segs:
        for ob in s["objs"]:
            if ob["idx"][0] == "F" and ob["idx"][1] in (1, 2, 3, 4, 5, 6, 7, 8, 9, 10):
                ob["props"] = [p for p in ob["props"] if not p[0].startswith(b"NI_")] + SCALE_PROPS
                return


def run(ctx):
    nptdms = ctx.nptdms()
    model = ctx.get_model() if ctx.build_ok else None
    if model is None:
        return dict(coverage=dict(evaluations=0, distinct_nontrivial=0, rule="model unavailable", samples=[]))
    T, W = nptdms.TdmsFile, nptdms.TdmsWriter
    disagreements, violations, samples = [], [], []
    stats = dict(sources=0, by_path=0, with_index=0, with_scaling=0, empty_channels=0)
    nontrivial = set()
    feats = {}
    tmp = tempfile.mkdtemp(prefix="nptdms_verif_c10_")
    try:
        for i in range(ctx.n(400, 12000)):
            segs = gen_files.FileGen(ctx.rnd, max_segs=6).draw()
            if i % 3 == 0:
                add_scaling(ctx.rnd, segs)
                stats["with_scaling"] += 1
            e = model.ask(gen_files.to_line(segs))
            if not e.get("ok") or not e.get("wf"):
                continue
            src = bytes.fromhex(e["file"])
            stats["sources"] += 1
            odd = None
            if i % 4 == 3:
                # a version number the reader only warns about, patched into every lead-in (the copy is written with the requested /
                # default version); the model only knows 4712 / 4713, so these sources are checked by the oracle alone
                odd = ctx.rnd.choice([4714, 4711, 1, 2 ** 31 - 1])
                try:
                    with T.open(io.BytesIO(src)) as fo:
                        pos = [sg.position for sg in fo._reader._segments]
                    b = bytearray(src)
                    for sg, q in zip(segs, pos):
                        b[q + 8:q + 12] = struct.pack(">I" if sg["big"] else "<I", odd)
                    src = bytes(b)
                    stats["odd_source_version"] = stats.get("odd_source_version", 0) + 1
                except Exception:
                    odd = None
            version = ctx.rnd.choice([4712, 4713, None])        # None: the argument is left out (documented default 4712)
            vkw = {} if version is None else dict(version=version)
            version = 4712 if version is None else version
            by_path, with_index = i % 4 == 1, i % 2 == 0
            in_place = by_path and i % 8 == 1        # destination path = source path: the copy replaces the file it was made from
            try:
                if by_path:
                    sp = os.path.join(tmp, "s.tdms")
                    dp = sp if in_place else os.path.join(tmp, "d.tdms")
                    stats["in_place"] = stats.get("in_place", 0) + in_place
                    for q in (dp, dp + "_index", sp + "_index"):
                        if os.path.exists(q):
                            os.unlink(q)
                    open(sp, "wb").write(src)
                    W.defragment(sp, dp, index_file=with_index, **vkw)
                    dst = open(dp, "rb").read()
                    idx = open(dp + "_index", "rb").read() if with_index else None
                    stats["by_path"] += 1
                else:
                    d, ix = io.BytesIO(), io.BytesIO()
                    W.defragment(io.BytesIO(src), d, index_file=ix if with_index else False, **vkw)
                    dst, idx = d.getvalue(), ix.getvalue() if with_index else None
            except Exception as ex:  # noqa
                violations.append(Violation("defragment raised %s: %s" % (type(ex).__name__, str(ex)[:150]), dict(kind="defrag", source=src.hex(), encoding=gen_files.to_line(segs))))
                if len(violations) >= 5:
                    break
                continue
            stats["with_index"] += with_index
            m = model.ask("defrag %s %d" % (hx(src), version)) if odd is None else dict(ok=True, data=dst.hex(), index=None if idx is None else idx.hex())
            if not m.get("ok"):
                disagreements.append(dict(what="model defragment fails where the real one succeeds", source=src.hex()))
            elif bytes.fromhex(m["data"]) != dst:
                a = bytes.fromhex(m["data"])
                k = next((j for j in range(min(len(a), len(dst))) if a[j] != dst[j]), min(len(a), len(dst)))
                disagreements.append(dict(what="defragmented bytes differ at offset %d (model %s real %s)" % (k, a[k:k + 8].hex(), dst[k:k + 8].hex()), source=src.hex()))
            elif idx is not None and bytes.fromhex(m["index"]) != idx:
                disagreements.append(dict(what="defragmented index bytes differ", source=src.hex()))
            a = content(T.read(io.BytesIO(src), raw_timestamps=True))
            try:
                b = content(T.read(io.BytesIO(dst), raw_timestamps=True))
            except Exception as ex:  # noqa
                violations.append(Violation("the defragmented file cannot be read: %r" % ex, dict(kind="defrag", source=src.hex(), dest=dst.hex())))
                continue
            prob = None
            if [g["name"] for g in a["groups"]] != [g["name"] for g in b["groups"]] and sorted(g["name"] for g in a["groups"]) != sorted(g["name"] for g in b["groups"]):
                prob = "groups differ"
            elif a["root"] != b["root"]:
                prob = "file properties differ: %s vs %s" % (a["root"], b["root"])
            else:
                bg = {g["name"]: g for g in b["groups"]}
                for g in a["groups"]:
                    h = bg[g["name"]]
                    if g["props"] != h["props"]:
                        prob = "properties of group %r differ" % g["name"]
                        break
                    hc = {c["name"]: c for c in h["channels"]}
                    if sorted(c["name"] for c in g["channels"]) != sorted(hc):
                        prob = "channels of group %r differ" % g["name"]
                        break
                    for c in g["channels"]:
                        d = hc[c["name"]]
                        stats["empty_channels"] += c["n"] == 0
                        for k in ("n", "props", "data", "scaled"):
                            if c[k] != d[k]:
                                prob = "channel %r/%r: %s differs: %s vs %s" % (g["name"], c["name"], k, str(c[k])[:80], str(d[k])[:80])
                                break
                        if prob is None and c["n"] > 0 and c["dtype"] != d["dtype"]:
                            prob = "channel %r/%r: dtype %s became %s" % (g["name"], c["name"], c["dtype"], d["dtype"])
                        if prob:
                            break
                    if prob:
                        break
            if prob is None and odd is None and not any(sg.get("_scaled") for sg in segs):
                # independent of the reader's view of the SOURCE (defragment reads it with the same code): the raw values of every
                # channel of the copy against the values the spec encoder put into the source
                rcopy, _ = canon.real_read(dst, nptdms)
                if rcopy.get("ok"):
                    got_vals = {c_["path"]: (c_["data"] or []) for c_ in rcopy["channels"]}
                    for o_ in e["content"]:
                        if o_["values"] and o_["ty"] != 0xFFFFFFFF and got_vals.get(o_["path"]) != o_["values"]:
                            prob = "raw values of %r in the copy differ from the values encoded in the source: %s vs %s" % (
                                bytes.fromhex(o_["path"]), str(got_vals.get(o_["path"]))[:80], str(o_["values"])[:80])
                            break
            if prob:
                violations.append(Violation("defragment changed the content: " + prob, dict(kind="defrag", source=src.hex(), dest=dst.hex(), encoding=gen_files.to_line(segs))))
            f = gen_files.features(segs)
            for t in f:
                feats[t] = feats.get(t, 0) + 1
            if "multi-segment" in f and any(o["values"] for o in e["content"]):
                nontrivial.add(src)
            if len(samples) < 2 and len(src) < 300:
                samples.append(dict(encoding=gen_files.to_line(segs)))
            if len(violations) >= 5 or len(disagreements) >= ctx.dis_limit:
                break
            if ctx.tier == "quick" and ctx.elapsed() > 45:
                break
    finally:
        shutil.rmtree(tmp, ignore_errors=True)
    return dict(violations=violations[:5], disagreements=disagreements[:20],
                coverage=dict(evaluations=stats["sources"], distinct_nontrivial=len(nontrivial),
                              rule="(every eighth source is defragmented in place: destination path = source path) non-DAQmx sources from the file generator (fragmented over up to 6 segments, empty and property-only channels, strings, "
                                   "timestamps, complex, both byte orders, every third with a Linear scaling), destination stream or path, with and without index; "
                                   "non-trivial = distinct multi-segment sources holding data",
                              samples=samples or [dict(note="see feature_counts")], counts=stats, feature_counts=dict(sorted(feats.items()))))


def search(ctx, broken, disagreements):
    ctx.budget_factor = max(ctx.budget_factor, 3)
    return run(ctx)["violations"][:1]


def replay(ctx, path):
    import json
    with open(path) as f:
        rp = json.load(f)["replay"]
    nptdms = ctx.nptdms()
    src = bytes.fromhex(rp["source"])
    d = io.BytesIO()
    try:
        nptdms.TdmsWriter.defragment(io.BytesIO(src), d)
    except Exception as ex:
        print("replay: defragment raised %r" % ex)
        return 1
    a = content(nptdms.TdmsFile.read(io.BytesIO(src), raw_timestamps=True))
    b = content(nptdms.TdmsFile.read(io.BytesIO(d.getvalue()), raw_timestamps=True))
    same = a["root"] == b["root"] and sorted(str(g) for g in a["groups"]) == sorted(str(g) for g in b["groups"])
    print("replay: %s" % ("content preserved" if same else "content differs"))
    return 0 if same else 1


def corpus(ctx, entry):
    rp = entry["replay"]
    nptdms = ctx.nptdms()
    src = bytes.fromhex(rp["source"])
    d = io.BytesIO()
    try:
        nptdms.TdmsWriter.defragment(io.BytesIO(src), d)
        a = content(nptdms.TdmsFile.read(io.BytesIO(src), raw_timestamps=True))
        b = content(nptdms.TdmsFile.read(io.BytesIO(d.getvalue()), raw_timestamps=True))
    except Exception as ex:  # noqa
        return [], [Violation("corpus: defragment / read raised %r" % ex, rp)]
    ga = {g["name"]: g for g in a["groups"]}
    gb = {g["name"]: g for g in b["groups"]}
    same = a["root"] == b["root"] and sorted(ga) == sorted(gb) and all(
        ga[n]["props"] == gb[n]["props"] and sorted(map(str, ga[n]["channels"])) == sorted(map(str, gb[n]["channels"])) for n in ga)
    return [], ([] if same else [Violation("corpus: defragment changed the content", rp)])
