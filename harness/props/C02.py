"""C02 — Segment metadata inheritance never changes what is read.

Correspondence: reader model vs real reader on every generated encoding, comparing *every segment's object list
after the whole file has been read* (catches in-place mutation of objects shared between segments).
Oracle (real code only): real read of an encoding == real read of its fully explicit normal form (produced by the
Lean spec: every segment restates every active object in full, new object list, metadata present); forbidden
encodings (index reuse never defined, first segment without metadata, data type change) must raise.
"""
import itertools
import os
import struct
import sys

sys.path.insert(0, os.path.dirname(os.path.dirname(os.path.abspath(__file__))))
import canon
import gen_files
from corr_reader import compare_state
from framework import Violation
from leanio import hx
from gen_files import path_of

LEVEL = "proof"
ANCHOR_FILES = ["nptdms/tdms_segment.py", "nptdms/reader.py"]
ASSUMPTIONS = ["an object seen earlier only with 'no data' and later declared 'same as before' is outside the forbidden cases checked (the code accepts it without inventing data)"]
TRUSTED_EXTRA = ["lean/Tdms/Spec/Meaning.lean `explicit` (normal form) and `encodeForbidden`"]

REJECT_KIND = {"reuseOfUndefinedIndex": "reuseUnseen", "firstSegmentWithoutMetadata": "noPrevSegment", "typeChanged": "typeChanged"}


def content_of(r):
    """what the property compares: objects (order, type, length, properties), channel data, group/channel order"""
    if not r.get("ok"):
        return ("error", r.get("err"))
    return dict(objects=[(o["path"], o["ty"], o["numValues"], canon.norm(o["props"])) for o in r["objects"]],
                channels={c["path"]: (c["data"], canon.norm(c["scalers"])) for c in r["channels"]},
                groups=r["groups"])


def small_encodings(rnd, nseg, sample=None):
    """all encodings of `nseg` segments over two int32/float64 channels x {full, prev, nodata, unlisted} x new-list x
    metadata-present x {0,1,2} chunks (invalid ones included: they must be rejected)"""
    pa, pb = path_of("g", "a"), path_of("g", "b")
    kinds = ["F", "M", "N", "U"]
    per_seg = list(itertools.product([True, False], [True, False], kinds, kinds, [0, 1, 2]))
    combos = itertools.product(per_seg, repeat=nseg)
    if sample is not None:
        allc = None
        combos = (tuple(rnd.choice(per_seg) for _ in range(nseg)) for _ in range(sample))
    for combo in combos:
        segs = []
        last = {}
        active = None
        valid_layout = True
        for si, (has_meta, new_list, ka, kb, nchunks) in enumerate(combo):
            objs = []
            if has_meta:
                act = [] if (new_list or active is None) else [list(a) for a in active]
                for p, k, ty, n in ((pa, ka, 3, 2), (pb, kb, 10, 1 + si % 2)):
                    if k == "U":
                        continue
                    if k == "F":
                        idx = ("F", ty, n, 0)
                        last[p] = idx
                        ent = [p, True, idx]
                    elif k == "M":
                        idx = ("M",)
                        ent = [p, True, last.get(p)]
                    else:
                        idx = ("N",)
                        ent = [p, False, last.get(p)]
                    props = [(b"k", 3, struct.pack("<i", si))] if (si + len(p)) % 2 == 0 else []
                    objs.append(dict(path=p, idx=idx, props=props))
                    pos = [i for i, a in enumerate(act) if a[0] == p]
                    if pos:
                        act[pos[0]] = ent
                    else:
                        act.append(ent)
            else:
                act = [list(a) for a in active] if active is not None else []
            data_objs = [a for a in act if a[1] and a[2] is not None]
            cb = sum(a[2][2] * (4 if a[2][1] == 3 else 8) for a in data_objs)
            nch = nchunks if cb > 0 else 0
            chunks = [[[bytes([rnd.getrandbits(8) for _ in range(4 if a[2][1] == 3 else 8)]) for _ in range(a[2][2])] for a in data_objs] for _ in range(nch)]
            segs.append(dict(hasMeta=has_meta, newList=new_list and has_meta, interleaved=False, big=False, rawFlag=nch > 0, daqmxFlag=False,
                             lengthUnknown=False, version=4713, padding=0, objs=objs, chunks=chunks))
            active = act
        yield segs


def check_encoding(ctx, model, nptdms, segs, stats):
    dis, vio = [], []
    e = model.ask(gen_files.to_line(segs))
    stats["encodings"] += 1
    if not e["ok"]:
        kind = REJECT_KIND.get(e.get("reject"))
        if kind is None or "file" not in e:
            return dis, vio
        if e["reject"] == "reuseOfUndefinedIndex":
            # only claim the forbidden case proper: the path never appeared in any earlier listing
            seen = set()
            claim = False
            for s in segs:
                for ob in s["objs"]:
                    if ob["idx"][0] == "M" and ob["path"] not in seen:
                        claim = True
                    seen.add(ob["path"])
                if claim:
                    break
            if not claim:
                stats["observations"] += 1
                return dis, vio
        data = bytes.fromhex(e["file"])
        r, _ = canon.real_read(data, nptdms)
        stats["forbidden"] += 1
        if r.get("ok"):
            vio.append(Violation("forbidden encoding (%s) was read as data instead of being rejected" % e["reject"],
                                 dict(kind="forbidden", file=data.hex(), encoding=gen_files.to_line(segs), reject=e["reject"])))
        m = model.ask("read " + hx(data))
        d = compare_state(m, r)
        if d:
            dis.append(dict(what="forbidden encoding: %s" % d[0], file=data.hex()))
        return dis, vio
    if not e["wf"]:
        return dis, vio
    data = bytes.fromhex(e["file"])
    r, _ = canon.real_read(data, nptdms)
    m = model.ask("read " + hx(data))
    d = compare_state(m, r)
    if d:
        dis.append(dict(what="reader model vs real: %s" % d[0], file=data.hex(), diffs=d[:4]))
    # the spec's content of the well-formed encoding against the real read (the C01 oracle, here on this generator's files: headers
    # that restate, switch off and re-list objects in segments with and without raw data)
    from corr_reader import compare_content
    d2 = compare_content(e["content"], r)
    if d2:
        vio.append(Violation("TdmsFile.read differs from the content the encoding denotes: %s" % d2[0], dict(kind="content", file=data.hex(), encoding=gen_files.to_line(segs), diffs=d2[:4])))
    if e.get("explicit"):
        xdata = bytes.fromhex(e["explicit"])
        rx, _ = canon.real_read(xdata, nptdms)
        stats["normal_forms"] += 1
        a, b = content_of(r), content_of(rx)
        if a != b:
            what = "encoding and its explicit normal form read differently"
            if isinstance(a, dict) and isinstance(b, dict):
                for k in ("objects", "channels", "groups"):
                    if a[k] != b[k]:
                        what += " (%s: %s vs %s)" % (k, str(a[k])[:150], str(b[k])[:150])
                        break
            else:
                what += ": %s vs %s" % (str(a)[:100], str(b)[:100])
            vio.append(Violation(what, dict(kind="normalform", file=data.hex(), explicit=xdata.hex(), encoding=gen_files.to_line(segs))))
        # the same through the lazy API (per-segment object indexes and the offset index are only consulted there)
        if r.get("ok") and rx.get("ok"):
            la, lb = lazy_content(data, nptdms), lazy_content(xdata, nptdms)
            stats["lazy_normal_forms"] = stats.get("lazy_normal_forms", 0) + 1
            for which, lx, dx in (("encoding", la, data), ("explicit normal form", lb, xdata)):
                for pr in lx.pop("<problems>", []):
                    vio.append(Violation("TdmsFile.open (%s): %s" % (which, pr), dict(kind="normalform-lazy", file=dx.hex(), explicit=xdata.hex(), encoding=gen_files.to_line(segs))))
            if la != lb:
                diff = next((p for p in sorted(set(la) | set(lb)) if la.get(p) != lb.get(p)), None)
                vio.append(Violation("TdmsFile.open: encoding and its explicit normal form read differently (%r: %s vs %s)" % (
                    diff, str(la.get(diff))[:120], str(lb.get(diff))[:120]), dict(kind="normalform-lazy", file=data.hex(), explicit=xdata.hex(), encoding=gen_files.to_line(segs))))
    return dis, vio


def window_list(n):
    """windows that start in one segment and end inside another (a function of n only, so both encodings get the same)"""
    if n <= 9:
        return [(o, l) for o in range(n) for l in range(1, n - o + 1)]
    return [(0, n // 2 + 1), (1, max(n - 2, 0)), (n // 3, n // 3 + 1), (max(n - 3, 0), 2)] + [(o, n // 2) for o in range(0, n // 2, 2)]


def lazy_content(data, nptdms):
    """{path: (len, read_data(), data_chunks() concatenated, first / last element, four windows)} through TdmsFile.open"""
    import corr_lazy as cl
    out = {}
    try:
        f, _ = cl.open_real(data, nptdms)
    except Exception as ex:  # noqa
        return {"<open>": repr(ex)[:100]}
    for ch in cl.channels_of(f):
        n = len(ch)
        ent = [n]
        for fn in (lambda: cl.canon_out(ch.read_data(scaled=False)), lambda: [cl.chan_chunk(c._raw_data) for c in ch.data_chunks()],
                   lambda: [canon.scalar_hex(ch[i]) for i in ([0, n - 1] if n else [])],
                   # windows that start in one segment and end inside another (a function of n only, so both encodings get the same)
                   lambda: [cl.canon_out(ch.read_data(o, l, scaled=False)) for o, l in window_list(n)]):
            r = cl.call(fn)
            ent.append(canon.norm(r[1]) if r[0] == "ok" else ("raised", r[1]))
        # chunk boundaries may differ between encodings only if the chunking differs; the explicit form keeps the chunking
        out[ch.path] = ent
        # the windows against the slices of the full lazy read (both encodings may be read wrongly in the same way)
        full, wins = ent[1], ent[4]
        if isinstance(full, dict) and isinstance(full.get("data"), list) and isinstance(wins, list):
            k = 0
            for o, l in window_list(n):
                w = wins[k]
                k += 1
                if not isinstance(w, dict) or w.get("data") != full["data"][o:o + l]:
                    out.setdefault("<problems>", []).append("read_data(%d, %d) of %r gives %s, the slice of the full lazy read is %s" % (
                        o, l, ch.path, str(w.get("data") if isinstance(w, dict) else w)[:80], str(full["data"][o:o + l])[:80]))
                    break
    return out


def forbidden_mutants(rnd, segs):
    """turn a valid encoding into the three forbidden ones"""
    import copy
    out = []
    a = copy.deepcopy(segs)
    a[0]["hasMeta"] = False
    a[0]["newList"] = False
    a[0]["objs"] = []
    a[0]["chunks"] = []
    out.append(a)
    # type change of a path that was given a full index before
    seen = {}
    for si, s in enumerate(segs):
        for oi, ob in enumerate(s["objs"]):
            if ob["idx"][0] == "F":
                if ob["path"] in seen and si > seen[ob["path"]]:
                    b = copy.deepcopy(segs[:si + 1])
                    old = ob["idx"][1]
                    new = 10 if old != 10 else 3
                    b[si]["objs"][oi]["idx"] = ("F", new, ob["idx"][2], 0)
                    b[si]["chunks"] = []
                    out.append(b)
                    seen = None
                    break
                seen.setdefault(ob["path"], si)
        if seen is None:
            break
    # matches-previous for a path never listed before
    c = copy.deepcopy(segs)
    fresh = path_of("never", "seen")
    c[-1]["hasMeta"] = True
    c[-1]["objs"] = c[-1]["objs"] + [dict(path=fresh, idx=("M",), props=[])]
    c[-1]["chunks"] = []
    out.append(c)
    return out


def run(ctx):
    nptdms = ctx.nptdms()
    model = ctx.get_model() if ctx.build_ok else None
    if model is None:
        return dict(coverage=dict(evaluations=0, distinct_nontrivial=0, rule="model unavailable", samples=[]))
    stats = dict(encodings=0, forbidden=0, normal_forms=0, observations=0)
    disagreements, violations, samples = [], [], []
    feats = {}
    nontrivial = set()

    def handle(segs):
        d, v = check_encoding(ctx, model, nptdms, segs, stats)
        disagreements.extend(d)
        violations.extend(v)
        f = gen_files.features(segs)
        for t in f:
            feats[t] = feats.get(t, 0) + 1
        if {"hdr-matches-prev", "no-metadata", "carry-over-list", "hdr-nodata"} & f:
            nontrivial.add(gen_files.to_line(segs))
        return len(violations) >= 5 or len(disagreements) >= ctx.dis_limit

    stop = False
    # exhaustive small scope
    if ctx.tier == "thorough":
        for segs in small_encodings(ctx.rnd, 2):
            if handle(segs):
                stop = True
                break
        it = small_encodings(ctx.rnd, 3, sample=20000)
    else:
        it = itertools.chain(small_encodings(ctx.rnd, 2, sample=ctx.n(500, 0)), small_encodings(ctx.rnd, 3, sample=ctx.n(500, 0)))
    if not stop:
        for segs in it:
            if handle(segs):
                stop = True
                break
            if ctx.tier == "quick" and ctx.elapsed() > 25:
                break
    # random larger encodings + forbidden mutants
    if not stop:
        for i in range(ctx.n(600, 20000)):
            segs = gen_files.FileGen(ctx.rnd, max_segs=8, max_paths=5).draw()
            if handle(segs):
                break
            if i % 3 == 0:
                for mseg in forbidden_mutants(ctx.rnd, segs):
                    if handle(mseg):
                        break
            if len(samples) < 2 and len(segs) <= 3:
                samples.append(dict(encoding=gen_files.to_line(segs)))
            if ctx.tier == "quick" and ctx.elapsed() > 50:
                ctx.notes.append("stopped after %d encodings (time budget)" % stats["encodings"])
                break
    # DAQmx objects through the same inheritance rules: switched off ("no data") and re-enabled by "same as before"
    if not (len(violations) >= 5 or len(disagreements) >= ctx.dis_limit):
        import gen_daqmx
        for i in range(ctx.n(150, 4000)):
            segs = gen_daqmx.draw(ctx.rnd, max_segs=5, reenable=True)
            stats["daqmx_encodings"] = stats.get("daqmx_encodings", 0) + 1
            if handle(segs):
                break
    return dict(violations=violations[:5], disagreements=disagreements[:20],
                coverage=dict(evaluations=stats["encodings"], distinct_nontrivial=len(nontrivial),
                              rule="small scope: encodings of 2 (thorough: all 36 864; quick: sampled) and 3 segments over two channels x {full, matches-previous, "
                                   "no-data, unlisted} x new-list x metadata-present x {0,1,2} chunks, invalid ones included; random encodings up to 8 segments x 5 "
                                   "objects; the three forbidden mutants of every third random encoding; DAQmx encodings (gen_daqmx, up to 5 segments) whose objects are switched off and re-enabled by matches-previous; non-trivial = distinct encodings using matches-previous, "
                                   "no-data, carried-over lists or no-metadata segments",
                              samples=samples or [dict(note="see feature_counts")], counts=stats, feature_counts=dict(sorted(feats.items())),
                              exhaustive=(ctx.tier == "thorough")))


def search(ctx, broken, disagreements):
    ctx.budget_factor = max(ctx.budget_factor, 4)
    return run(ctx)["violations"][:1]


def replay(ctx, path):
    import json
    with open(path) as f:
        rp = json.load(f)["replay"]
    nptdms = ctx.nptdms()
    r, _ = canon.real_read(bytes.fromhex(rp["file"]), nptdms)
    if rp["kind"] == "forbidden":
        print("replay: %s" % ("forbidden encoding accepted" if r.get("ok") else "rejected: %s" % r.get("exc")))
        return 1 if r.get("ok") else 0
    rx, _ = canon.real_read(bytes.fromhex(rp["explicit"]), nptdms)
    same = content_of(r) == content_of(rx)
    print("replay: %s" % ("property holds" if same else "encoding and normal form still read differently"))
    return 0 if same else 1


def corpus(ctx, entry):
    rp = entry["replay"]
    nptdms = ctx.nptdms()
    vio = []
    r, _ = canon.real_read(bytes.fromhex(rp["file"]), nptdms)
    if rp.get("kind") == "forbidden":
        if r.get("ok"):
            vio.append(Violation("corpus: forbidden encoding read as data", rp))
    elif rp.get("explicit"):
        rx, _ = canon.real_read(bytes.fromhex(rp["explicit"]), nptdms)
        if content_of(r) != content_of(rx):
            vio.append(Violation("corpus: encoding and its explicit normal form read differently", rp))
    dis = []
    if ctx.build_ok:
        d = compare_state(ctx.get_model().ask("read " + hx(bytes.fromhex(rp["file"]))), r)
        if d:
            dis.append(dict(what="corpus: reader model vs real: %s" % d[0], file=rp["file"]))
    return dis, vio
