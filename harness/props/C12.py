"""C12 — Timestamps round-trip exactly and convert to datetime64 within one unit.

Correspondence: Lean `Model/Timestamp.lean` (`encodeFloor`, `decode`, `decodeArr`, `toBytesLE`) vs the real
`nptdms.types.TimeStamp`, `TdmsTimestamp.as_datetime64`, `TimestampArray.as_datetime64`.
Oracle (real code only): write -> read identity; distance to the exact rational time < 1 unit; monotonicity;
scalar == array; time_track shape/start/spacing; absolute time track within one unit.
"""
import io
import os
import struct
import sys
from fractions import Fraction

import numpy as np

sys.path.insert(0, os.path.dirname(os.path.dirname(os.path.abspath(__file__))))
import canon
from framework import Violation
from leanio import hx

LEVEL = "proof"
ANCHOR_FILES = ["nptdms/types.py", "nptdms/timestamp.py", "nptdms/tdms.py"]
ASSUMPTIONS = ["np.linspace / float multiplication in time_track are IEEE-754 evaluations: the theorem is over a field, spacing is checked numerically",
               "datetime64 arithmetic of NumPy (unit casts, timedelta addition) is modelled as exact integer arithmetic"]
TRUSTED_EXTRA = ["harness/props/C12.py (exact rational oracle with Python integers)"]

EPOCH_UNIX_S = -2082844800
RES = {"s": 1, "ms": 10 ** 3, "us": 10 ** 6, "ns": 10 ** 9}
SECONDS_SAMPLES = [0, 1, -1, 59, 3771234567, -2082844800, 2082844800, 2 ** 31, -2 ** 31, 2 ** 32 + 5, -60000000000 + 17,
                   250000000000, 7_000_000_000, -5_000_000_000]


def model_enc(model, deltas):
    out = []
    for i in range(0, len(deltas), 2000):
        out += model.ask("tsenc " + " ".join(str(d) for d in deltas[i:i + 2000]))
    return out


def model_dec(model, R, pairs):
    out = []
    for i in range(0, len(pairs), 2000):
        out += model.ask("tsdec %d " % R + " ".join("%d:%d" % p for p in pairs[i:i + 2000]))
    return out


def boundary_fractions(rnd, extra=60):
    fs = [0, 1, 2 ** 64 - 1, 2 ** 64 - 2, 2 ** 64 - 2 ** 11 - 1, 2 ** 64 - 2 ** 11, 2 ** 64 - 2 ** 11 - 2, 2 ** 63, 2 ** 63 - 1, 2 ** 11, 2 ** 11 - 1]
    for R in RES.values():
        for k in [1, 2, R // 2, R - 1] + [rnd.randrange(1, R) for _ in range(extra // 8)] if R > 1 else []:
            exact = (k << 64) // R
            for d in (-2 ** 11 - 1, -2 ** 11, -2 ** 11 + 1, -1, 0, 1, 2):
                f = exact + d
                if 0 <= f < 2 ** 64:
                    fs.append(f)
    fs += [rnd.getrandbits(64) for _ in range(extra)]
    return sorted(set(fs))


def e2e_case(unit, us, form, prop_form):
    """whole-microsecond instants `us` (microseconds since 1970) written with TdmsWriter as a datetime64[unit] array and as a
    property, read back eagerly, lazily and as raw timestamps"""
    import datetime as _dt
    from nptdms import TdmsWriter, ChannelObject, TdmsFile
    out = []
    want = np.array(us, dtype="int64").astype("datetime64[us]")
    given = want.astype("datetime64[%s]" % unit)
    if not np.array_equal(given.astype("datetime64[us]"), want):
        return out
    data = np.repeat(given, 2)[::2] if form == "strided" else given
    pv = given[0] if prop_form == "datetime64" else want[0].astype(_dt.datetime)
    rp = dict(kind="e2e", unit=unit, form=form, microseconds=[int(x) for x in us], property=prop_form)
    try:
        buf = io.BytesIO()
        with TdmsWriter(buf) as w:
            w.write_segment([ChannelObject("g", "c", data, {"t": pv})])
        fe = TdmsFile.read(io.BytesIO(buf.getvalue()))
        got = fe["g"]["c"][:]
        gp = fe["g"]["c"].properties["t"]
        with TdmsFile.open(io.BytesIO(buf.getvalue())) as fl:
            gl = fl["g"]["c"][:]
        fr = TdmsFile.read(io.BytesIO(buf.getvalue()), raw_timestamps=True)
        graw = fr["g"]["c"][:].as_datetime64("us")
        gpraw = fr["g"]["c"].properties["t"].as_datetime64("us")
    except Exception as ex:  # noqa
        return [Violation("writing %d datetime64[%s] values (%s) and a %s property and reading them back raised %s: %s" % (
            len(us), unit, form, prop_form, type(ex).__name__, str(ex)[:120]), rp)]
    for label, g in (("eager data", got), ("lazy data", gl), ("raw timestamps converted at us", graw)):
        if g.dtype != np.dtype("datetime64[us]") or not np.array_equal(g, want):
            out.append(Violation("datetime64[%s] channel data %s written with TdmsWriter reads back (%s) as %s" % (unit, list(want.astype(str))[:3], label, list(np.asarray(g).astype(str))[:3]), rp))
            break
    for label, g in (("property", gp), ("raw property converted at us", gpraw)):
        if np.datetime64(g, "us") != want[0] or (label == "property" and np.datetime64(g).dtype != np.dtype("datetime64[us]")):
            out.append(Violation("%s property %s written with TdmsWriter reads back (%s) as %s" % (prop_form, want[0], label, g), rp))
            break
    return out


def corpus(ctx, entry):
    ctx.nptdms()
    rp = entry["replay"]
    if rp.get("kind") == "e2e":
        return [], e2e_case(rp["unit"], rp["microseconds"], rp["form"], rp["property"])
    return [], []


def run(ctx):
    nptdms = ctx.nptdms()
    from nptdms.types import TimeStamp
    from nptdms.timestamp import TdmsTimestamp, TimestampArray
    model = ctx.get_model() if ctx.build_ok else None
    rnd = ctx.rnd
    violations, disagreements = [], []
    counts = dict(writer=0, reader_scalar=0, reader_array=0, roundtrip=0, monotone=0, time_track=0, end_to_end=0)
    distinct = set()

    # ---- writer + round trip: microsecond values
    if ctx.tier == "thorough":
        us_values = range(10 ** 6)
        secs_for_all = [3771234567, -1234567]
    else:
        us_values = sorted(set([0, 1, 2, 499999, 500000, 500001, 999998, 999999] + [rnd.randrange(10 ** 6) for _ in range(ctx.n(20000, 20000))]))
        secs_for_all = [3771234567]
    deltas = [s * 10 ** 6 + u for s in secs_for_all for u in us_values]
    deltas += [s * 10 ** 6 + u for s in SECONDS_SAMPLES for u in (0, 1, 999999, rnd.randrange(10 ** 6))]
    # far dates (float division was not exact there)
    deltas += [576460752305000000, -576460752305000000, 2 ** 62 + 123457, -(2 ** 62) - 1, 9 * 10 ** 18 - 7, -(9 * 10 ** 18) + 7]
    deltas += [rnd.randrange(-9 * 10 ** 18, 9 * 10 ** 18) for _ in range(300)]
    menc = model_enc(model, deltas) if model is not None else [None] * len(deltas)
    for d, me in zip(deltas, menc):
        unix_us = d + EPOCH_UNIX_S * 10 ** 6
        if not -2 ** 63 < unix_us < 2 ** 63:
            continue
        v = np.datetime64(unix_us, "us")
        counts["writer"] += 1
        distinct.add(("w", d))
        try:
            b = TimeStamp(v).bytes
        except Exception as ex:
            violations.append(Violation("TimeStamp(%s) raised %r" % (v, ex), dict(kind="write", delta_us=d)))
            if len(violations) > 4:
                break
            continue
        if me is not None and b.hex() != me[2]:
            disagreements.append(dict(what="TimeStamp(%s).bytes=%s model=%s" % (v, b.hex(), me[2])))
        # oracle: read back
        try:
            ts = TimeStamp.read(io.BytesIO(b))
            back = ts.as_datetime64("us")
            arr = TimestampArray(np.frombuffer(b, dtype=[("second_fractions", "<u8"), ("seconds", "<i8")]))
            back_arr = arr.as_datetime64("us")[0]
        except OverflowError:
            continue
        counts["roundtrip"] += 1
        if back != v or back_arr != v:
            violations.append(Violation("datetime64[us] %s written and read back gives %s (array path %s)" % (v, back, back_arr),
                                        dict(kind="roundtrip", delta_us=d, bytes=b.hex()), signature=None))
            if len(violations) > 4:
                break

    # ---- reader: (seconds, fractions) pairs around every boundary
    fracs = boundary_fractions(rnd, 60 if ctx.tier == "quick" else 600)
    secs = [0, -1, 1, 3771234567, -2082844800, 2 ** 31] + [rnd.randint(-2 ** 33, 2 ** 34) for _ in range(4)]
    for res, R in RES.items():
        # only times datetime64[res] can represent: beyond that NumPy raises OverflowError (and NumPy 2 crashes the interpreter when
        # that happens inside a large array operation — observed with 22 260 values at 'ns'); outside the property's quantifier
        pairs = [(s, f) for s in secs[:3 if ctx.tier == "quick" else 10] for f in fracs
                 if abs(s * R) < 2 ** 62 and abs((s + EPOCH_UNIX_S) * R) < 2 ** 62]
        mdec = model_dec(model, R, pairs) if model is not None else [None] * len(pairs)
        arr = np.zeros(len(pairs), dtype=[("second_fractions", "<u8"), ("seconds", "<i8")])
        arr["seconds"] = [p[0] for p in pairs]
        arr["second_fractions"] = np.array([p[1] for p in pairs], dtype=np.uint64)
        try:
            ta = TimestampArray(arr)
            before = np.asarray(arr).tobytes()
            arr_out = ta.as_datetime64(res).astype("int64")
            again = ta.as_datetime64(res).astype("int64")
            # raw timestamps survive bit-exactly: converting does not touch the stored (seconds, fractions), and is repeatable
            if np.asarray(arr).tobytes() != before or np.asarray(ta).tobytes() != before:
                violations.append(Violation("TimestampArray.as_datetime64(%r) modified the raw timestamps it converts" % res, dict(kind="array", res=res)))
            if not np.array_equal(arr_out, again):
                violations.append(Violation("TimestampArray.as_datetime64(%r) called twice on the same array gives different results" % res, dict(kind="array", res=res)))
        except Exception as ex:
            violations.append(Violation("TimestampArray.as_datetime64(%r) raised %r" % (res, ex), dict(kind="array", res=res)))
            continue
        prev = None
        base_count = counts["reader_scalar"]
        for (s, f), md, ao in zip(pairs, mdec, arr_out):
            counts["reader_scalar"] += 1
            counts["reader_array"] += 1
            distinct.add(("r", res, s, f))
            got = int(TdmsTimestamp(s, f).as_datetime64(res).astype("int64")) - EPOCH_UNIX_S * R
            # the same timestamp as an element of the array (its fields are NumPy scalars then, not Python ints)
            if counts["reader_scalar"] % 3 == 0:
                try:
                    got_el = int(ta[counts["reader_scalar"] - base_count - 1].as_datetime64(res).astype("int64")) - EPOCH_UNIX_S * R
                except Exception as ex:  # noqa
                    got_el = repr(ex)
                if got_el != got:
                    violations.append(Violation("as_datetime64(%r) of the array element (%d, %d) gives %s, the same timestamp built from Python ints gives %d" % (res, s, f, got_el, got),
                                                dict(kind="convert", res=res, seconds=s, fractions=f, element=got_el, scalar=got)))
            got_arr = int(ao) - EPOCH_UNIX_S * R
            if md is not None and (md[0] != got or md[1] != got_arr):
                disagreements.append(dict(what="as_datetime64(%r) of (%d,%d): real scalar=%d array=%d model=%s" % (res, s, f, got, got_arr, md)))
            exact = Fraction(s * R) + Fraction(f * R, 2 ** 64)
            if not (exact - 1 < got < exact + 1):
                violations.append(Violation("as_datetime64(%r) of (%d, %d) = %d is not within one unit of the exact time %s" % (res, s, f, got, float(exact)),
                                            dict(kind="convert", res=res, seconds=s, fractions=f, got=got)))
            if got != got_arr:
                violations.append(Violation("scalar and array conversion differ at %r for (%d,%d): %d vs %d" % (res, s, f, got, got_arr),
                                            dict(kind="convert", res=res, seconds=s, fractions=f, scalar=got, array=got_arr)))
            if prev is not None and (prev[0], prev[1]) <= (s, f):
                counts["monotone"] += 1
                if prev[2] > got:
                    violations.append(Violation("conversion not monotone at %r: (%d,%d)->%d but (%d,%d)->%d" % (res, prev[0], prev[1], prev[2], s, f, got),
                                                dict(kind="monotone", res=res, a=prev[:2], b=[s, f])))
            prev = (s, f, got)
            if len(violations) > 4:
                break

    # ---- time_track on channels read from generated files
    if model is not None:
        from gen_files import path_of, to_line
        for _ in range(ctx.n(40, 400)):
            n = rnd.choice([0, 1, 2, 3, 7, 50])
            off = rnd.choice([0.0, 0.5, 0.75, -3.25, 1e-3, 0.0625 * 15, rnd.uniform(-100, 100)])
            inc = rnd.choice([1.0, 0.001, 0.125, 0.75, 2.0 ** -20, rnd.uniform(1e-6, 10)])
            ssec, sfr = rnd.randint(0, 4 * 10 ** 9), rnd.getrandbits(64)
            p = path_of("g", "c")
            props = [(b"wf_increment", 10, struct.pack("<d", inc)), (b"wf_start_offset", 10, struct.pack("<d", off)),
                     (b"wf_start_time", 0x44, struct.pack("<Qq", sfr, ssec))]
            seg = dict(hasMeta=True, newList=True, interleaved=False, big=rnd.random() < 0.5, rawFlag=True, daqmxFlag=False, lengthUnknown=False,
                       version=4713, padding=0, objs=[dict(path=p, idx=("F", 3, n, 0), props=props)],
                       chunks=[[[struct.pack("<i", k) for k in range(n)]]] if n else [])
            e = model.ask(to_line([seg]))
            data = bytes.fromhex(e["file"])
            for raw in (False, True):
                f = nptdms.TdmsFile.read(io.BytesIO(data), raw_timestamps=raw)
                ch = f["g"]["c"]
                counts["time_track"] += 1
                distinct.add(("t", n, off, inc, raw))
                tt = ch.time_track()
                bad = None
                if len(tt) != len(ch) or len(tt) != n:
                    bad = "time_track() has %d points, channel has %d" % (len(tt), len(ch))
                elif n >= 1 and tt[0] != off:
                    bad = "time_track()[0]=%r, wf_start_offset=%r" % (tt[0], off)
                else:
                    for i in range(n):
                        exact = Fraction(off) + i * Fraction(inc)
                        tol = (abs(Fraction(off)) + n * abs(Fraction(inc))) * Fraction(1, 10 ** 13) + Fraction(1, 10 ** 300)
                        if abs(Fraction(float(tt[i])) - exact) > tol:
                            bad = "time_track()[%d]=%r but offset+i*increment=%r" % (i, tt[i], float(exact))
                            break
                if bad is None and n >= 1:
                    for acc, R in (("s", 1), ("ms", 10 ** 3), ("us", 10 ** 6), ("ns", 10 ** 9)):
                        try:
                            ab = ch.time_track(absolute_time=True, accuracy=acc)
                        except OverflowError:
                            continue
                        unit, mult = np.datetime_data(ab.dtype)
                        Ru = {"s": 1, "ms": 10 ** 3, "us": 10 ** 6, "ns": 10 ** 9}[unit] // 1
                        ints = ab.astype("int64")
                        if len(ab) != n:
                            bad = "absolute time_track has %d points" % len(ab)
                            break
                        # the start time is known to 1 us when it was converted on reading, else to one unit of `acc`
                        start_err = Fraction(1, 10 ** 6) if not raw else Fraction(1, R)
                        # "wf_start_time plus THOSE offsets at the requested accuracy": relative to the start time as the channel holds it
                        # (a datetime64, or a raw timestamp converted at `acc` — conversions checked above), sample i lies at the i-th
                        # relative time expressed in units of `acc`, i.e. less than one unit from tt[i] * R (plus the rounding of one
                        # float multiplication)
                        sp = ch.properties["wf_start_time"]
                        try:
                            s64 = sp if isinstance(sp, np.datetime64) else sp.as_datetime64(acc)
                        except Exception:
                            s64 = None
                        if s64 is not None:
                            for i in range(n):
                                d = (ab[i] - s64)
                                du, dm = np.datetime_data(d.dtype)
                                delta = Fraction(int(d.astype("int64")) * dm * R, {"s": 1, "ms": 10 ** 3, "us": 10 ** 6, "ns": 10 ** 9}[du])
                                want = Fraction(float(tt[i])) * R
                                if abs(delta - want) >= 1 + abs(want) * Fraction(1, 2 ** 50):
                                    bad = "absolute time_track(accuracy=%r)[%d] is wf_start_time + %s %s, but time_track()[%d]=%r is %s %s" % (
                                        acc, i, float(delta), acc, i, float(tt[i]), float(want), acc)
                                    break
                            if bad:
                                break
                        for i in range(n):
                            exact = Fraction(ssec) + Fraction(sfr, 2 ** 64) + Fraction(off) + i * Fraction(inc) + EPOCH_UNIX_S
                            got = Fraction(int(ints[i]) * mult, Ru)
                            if abs(got - exact) > start_err + Fraction(2, R) + abs(exact) * Fraction(1, 10 ** 14):
                                bad = "absolute time_track(accuracy=%r)[%d]=%s s since 1970, exact %s" % (acc, i, float(got), float(exact))
                                break
                        if bad:
                            break
                if bad:
                    violations.append(Violation(bad, dict(kind="time_track", n=n, offset=off, increment=inc, start=[ssec, sfr], raw_timestamps=raw, file=data.hex())))
            if len(violations) > 4:
                break
    # ---- raw timestamps (seconds, 2^-64 fractions) survive read, write and defragment bit-exactly, in both byte orders
    if model is not None:
        import gen_files
        import canon
        counts["raw_files"] = 0
        for _ in range(ctx.n(120, 3000)):
            segs = gen_files.FileGen(rnd, types=[0x44], max_segs=3, max_paths=2).draw()
            e = model.ask(gen_files.to_line(segs))
            if not e.get("ok") or not e.get("wf"):
                continue
            data = bytes.fromhex(e["file"])
            counts["raw_files"] += 1
            exp = {o["path"]: o["values"] for o in e["content"] if o["ty"] == 0x44}
            exp_props = {(o["path"], pr[0]): pr[2] for o in e["content"] for pr in o["props"] if pr[1] == 0x44}
            try:
                fe = nptdms.TdmsFile.read(io.BytesIO(data), raw_timestamps=True)
                fl = nptdms.TdmsFile.open(io.BytesIO(data), raw_timestamps=True)
                d = io.BytesIO()
                nptdms.TdmsWriter.defragment(io.BytesIO(data), d)
                fd = nptdms.TdmsFile.read(io.BytesIO(d.getvalue()), raw_timestamps=True)
            except Exception as ex:  # noqa
                violations.append(Violation("reading / defragmenting a timestamp file raised %r" % ex, dict(kind="raw-file", file=data.hex())))
                continue
            for label, f in (("eager read", fe), ("lazy read", fl), ("defragmented copy", fd)):
                for g in f.groups():
                    for c in g.channels():
                        p = c.path.encode("utf-8").hex()
                        if p not in exp:
                            continue
                        got = canon.value_bytes(c[:]) if label != "lazy read" else canon.value_bytes(c.read_data())
                        distinct.add(("rawfile", data[:40], p, label))
                        if got != exp[p]:
                            violations.append(Violation("raw timestamps of %r differ from the encoded (seconds, fractions) in the %s: %s vs %s" % (
                                c.path, label, got[:3], exp[p][:3]), dict(kind="raw-file", file=data.hex(), path=p, how=label)))
                        else:
                            # the same values one by one: iteration over the channel, and over the slices of every chunk
                            ways = [("iteration", lambda: list(c))]
                            if label == "lazy read":
                                ways.append(("iteration over chunk[:] of data_chunks()", lambda: [t for ck in c.data_chunks() for t in ck[:]]))
                                ways.append(("integer indexing", lambda: [c[k] for k in range(len(c))]))
                            def index_then_slices():
                                arr = c[:] if label != "lazy read" else c.read_data()
                                if len(arr) < 3:
                                    return list(arr)
                                first = arr[0]                   # a single item first ...
                                part, rev = arr[2:], arr[::-1]    # ... then slices of the same array, taken item by item
                                return [first, arr[1]] + [part[j] for j in range(len(part))] if [rev[j] for j in range(len(rev))][::-1] == [arr[j] for j in range(len(arr))] else ["reversed slice differs"]
                            ways.append(("item access followed by slices", index_then_slices))
                            for wl, wf in ways:
                                try:
                                    one = [struct.pack("<Qq", int(t.second_fractions), int(t.seconds)).hex() for t in wf()]
                                except Exception as ex:  # noqa
                                    one = "raised %s: %s" % (type(ex).__name__, str(ex)[:80])
                                if one != exp[p]:
                                    violations.append(Violation("raw timestamps of %r taken by %s in the %s differ from the encoded (seconds, fractions): %s vs %s" % (
                                        c.path, wl, label, str(one)[:100], exp[p][:3]), dict(kind="raw-file", file=data.hex(), path=p, how=label + ", " + wl)))
                                    break
                        for k, v in c.properties.items():
                            want = exp_props.get((p, k.encode("utf-8").hex()))
                            if want is not None and hasattr(v, "second_fractions") and struct.pack("<Qq", int(v.second_fractions), int(v.seconds)).hex() != want:
                                violations.append(Violation("raw timestamp property %r of %r differs in the %s" % (k, c.path, label), dict(kind="raw-file", file=data.hex(), path=p)))
            if len(violations) > 4:
                break
    # ---- end to end through TdmsWriter: the same instants handed over in every FORM the writer accepts (datetime64 arrays in units
    # D / s / ms / us / ns holding whole microseconds, strided views, datetime.datetime), as channel data and as properties
    if len(violations) <= 4:
        for _ in range(ctx.n(60, 1500)):
            unit = rnd.choice(["us", "us", "ns", "ns", "ms", "s", "D"])
            per = {"us": 1, "ns": 1, "ms": 10 ** 3, "s": 10 ** 6, "D": 86400 * 10 ** 6}[unit]
            n = rnd.choice([1, 2, 3, 5])
            if unit == "ns":
                us = [rnd.randrange(-9 * 10 ** 15, 9 * 10 ** 15) for _ in range(n)]          # datetime64[ns] spans 1678..2262
            else:
                us = [rnd.randrange(-6 * 10 ** 16, 25 * 10 ** 16) // per * per for _ in range(n)]
            if rnd.random() < 0.3:
                # the instants whose stored form is special: the TDMS epoch itself (seconds = 0, fractions = 0) and its neighbours, the unix epoch
                sp = rnd.choice([EPOCH_UNIX_S * 10 ** 6, EPOCH_UNIX_S * 10 ** 6 + 1, EPOCH_UNIX_S * 10 ** 6 - 1, 0, -1, 1])
                if sp % per == 0:
                    us[0] = sp
            form = rnd.choice(["array", "array", "strided"])
            prop_form = "datetime64" if rnd.random() < 0.6 or not 0 < us[0] < 2 * 10 ** 17 else "datetime"
            counts["end_to_end"] += 1
            distinct.add(("e2e", unit, tuple(us)))
            violations += e2e_case(unit, us, form, prop_form)
            if len(violations) > 4:
                break
    ev = sum(counts.values())
    return dict(violations=violations[:5], disagreements=disagreements[:20],
                coverage=dict(evaluations=ev, distinct_nontrivial=len(distinct),
                              rule="writer: microsecond values (thorough: all 10^6 sub-second values x 2 seconds; quick: 20 000 sampled) x sampled seconds incl. "
                                   "pre-1904, far dates up to the datetime64[us] range; end to end through TdmsWriter and TdmsFile (eager, lazy, raw timestamps): whole-microsecond instants handed over as datetime64 arrays in units D/s/ms/us/ns (also strided views) and as datetime64 / datetime.datetime properties; reader: (seconds, fractions) with fractions adjacent to every k*2^64/R "
                                   "boundary (offsets -2^11-1..+2), 0, 2^64-1, saturation edge, random; resolutions s/ms/us/ns, scalar and array; time_track on "
                                   "channels of length 0,1,2,3,7,50; distinct_nontrivial = distinct inputs",
                              samples=[dict(delta_us=deltas[0], model=menc[0]), dict(fraction_boundaries=fracs[:12])],
                              exhaustive=(ctx.tier == "thorough"), counts=counts))


def search(ctx, broken, disagreements):
    ctx.tier = "thorough"
    ctx.build_ok = ctx.build_ok
    r = run(ctx)
    return r["violations"][:1]


def replay(ctx, path):
    import json
    ctx.nptdms()
    from nptdms.types import TimeStamp
    with open(path) as f:
        rp = json.load(f)["replay"]
    if rp.get("kind") == "e2e":
        v = e2e_case(rp["unit"], rp["microseconds"], rp["form"], rp["property"])
        print("replay: %s" % ([x.what for x in v] or "the instants round-trip"))
        return 1 if v else 0
    if rp.get("kind") in ("roundtrip", "write"):
        v = np.datetime64(rp["delta_us"] + EPOCH_UNIX_S * 10 ** 6, "us")
        back = TimeStamp.read(io.BytesIO(TimeStamp(v).bytes)).as_datetime64("us")
        print("replay: wrote %s read %s" % (v, back))
        return 0 if back == v else 1
    print("replay: re-running the full check")
    r = run(ctx)
    return 1 if r["violations"] else 0
