"""C15 — Byte order of a segment does not change its meaning.

Correspondence: reader model vs real reader on all-little, all-big and mixed encodings of the same content.
Oracle (real code only): the three real reads give identical objects, property values and channel data.
"""
import copy
import os
import sys

sys.path.insert(0, os.path.dirname(os.path.dirname(os.path.abspath(__file__))))
import canon
import gen_files
import gen_daqmx
from corr_reader import compare_state
from framework import Violation
from leanio import hx
from props.C02 import content_of

LEVEL = "proof"
ANCHOR_FILES = ["nptdms/reader.py", "nptdms/tdms_segment.py", "nptdms/types.py", "nptdms/daqmx.py", "nptdms/channel_data.py"]
ASSUMPTIONS = ["digital-line scalers wider than one byte are excluded from big-endian DAQmx comparisons (the addressed bit depends on the declared byte order)"]
TRUSTED_EXTRA = ["lean/Tdms/Spec/Format.lean storeValue/swapAtoms (per-atom byte reversal; complex numbers have two atoms)"]


def variants(rnd, segs):
    out = []
    for mode in ("little", "big", "mixed"):
        bigs = [{"little": False, "big": True, "mixed": rnd.random() < 0.5}[mode] for _ in segs]
        if "_fields" in segs[0]:
            # DAQmx: raw buffers hold the scaler values in the segment's byte order
            v = gen_daqmx.reorder(segs, bigs)
        else:
            v = copy.deepcopy(segs)
            for s, b in zip(v, bigs):
                s["big"] = b
        out.append((mode, v))
    return out


def converted_timestamps(data, nptdms):
    """the timestamp channels and properties of a file read the DEFAULT way (raw_timestamps=False: converted to datetime64[us]),
    eagerly, through the lazy full read and through the chunk stream: {path: [microseconds...] or the kind of error}"""
    import io
    import numpy as np
    out = {}

    def us(arr):
        return [int(x) for x in np.asarray(arr).astype("datetime64[us]").astype("int64")]
    try:
        fe = nptdms.TdmsFile.read(io.BytesIO(data))
        fl = nptdms.TdmsFile.open(io.BytesIO(data))
    except Exception as ex:  # noqa
        return {"<read>": type(ex).__name__}
    try:
        for g in fe.groups():
            for ch in g.channels():
                for k, v in ch.properties.items():
                    if isinstance(v, np.datetime64):
                        out[ch.path + "#" + k] = us([v])
                if ch.data_type is None or ch.data_type.enum_value != 0x44:
                    continue
                for label, fn in (("eager", lambda: us(ch[:])), ("lazy", lambda: us(fl[g.name][ch.name][:])),
                                  ("chunks", lambda: [x for c in fl[g.name][ch.name].data_chunks() for x in us(c[:])])):
                    try:
                        out[ch.path + " " + label] = fn()
                    except Exception as ex:  # noqa
                        out[ch.path + " " + label] = type(ex).__name__
    finally:
        fl.close()
    return out


def run(ctx):
    nptdms = ctx.nptdms()
    model = ctx.get_model() if ctx.build_ok else None
    if model is None:
        return dict(coverage=dict(evaluations=0, distinct_nontrivial=0, rule="model unavailable", samples=[]))
    disagreements, violations, samples = [], [], []
    stats = dict(contents=0, reads=0, daqmx=0)
    feats = {}
    nontrivial = 0
    for i in range(ctx.n(500, 20000)):
        if i % 5 == 4:
            segs = gen_daqmx.draw(ctx.rnd, byte_digital_only=False, disjoint=True)
            stats["daqmx"] += 1
        else:
            segs = gen_files.FileGen(ctx.rnd).draw()
        stats["contents"] += 1
        ref = None
        types_here = set()
        for mode, v in variants(ctx.rnd, segs):
            e = model.ask(gen_files.to_line(v))
            if not e.get("ok") or not e.get("wf"):
                break
            data = bytes.fromhex(e["file"])
            r, _ = canon.real_read(data, nptdms)
            stats["reads"] += 1
            m = model.ask("read " + hx(data))
            d = compare_state(m, r)
            if d:
                disagreements.append(dict(what="%s-endian encoding: %s" % (mode, d[0]), file=data.hex()))
            c = content_of(r)
            if isinstance(c, dict) and r.get("ok"):
                # the lazy API decodes through other code paths (per-channel reads of contiguous / interleaved / DAQmx chunks)
                from props.C02 import lazy_content
                c = dict(c, lazy=lazy_content(data, nptdms))
                if any(o["ty"] == 0x44 for o in e["content"]):
                    c["converted"] = converted_timestamps(data, nptdms)
            if ref is None:
                ref = (mode, c, data)
            elif c != ref[1]:
                what = "%s-endian encoding reads differently from the little-endian encoding of the same content" % mode
                if isinstance(c, dict) and isinstance(ref[1], dict):
                    for k in ("objects", "channels", "groups", "lazy", "converted"):
                        if c.get(k) != ref[1].get(k):
                            what += " (%s: %s vs %s)" % (k, str(c.get(k))[:160], str(ref[1].get(k))[:160])
                            break
                else:
                    what += ": %s vs %s" % (str(c)[:100], str(ref[1])[:100])
                violations.append(Violation(what, dict(kind="order", little=ref[2].hex(), other=data.hex(), mode=mode)))
        f = gen_files.features(segs)
        for t in f:
            feats[t] = feats.get(t, 0) + 1
        if ref is not None and isinstance(ref[1], dict) and any(v[0] or v[1] for v in ref[1]["channels"].values()):
            nontrivial += 1
        if len(samples) < 2 and len(segs) <= 2:
            samples.append(dict(encoding=gen_files.to_line(segs)))
        if len(violations) >= 5 or len(disagreements) >= ctx.dis_limit:
            break
        if ctx.tier == "quick" and ctx.elapsed() > 45:
            break
    return dict(violations=violations[:5], disagreements=disagreements[:20],
                coverage=dict(evaluations=stats["reads"], distinct_nontrivial=nontrivial,
                              rule="each generated content (standard files incl. all 17 types, timestamps, strings, properties of every type; every fifth a DAQmx "
                                   "file) encoded all-little, all-big and with a random byte order per segment; non-trivial = contents holding at least one value",
                              samples=samples or [dict(note="see feature_counts")], counts=stats, feature_counts=dict(sorted(feats.items()))))


def search(ctx, broken, disagreements):
    ctx.budget_factor = max(ctx.budget_factor, 4)
    return run(ctx)["violations"][:1]


def replay(ctx, path):
    import json
    with open(path) as f:
        rp = json.load(f)["replay"]
    nptdms = ctx.nptdms()
    a, _ = canon.real_read(bytes.fromhex(rp["little"]), nptdms)
    b, _ = canon.real_read(bytes.fromhex(rp["other"]), nptdms)
    same = content_of(a) == content_of(b)
    print("replay: %s" % ("property holds" if same else "the two encodings still read differently"))
    return 0 if same else 1
