"""C11 — DAQmx raw data is decoded at the declared buffer, stride, offset and type.

Correspondence: Lean reader / lazy model vs the real reader on generated DAQmx files (and the repo's
Digital_Input.tdms / raw1.tdms through C01's anchors).
Oracle (real code only): direct byte arithmetic on the generated buffers (`gen_daqmx.expected_values`) vs
raw_scaler_data / raw_data / read_data(scaled=False); lazy windows and chunk streams = slices of the eager
result; a truncated final chunk yields only complete rows and len() = rows.
"""
import os
import sys

sys.path.insert(0, os.path.dirname(os.path.dirname(os.path.abspath(__file__))))
import canon
import gen_files
import gen_daqmx
import corr_lazy as cl
from corr_reader import compare_state
from framework import Violation
from leanio import hx

LEVEL = "proof"
ANCHOR_FILES = ["nptdms/daqmx.py", "nptdms/tdms_segment.py", "nptdms/base_segment.py", "nptdms/channel_data.py", "nptdms/reader.py"]
ASSUMPTIONS = ["objects sharing a raw buffer declare the same number of values and every scaler of an object lives in buffers of that length (the format's own constraint)",
               "for digital-line scalers wider than one byte the addressed bit is relative to the declared byte order",
               "timestamp-typed DAQmx scalers are not generated (DaqmxDataReceiver cannot store them: observation, DESIGN 6.9)"]
TRUSTED_EXTRA = ["harness/gen_daqmx.py incl. its direct byte-arithmetic oracle"]


def real_channel_values(f):
    out = {}
    for ch in cl.channels_of(f):
        p = ch.path.encode("utf-8")
        if ch.data_type is not None and ch.data_type.enum_value == 0xFFFFFFFF:
            rs = ch.raw_scaler_data
            out[p] = {int(k): canon.value_bytes(v) for k, v in rs.items()}
        else:
            out[p] = {None: canon.value_bytes(ch.raw_data)}
    return out


_MM = []


def memmap_tmp():
    if not _MM:
        import atexit
        import shutil
        import tempfile
        _MM.append(tempfile.mkdtemp(prefix="nptdms_verif_c11_"))
        atexit.register(shutil.rmtree, _MM[0], True)
    return _MM[0]


def check_file(ctx, model, nptdms, segs, data, stats, cut=None):
    dis, vio = [], []
    r, fe = canon.real_read(data, nptdms)
    if model is not None:
        m = model.ask("read " + hx(data))
        d = compare_state(m, r)
        if d:
            dis.append(dict(what="DAQmx read: %s" % d[0], file=data.hex()))
    if not r.get("ok"):
        vio.append(Violation("TdmsFile.read failed on a well-formed DAQmx file%s: %s" % (" cut at %d" % cut if cut else "", r.get("exc")),
                             dict(kind="daqmx", file=data.hex(), encoding=gen_files.to_line(segs))))
        return dis, vio
    got = real_channel_values(fe)
    # the same file read with memmap_dir (file-backed receivers): identical values
    mm = memmap_tmp() if (getattr(ctx, "always_memmap", False) or ctx.rnd.random() < 0.5) else None
    if mm is not None:
        stats["memmap_reads"] = stats.get("memmap_reads", 0) + 1
        import io
        rm = cl.call(lambda: real_channel_values(nptdms.TdmsFile.read(io.BytesIO(data), raw_timestamps=True, memmap_dir=mm)))
        if rm[0] != "ok" or rm[1] != got:
            vio.append(Violation("TdmsFile.read(memmap_dir=...) of a DAQmx file %s" % ("raised %s" % rm[2] if rm[0] != "ok" else "gives other scaler data than the read without memmap_dir: %s vs %s" % (
                str(rm[1])[:120], str(got)[:120])), dict(kind="daqmx-memmap", file=data.hex(), encoding=gen_files.to_line(segs))))
    if cut is None:
        exp = gen_daqmx.expected_values(segs)
        stats["decoded"] += 1
        for p, d in exp.items():
            for k, vals in d.items():
                g = got.get(p, {}).get(k)
                if g != [v.hex() for v in vals]:
                    vio.append(Violation("scaler %s of %r: values differ from the bytes at the declared buffer/stride/offset (got %s..., expected %s...)" % (
                        k, p, str(g)[:80], str([v.hex() for v in vals])[:80]), dict(kind="daqmx", file=data.hex(), encoding=gen_files.to_line(segs), path=p.hex(), scaler=k)))
        for ch in cl.channels_of(fe):
            p = ch.path.encode("utf-8")
            n = len(ch)
            for k, vals in got.get(p, {}).items():
                if len(vals) != n:
                    vio.append(Violation("len(channel)=%d but scaler %s of %r has %d values" % (n, k, p, len(vals)), dict(kind="daqmx", file=data.hex(), path=p.hex())))
    # lazy windows and chunk streams vs eager
    fl, st = cl.open_real(data, nptdms, **(dict(memmap_dir=mm) if mm is not None else {}))
    for ch in cl.channels_of(fl):
        p = ch.path.encode("utf-8")
        n = len(ch)
        eager = got.get(p, {})
        ws = cl.windows_for(n, ctx.rnd, n <= 6, sample=25)
        mres = None
        if model is not None:
            rr = model.ask("wins %s %s %s" % (hx(data), hx(p), " ".join("%d:%s" % (o, cl.tok(l)) for o, l in ws)))
            mres = rr.get("results") if rr.get("ok") else None
        for i, (o, l) in enumerate(ws):
            st.take_log()
            real = cl.call(lambda: ch.read_data(o, l, scaled=False))
            trace = cl.merge_ranges(st.take_log())
            stats["windows"] += 1
            if real[0] != "ok":
                vio.append(Violation("lazy read_data(%d,%s) of DAQmx channel %r raised %s" % (o, l, p, real[2]), dict(kind="daqmx-window", file=data.hex(), path=p.hex(), offset=o, length=l)))
                continue
            rc = cl.canon_out(real[1])
            sl = (lambda v: v[o:] if l is None else v[o:o + l])
            if rc["data"] is not None:
                ok = rc["data"] == sl(eager.get(None, []))
            else:
                ok = all(dict((a, b) for a, b in rc["scalers"]).get(k) == sl(v) for k, v in eager.items())
            if not ok:
                vio.append(Violation("lazy read_data(%d,%s) of DAQmx channel %r is not the slice of the eager data" % (o, l, p),
                                     dict(kind="daqmx-window", file=data.hex(), path=p.hex(), offset=o, length=l)))
            if mres is not None:
                mm = mres[i]
                if "err" in mm or mm["out"] is None:
                    dis.append(dict(what="DAQmx window (%d,%s) of %r: model %s" % (o, l, p, str(mm)[:80]), file=data.hex()))
                else:
                    mo = mm["out"]
                    if (mo["data"] or []) != (rc["data"] or []) or canon.norm(mo["scalers"]) != canon.norm(rc["scalers"]) or cl.merge_ranges(mm["trace"]) != trace:
                        dis.append(dict(what="DAQmx window (%d,%s) of %r differs (values or I/O trace)" % (o, l, p), file=data.hex()))
        # chunk stream
        acc = {}
        total = 0
        try:
            # draw the whole stream first: chunks already delivered must not change when later chunks are read
            for c in list(ch.data_chunks()):
                raw = c._raw_data
                if c.offset != total:
                    vio.append(Violation("DAQmx chunk offset %d but %d values delivered before" % (c.offset, total), dict(kind="daqmx-chunks", file=data.hex(), path=p.hex())))
                total += len(c)
                if raw.data is not None:
                    acc.setdefault(None, [])
                    acc[None] += canon.value_bytes(raw.data)
                if raw.scaler_data is not None:
                    for k, v in raw.scaler_data.items():
                        acc.setdefault(int(k), [])
                        acc[int(k)] += canon.value_bytes(v)
            stats["streams"] += 1
            for k, v in eager.items():
                if acc.get(k, []) != v:
                    vio.append(Violation("concatenated DAQmx chunk stream of %r (scaler %s) differs from the eager data" % (p, k), dict(kind="daqmx-chunks", file=data.hex(), path=p.hex())))
        except Exception as ex:
            vio.append(Violation("DAQmx channel.data_chunks() raised %r" % ex, dict(kind="daqmx-chunks", file=data.hex(), path=p.hex())))
    return dis, vio


def mid_file_cut(ctx, nptdms, data):
    """the same file with the raw data of a NON-final segment shortened by less than a chunk (its lead-in says so): a segment
    whose data is not a whole number of chunks in the middle of a file. Returns the new bytes or None."""
    import io
    import struct
    try:
        with nptdms.TdmsFile.open(io.BytesIO(data)) as f:
            segs = list(f._reader._segments)
            cands = [(k, s) for k, s in enumerate(segs[:-1]) if s.num_chunks >= 2 and s._get_chunk_size() >= 2]
            if not cands:
                return None
            k, s = ctx.rnd.choice(cands)
            cut = ctx.rnd.randint(1, s._get_chunk_size() - 1)
            pos, nxt = s.position, s.next_segment_pos
    except Exception:
        return None
    big = (data[pos + 4] >> 6) & 1
    fmt = ">Q" if big else "<Q"
    old = struct.unpack(fmt, data[pos + 12:pos + 20])[0]
    if old < cut:
        return None
    b = bytearray(data[:nxt - cut] + data[nxt:])
    b[pos + 12:pos + 20] = struct.pack(fmt, old - cut)
    return bytes(b)


def check_cuts(ctx, model, nptdms, segs, data, stats):
    """truncated final chunk: only complete rows, prefix of the uncut data, len = rows"""
    dis, vio = [], []
    r_full, f_full = canon.real_read(data, nptdms)
    if not r_full.get("ok"):
        return dis, vio
    full = real_channel_values(f_full)
    last_data_start = r_full["segments"][-1]["dataPos"] if r_full["segments"] else len(data)
    cuts = [k for k in range(last_data_start, len(data))]
    if len(cuts) > 12:
        cuts = ctx.rnd.sample(cuts, 12)
    for k in cuts:
        cd = data[:k]
        stats["cuts"] += 1
        r, f = canon.real_read(cd, nptdms)
        if model is not None:
            m = model.ask("read " + hx(cd))
            d = compare_state(m, r)
            if d:
                dis.append(dict(what="DAQmx cut at %d: %s" % (k, d[0]), file=cd.hex()))
        if not r.get("ok"):
            vio.append(Violation("DAQmx file cut at %d: read raised %s" % (k, r.get("exc")), dict(kind="daqmx-cut", file=data.hex(), cut=k)))
            continue
        got = real_channel_values(f)
        for ch in cl.channels_of(f):
            p = ch.path.encode("utf-8")
            for kk, vals in got.get(p, {}).items():
                fv = full.get(p, {}).get(kk, [])
                if vals != fv[:len(vals)]:
                    vio.append(Violation("DAQmx file cut at %d: scaler %s of %r is not a prefix of the uncut data" % (k, kk, p), dict(kind="daqmx-cut", file=data.hex(), cut=k)))
                elif len(vals) != len(ch):
                    vio.append(Violation("DAQmx file cut at %d: len(channel)=%d but %d values returned" % (k, len(ch), len(vals)), dict(kind="daqmx-cut", file=data.hex(), cut=k)))
    return dis, vio


def run(ctx):
    nptdms = ctx.nptdms()
    model = ctx.get_model() if ctx.build_ok else None
    if model is None:
        return dict(coverage=dict(evaluations=0, distinct_nontrivial=0, rule="model unavailable", samples=[]))
    stats = dict(files=0, decoded=0, windows=0, streams=0, cuts=0)
    disagreements, violations, samples = [], [], []
    nontrivial = set()
    shapes = {}
    for i in range(ctx.n(250, 10000)):
        segs = gen_daqmx.draw(ctx.rnd)
        e = model.ask(gen_files.to_line(segs))
        if not e.get("ok") or not e.get("wf"):
            continue
        data = bytes.fromhex(e["file"])
        stats["files"] += 1
        d, v = check_file(ctx, model, nptdms, segs, data, stats)
        disagreements += d
        violations += v
        if i % 2 == 0:
            d, v = check_cuts(ctx, model, nptdms, segs, data, stats)
            disagreements += d
            violations += v
        if i % 3 == 1:
            # an incomplete final chunk in the MIDDLE of the file: eager read, lazy windows and chunk streams must still agree
            md = mid_file_cut(ctx, nptdms, data)
            if md is not None:
                stats["mid_file_cuts"] = stats.get("mid_file_cuts", 0) + 1
                import gen_daqmx as gd_
                keep_ = gd_.expected_values
                gd_.expected_values = lambda segs_: {}
                try:
                    _d, v = check_file(ctx, None, nptdms, [], md, stats)
                finally:
                    gd_.expected_values = keep_
                for x in v:
                    x.what = "[a non-final segment shortened by less than a chunk] " + x.what
                violations += v
        idx = [ob["idx"] for s in segs for ob in s["objs"] if ob["idx"][0] == "D"]
        nb = len(idx[0][5]) if idx else 0
        key = "buffers=%d digital=%s chunks=%d" % (nb, idx[0][1] if idx else None, max(len(s["chunks"]) for s in segs))
        shapes[key] = shapes.get(key, 0) + 1
        if any(s["chunks"] for s in segs) and (nb > 1 or len(idx) > 1):
            nontrivial.add(data)
        if len(samples) < 2 and len(data) < 500:
            samples.append(dict(encoding=gen_files.to_line(segs)))
        if len(violations) >= 5 or len(disagreements) >= ctx.dis_limit:
            break
        if ctx.tier == "quick" and ctx.elapsed() > 45:
            break
    return dict(violations=violations[:5], disagreements=disagreements[:20],
                coverage=dict(evaluations=stats["decoded"] + stats["windows"] + stats["streams"] + stats["cuts"], distinct_nontrivial=len(nontrivial),
                              rule="DAQmx files from harness/gen_daqmx.py: 1-3 segments, 1-3 channels x 1-3 format-changing or digital-line scalers (all integer and float "
                                   "scaler types), 1-3 raw buffers with padding and different lengths, 1-3 chunks, both byte orders, random buffer bytes, matches-previous / "
                                   "no-metadata follow-up segments; every second file additionally cut at up to 12 offsets inside the last segment's raw data; non-trivial = "
                                   "distinct files with data and more than one buffer or channel",
                              samples=samples or [dict(note="see shapes")], counts=stats, shapes=dict(sorted(shapes.items()))))


def search(ctx, broken, disagreements):
    ctx.budget_factor = max(ctx.budget_factor, 4)
    return run(ctx)["violations"][:1]


def replay(ctx, path):
    import json
    with open(path) as f:
        rp = json.load(f)["replay"]
    nptdms = ctx.nptdms()
    data = bytes.fromhex(rp["file"])
    if "cut" in rp:
        r, _ = canon.real_read(data[:rp["cut"]], nptdms)
        print("replay: cut read -> %s" % (r.get("exc") or "ok (compare with the uncut read by hand)"))
        return 0 if r.get("ok") else 1
    if rp.get("kind", "").startswith("daqmx-"):
        ctx.always_memmap = rp["kind"] == "daqmx-memmap"
        import gen_daqmx as gd
        old = gd.expected_values
        gd.expected_values = lambda segs: {}
        try:
            _, v = check_file(ctx, None, nptdms, [], data, dict(files=0, decoded=0, windows=0, streams=0, cuts=0))
        finally:
            gd.expected_values = old
        print("replay: %s" % ([x.what[:200] for x in v[:3]] or "lazy / eager / memmap reads agree on this file"))
        return 1 if v else 0
    r, _ = canon.real_read(data, nptdms)
    print("replay: read -> %s" % (r.get("exc") or "ok"))
    return 0 if r.get("ok") else 1


def corpus(ctx, entry):
    rp = entry["replay"]
    data = bytes.fromhex(rp["file"])
    nptdms = ctx.nptdms()
    model = ctx.get_model() if ctx.build_ok else None
    stats = dict(files=0, decoded=0, windows=0, streams=0, cuts=0)
    dis, vio = [], []
    if "cut" in rp:
        full, ffull = canon.real_read(data, nptdms)
        r, f = canon.real_read(data[:rp["cut"]], nptdms)
        if not r.get("ok"):
            vio.append(Violation("corpus: DAQmx file cut at %d: read raised %s" % (rp["cut"], r.get("exc")), rp))
        elif full.get("ok"):
            a, b = real_channel_values(f), real_channel_values(ffull)
            for p, d in a.items():
                for k, vals in d.items():
                    if vals != b.get(p, {}).get(k, [])[:len(vals)]:
                        vio.append(Violation("corpus: DAQmx file cut at %d: not a prefix of the uncut data" % rp["cut"], rp))
        return dis, vio
    # without the generator's description only the lazy/eager agreement part applies: reuse check_file with an empty expectation
    import gen_daqmx as gd
    old = gd.expected_values
    gd.expected_values = lambda segs: {}
    ctx.always_memmap = rp.get("kind") == "daqmx-memmap"
    try:
        return check_file(ctx, model, nptdms, [], data, stats)
    finally:
        gd.expected_values = old
