"""C01 — Reading returns exactly the content the file encodes.

Correspondence: Lean reader model (`read`) vs real `TdmsFile.read` on bytes produced by the Lean spec
encoder, on the repo's example files and on every scenario file of the repo's own suite.
Oracle: the spec's reference meaning `denote` vs the real read (needs no reader model).
"""
import hashlib
import os
import sys

sys.path.insert(0, os.path.dirname(os.path.dirname(os.path.abspath(__file__))))
import canon
import gen_files
from corr_reader import compare_state, compare_content
from framework import Violation
from leanio import hx

LEVEL = "proof"
ANCHOR_FILES = ["nptdms/reader.py", "nptdms/tdms_segment.py", "nptdms/base_segment.py", "nptdms/types.py",
                "nptdms/tdms.py", "nptdms/channel_data.py"]
ASSUMPTIONS = [
    "lean/Tdms/Spec/Format.lean is our reading of the NI TDMS layout; it is validated against the four LabVIEW-made "
    "example files and all scenario files of the repo's suite on every run (the model must read them like the real code)",
    "property values of float32 type are compared after the same struct.unpack on both sides",
]
TRUSTED_EXTRA = ["harness/gen_files.py (file-encoding generator) and harness/canon.py (canonical dumps)"]

NONTRIVIAL = {"multi-segment", "multi-chunk", "interleaved", "big-endian", "hdr-matches-prev", "no-metadata",
              "carry-over-list", "padding"}


def anchors(nptdms):
    """bytes we did not make: example files and the scenario files of the repo's suite"""
    out = []
    data_dir = os.path.join(os.path.dirname(nptdms.__file__), "test", "data")
    for fn in sorted(os.listdir(data_dir)):
        if fn.endswith(".tdms"):
            with open(os.path.join(data_dir, fn), "rb") as f:
                out.append(("example:" + fn, f.read()))
    try:
        from nptdms.test import scenarios
        for p in scenarios.get_scenarios():
            out.append(("scenario:" + p.id, p.values[0]._get_contents()))
    except Exception as ex:  # the suite's helpers changed shape: not our concern
        out.append(("scenario-import-failed:%r" % ex, None))
    return out


def check_file(ctx, model, nptdms, data, content, label):
    """returns (disagreement or None, violation or None)"""
    r, _ = canon.real_read(data, nptdms)
    dis = None
    if model is not None:
        m = model.ask("read " + hx(data))
        d = compare_state(m, r)
        if not d and r.get("ok"):
            lay = model.ask("layout " + hx(data))
            if lay.get("ok") and lay["groups"] != r.get("groups"):
                d = ["group/channel layout: model %s real %s" % (lay["groups"], r.get("groups"))]
        if d:
            dis = dict(what="reader model vs TdmsFile.read on %s: %s" % (label, d[0]), file=data.hex(), diffs=d[:5])
    vio = None
    if content is not None:
        d2 = compare_content(content, r)
        if d2:
            vio = Violation("TdmsFile.read differs from the encoded content (%s): %s" % (label, d2[0]),
                            dict(kind="file", file=data.hex(), expected_content=content, diffs=d2[:5]))
    if content is not None and vio is None and len(data) % 3 == 0:
        # the same bytes behind a stream whose readinto hands over a few bytes per call
        cap = 1 + len(data) % 7
        r2, _ = canon.real_read(data, nptdms, stream=lambda d: canon.PartialReadinto(d, cap))
        d3 = compare_content(content, r2)
        if d3:
            vio = Violation("TdmsFile.read through a stream whose readinto delivers at most %d bytes per call differs from the encoded content (%s): %s" % (cap, label, d3[0]),
                            dict(kind="file-partial-readinto", cap=cap, file=data.hex(), expected_content=content, diffs=d3[:5]))
    return dis, vio


def run(ctx):
    nptdms = ctx.nptdms()
    model = ctx.get_model() if ctx.build_ok else None
    disagreements, violations = [], []
    seen, nontrivial, evaluations = set(), 0, 0
    feats = {}
    samples = []
    for label, data in anchors(nptdms):
        if data is None:
            ctx.notes.append(label)
            continue
        evaluations += 1
        dis, _ = check_file(ctx, model, nptdms, data, None, label)
        if dis:
            disagreements.append(dis)
    n_anchor = evaluations
    if model is None:
        return dict(violations=[], disagreements=disagreements,
                    coverage=dict(evaluations=evaluations, distinct_nontrivial=0, rule="model executable unavailable", samples=[]))
    n = ctx.n(1500, 60000)
    wf = 0
    for i in range(n):
        segs = gen_files.FileGen(ctx.rnd).draw()
        e = model.ask(gen_files.to_line(segs))
        evaluations += 1
        if not e["ok"]:
            continue
        data = bytes.fromhex(e["file"])
        f = gen_files.features(segs)
        for t in f:
            feats[t] = feats.get(t, 0) + 1
        content = e["content"] if e["wf"] else None
        wf += bool(e["wf"])
        dis, vio = check_file(ctx, model, nptdms, data, content, "generated #%d" % i)
        if dis:
            disagreements.append(dis)
        if vio:
            vio.replay["encoding"] = gen_files.to_line(segs)
            violations.append(vio)
        h = hashlib.sha1(data).digest()
        if h not in seen:
            seen.add(h)
            if e["wf"] and (f & NONTRIVIAL) and any(o["values"] for o in e["content"]):
                nontrivial += 1
        if len(samples) < 3 and e["wf"] and len(data) < 400:
            samples.append(dict(encoding=gen_files.to_line(segs), file_hex=e["file"]))
        if len(violations) >= 5 or len(disagreements) >= ctx.dis_limit:
            break
        if ctx.tier == "quick" and ctx.elapsed() > 45:
            ctx.notes.append("stopped at %d generated files (time budget)" % i)
            break
    return dict(
        violations=violations, disagreements=disagreements,
        coverage=dict(
            evaluations=evaluations, distinct_nontrivial=nontrivial,
            rule="files drawn by harness/gen_files.py (1-6 segments, 1-4 channels over the 17 readable types, header kinds "
                 "full/matches-previous/no-data/unlisted, new-list and metadata flags, 0-3 chunks, both layouts, per-segment byte "
                 "order, properties of every type), encoded by the Lean spec; non-trivial = distinct file bytes, well-formed, "
                 "holding at least one value and at least one of %s; plus %d anchor files not made by us" % (sorted(NONTRIVIAL), n_anchor),
            samples=samples, well_formed=wf, feature_counts=dict(sorted(feats.items())), anchors=n_anchor))


def search(ctx, broken, disagreements):
    """directed search on the real implementation: the oracle on more generated files and on the
    disagreeing inputs' neighbourhood (here: a larger budget of generated files; the oracle needs no model)"""
    if not ctx.build_ok:
        return []
    nptdms = ctx.nptdms()
    model = ctx.get_model()
    out = []
    for i in range(ctx.n(3000, 20000)):
        segs = gen_files.FileGen(ctx.rnd).draw()
        e = model.ask(gen_files.to_line(segs))
        if not e["ok"] or not e["wf"]:
            continue
        _, vio = check_file(ctx, None, nptdms, bytes.fromhex(e["file"]), e["content"], "search #%d" % i)
        if vio:
            vio.replay["encoding"] = gen_files.to_line(segs)
            out.append(vio)
            break
    return out


def replay(ctx, path):
    import json
    with open(path) as f:
        rp = json.load(f)["replay"]
    data = bytes.fromhex(rp["file"])
    if rp.get("kind") == "file-partial-readinto":
        r, _ = canon.real_read(data, ctx.nptdms(), stream=lambda d_: canon.PartialReadinto(d_, rp["cap"]))
    else:
        r, _ = canon.real_read(data, ctx.nptdms())
    d = compare_content(rp["expected_content"], r)
    print("replay: %s" % (d or "property holds on this input"))
    return 1 if d else 0


def corpus(ctx, entry):
    rp = entry["replay"]
    model = ctx.get_model() if ctx.build_ok else None
    dis, vio = check_file(ctx, model, ctx.nptdms(), bytes.fromhex(rp["file"]), rp.get("expected_content"), "corpus")
    return ([dis] if dis else []), ([vio] if vio else [])
