"""C17 — Sensor scalings invert their sensor laws.

Correspondence: the transcribed formulas of lean/TdmsProofs/Model/Sensors.lean, evaluated over ℚ by
`lake env lean --run TdmsProofs/Eval/SensorsEval.lean`, vs the real `scale()` of StrainScaling,
PolynomialScaling, TableScaling and the resistance steps of RtdScaling / ThermistorScaling, on dyadic inputs.
Oracle (real code only): scale(law(x)) = x within 1e-6 relative for RTD (both branches), thermistor
(both excitations) and the seven bridge types; Horner / clamped piecewise-linear values against exact rationals.
"""
import math
import os
import subprocess
import sys
from fractions import Fraction

import numpy as np

sys.path.insert(0, os.path.dirname(os.path.dirname(os.path.abspath(__file__))))
import leanio
from framework import Violation

LEVEL = "proof"
ANCHOR_FILES = ["nptdms/scaling.py"]
ASSUMPTIONS = ["theorems are exact identities over ℝ / any field; the 1e-6 tolerance of floating-point evaluation is measured here, not proved",
               "the negative-temperature RTD branch relies on numpy.polynomial.polyroots (not modelled): existence/uniqueness of the negative root is proved, "
               "the eigenvalue solver's accuracy is only measured",
               "gain adjustment multiplies the strain and half/quarter bridges report (1 + lead/gage resistance) * strain, as proved in C17.lean (NI's documented meaning)"]
TRUSTED_EXTRA = ["lean/TdmsProofs/Eval/SensorsEval.lean (runs the Lean definitions over ℚ)", "forward laws written in harness/props/C17.py with Python floats/Fractions"]

TOL = 1e-6


class SensorsEval:
    def __init__(self):
        self.p = subprocess.Popen(["lake", "env", "lean", "--run", "TdmsProofs/Eval/SensorsEval.lean"], cwd=leanio.LEAN_DIR,
                                  stdin=subprocess.PIPE, stdout=subprocess.PIPE, text=True)

    def ask(self, line):
        self.p.stdin.write(line + "\n")
        self.p.stdin.flush()
        return self.p.stdout.readline().strip()

    def close(self):
        try:
            self.p.stdin.close()
            self.p.wait(timeout=20)
        except Exception:
            self.p.kill()


def fr(x):
    f = Fraction(x)
    return "%d/%d" % (f.numerator, f.denominator)


def unfr(s):
    a, b = s.split("/")
    return Fraction(int(a), int(b))


def dy(rnd, lo, hi, bits=10):
    """random dyadic rational (exactly representable, few bits) in [lo, hi]"""
    k = rnd.randint(int(lo * 2 ** bits), int(hi * 2 ** bits))
    return k / 2.0 ** bits


def close(a, b, tol=TOL):
    return abs(a - b) <= tol * max(1.0, abs(b))


def cvd(r0, a, b, c, t):
    return r0 * (1 + a * t + b * t * t + (c * (t - 100) * t ** 3 if t < 0 else 0.0))


def file_level(ctx, cases, counts):
    """Each recorded sensor case is written as channel properties with TdmsWriter and read back through TdmsFile (eager and lazy):
    the sensor scale alone on the raw voltage; behind a Linear scale 0 (device units -> volts, dyadic slope/intercept) with input
    source 0; and at index 2 behind two Linear scales with input source 1 (scale 0 is then a decoy). The expected value is the
    quantity that produced the voltage."""
    import io
    from nptdms import TdmsFile, TdmsWriter, ChannelObject
    rnd = ctx.rnd
    out = []
    counts["file_level"] = 0
    for kind, props, src_name, v, expect in cases:
        wiring = rnd.choice(["direct", "chain0", "chain1"])
        m, b = rnd.choice([0.5, 2.0, 0.25, 4.0, -2.0]), rnd.choice([0.0, 0.5, -0.25, 1.0])
        P = {}
        if wiring == "direct":
            idx, raw, src = 0, v, 0xFFFFFFFF
        elif wiring == "chain0":
            idx, raw, src = 1, (v - b) / m, 0
            P.update({"NI_Scale[0]_Scale_Type": "Linear", "NI_Scale[0]_Linear_Slope": m, "NI_Scale[0]_Linear_Y_Intercept": b,
                      "NI_Scale[0]_Linear_Input_Source": np.uint32(0xFFFFFFFF)})
        else:
            idx, raw, src = 2, (v - b) / m, 1
            P.update({"NI_Scale[0]_Scale_Type": "Linear", "NI_Scale[0]_Linear_Slope": 1000.0, "NI_Scale[0]_Linear_Y_Intercept": 77.0,
                      "NI_Scale[0]_Linear_Input_Source": np.uint32(0xFFFFFFFF),
                      "NI_Scale[1]_Scale_Type": "Linear", "NI_Scale[1]_Linear_Slope": m, "NI_Scale[1]_Linear_Y_Intercept": b,
                      "NI_Scale[1]_Linear_Input_Source": np.uint32(0xFFFFFFFF)})
        pre = "NI_Scale[%d]_" % idx
        P[pre + "Scale_Type"] = kind
        for k, val in props.items():
            P[pre + k] = (np.int32(val) if isinstance(val, int) else float(val))
        P[pre + src_name] = np.uint32(src)
        P["NI_Number_Of_Scales"] = np.uint32(idx + 1)
        P["NI_Scaling_Status"] = "unscaled"
        buf = io.BytesIO()
        rp = dict(kind="file-level", scale=kind, wiring=wiring, properties={k: (str(x) if isinstance(x, str) else float(x)) for k, x in P.items()}, raw=raw, V=v, expected=expect)
        try:
            with TdmsWriter(buf) as w:
                w.write_segment([ChannelObject("g", "c", np.array([raw * 0.75 + 0.001, raw], dtype=np.float64), P)])
            buf.seek(0)
            che = TdmsFile.read(buf)["g"]["c"]
            raw_before = che.raw_data.tobytes()
            first = np.array(che[:], dtype=np.float64)
            got = float(first[1])
            # the same eagerly read channel again: a window, the full data, iteration — and the raw data as it was
            again = [("read_data(0, 2)", np.asarray(che.read_data(0, 2), dtype=np.float64), first[:2]), ("[:] again", np.asarray(che[:], dtype=np.float64), first),
                     ("[1]", np.array([che[1]], dtype=np.float64), first[1:2])]
            for label2, g2, e2 in again:
                if g2.shape != e2.shape or not np.array_equal(g2, e2, equal_nan=True):
                    out.append(Violation("%s scale (%s wiring): %s on the eagerly read channel gives %r after the first read gave %r" % (kind, wiring, label2, list(g2), list(e2)), rp))
                    break
            # a result handed out earlier stays what it was when the same channel is scaled again
            held = che.read_data(1, 1)
            held_copy = np.array(held)
            che.read_data(0, 1)
            if not np.array_equal(np.asarray(held), held_copy, equal_nan=True):
                out.append(Violation("%s scale (%s wiring): the array returned by read_data(1, 1) changed when read_data(0, 1) was served" % (kind, wiring), rp))
            if che.raw_data.tobytes() != raw_before:
                out.append(Violation("%s scale (%s wiring): reading the scaled data changed the channel's raw data" % (kind, wiring), rp))
            buf.seek(0)
            with TdmsFile.open(buf) as f:
                held = f["g"]["c"].read_data(1, 1)
                held_copy = np.array(held)
                f["g"]["c"].read_data(0, 1)
                parts = [c[:] for c in f["g"]["c"].data_chunks()]
                if not np.array_equal(np.asarray(held), held_copy, equal_nan=True):
                    out.append(Violation("%s scale (%s wiring): the array returned by a lazy read_data(1, 1) changed when read_data(0, 1) was served" % (kind, wiring), rp))
                lazy = float(f["g"]["c"][1])
        except Exception as ex:  # noqa
            out.append(Violation("%s scale (%s) through a file raised %s: %s" % (kind, wiring, type(ex).__name__, ex), rp))
            continue
        counts["file_level"] += 1
        tol = 2e-6 if wiring != "direct" else TOL      # one extra rounding in (v - b) / m * m + b
        ok = (abs(got - expect) <= tol * max(abs(expect), 1e-6)) if kind == "Strain" else close(got, expect, tol)
        if not ok or not (lazy == got or (lazy != lazy and got != got)):
            out.append(Violation("%s scale read through a file (%s wiring): channel[:] = %r (lazy %r), the quantity that produced the voltage is %r" % (kind, wiring, got, lazy, expect), rp))
        # the raw data type must not matter: single-precision raw data gives what the same numbers give as double-precision raw data
        # (widening is exact; any arithmetic done before widening is not)
        raw32 = np.array([raw, raw * 1.0000001, raw], dtype=np.float32)
        try:
            b2 = io.BytesIO()
            with TdmsWriter(b2) as w:
                w.write_segment([ChannelObject("g", "c32", raw32, P), ChannelObject("g", "c64", raw32.astype(np.float64), P)])
            f2 = TdmsFile.read(io.BytesIO(b2.getvalue()))
            a32, a64 = np.asarray(f2["g"]["c32"][:], dtype=np.float64), np.asarray(f2["g"]["c64"][:], dtype=np.float64)
        except Exception as ex:  # noqa
            out.append(Violation("%s scale on float32 raw data through a file raised %s: %s" % (kind, type(ex).__name__, ex), rp))
            continue
        counts["file_level"] += 1
        fin = np.isfinite(a64)
        if (np.isfinite(a32) != fin).any() or not np.all(np.abs(a32[fin] - a64[fin]) <= 1e-9 * np.maximum(np.abs(a64[fin]), 1e-12)):
            out.append(Violation("%s scale (%s wiring): float32 raw data gives %r, the same numbers as float64 raw data give %r" % (kind, wiring, list(a32), list(a64)),
                                 dict(rp, raw32=[float(v) for v in raw32])))
        if len(out) > 3:
            break
    return out


def poly_table_file_level(ctx, counts):
    """Polynomial (1..13 coefficients: two-digit property indexes included) and Table scales written as NI_Scale properties and read
    back from the file: equal to Horner evaluation / clamped interpolation in exact rationals."""
    import io
    from nptdms import TdmsFile, TdmsWriter, ChannelObject
    rnd = ctx.rnd
    out = []
    counts["poly_files"] = 0
    for _ in range(ctx.n(30, 600)):
        k = rnd.choice([1, 2, 4, 9, 10, 11, 12, 13])
        cs = [dy(rnd, -2, 2, 4) / 2.0 ** (6 * max(0, q - 2)) for q in range(k)]
        xs = [dy(rnd, -8, 8, 3) for _ in range(4)]
        P = {"NI_Number_Of_Scales": np.uint32(1), "NI_Scale[0]_Scale_Type": "Polynomial", "NI_Scale[0]_Polynomial_Coefficients_Size": np.uint32(k),
             "NI_Scale[0]_Polynomial_Input_Source": np.uint32(0xFFFFFFFF), "NI_Scaling_Status": "unscaled"}
        items = [("NI_Scale[0]_Polynomial_Coefficients[%d]" % q, float(c)) for q, c in enumerate(cs)]
        rnd.shuffle(items)
        P.update(items)
        buf = io.BytesIO()
        rp = dict(kind="poly-file", coeffs=cs, xs=xs)
        try:
            with TdmsWriter(buf) as w:
                w.write_segment([ChannelObject("g", "c", np.array(xs, dtype=np.float64), P)])
            got = [float(v) for v in TdmsFile.read(io.BytesIO(buf.getvalue()))["g"]["c"][:]]
        except Exception as ex:  # noqa
            out.append(Violation("polynomial scale with %d coefficients through a file raised %s: %s" % (k, type(ex).__name__, ex), rp))
            continue
        counts["poly_files"] += 1
        for x, g in zip(xs, got):
            exact = sum(Fraction(c) * Fraction(x) ** i for i, c in enumerate(cs))
            mag = sum(abs(Fraction(c)) * abs(Fraction(x)) ** i for i, c in enumerate(cs))
            if abs(Fraction(g) - exact) > Fraction(1, 10 ** 12) * max(1, mag):
                out.append(Violation("polynomial scale with %d coefficients read through a file: p(%r) = %r, Horner evaluation of the declared coefficients gives %r" % (k, x, g, float(exact)), rp))
                break
        if len(out) >= 3:
            break
    return out


def run(ctx):
    ctx.nptdms()
    from nptdms import scaling as sc
    rnd = ctx.rnd
    violations, disagreements = [], []
    counts = dict(rtd=0, thermistor=0, strain=0, polynomial=0, table=0, model=0)
    distinct = set()
    ev = None
    if ctx.build_ok:
        try:
            ev = SensorsEval()
        except Exception as ex:
            ctx.notes.append("SensorsEval unavailable: %r" % ex)
    n = ctx.n(400, 20000)
    RAW = 0xFFFFFFFF
    file_cases = []     # (scale type, properties without prefix, name of the input source property, voltage, expected quantity)
    try:
        # ---------------- RTD
        for _ in range(n):
            r0 = rnd.choice([100.0, 1000.0, 500.0, dy(rnd, 50, 2000)])
            a = 3.9083e-3 * rnd.uniform(0.98, 1.02)
            b = -5.775e-7 * rnd.uniform(0.98, 1.02)
            c = -4.183e-12 * rnd.uniform(0.98, 1.02)
            if rnd.random() < 0.1:
                c = rnd.choice([0.0, -0.0])        # a quadratic-only sensor description (C = 0): the law below 0 degC is then the same quadratic
            cur = rnd.choice([1e-3, 1e-4, 5e-4, 2e-3])
            cfg = rnd.choice([2, 3, 4])
            lead = rnd.choice([0.0, 0.5, 2.25, rnd.uniform(0, 10)])
            t = rnd.choice([0.0, -200.0, 850.0, 1e-9, -1e-9, rnd.uniform(-200, 850), rnd.uniform(-200, 0), rnd.uniform(-5, 5)])
            leadterm = {2: 2 * lead, 3: lead, 4: 0.0}[cfg]
            v = cur * (cvd(r0, a, b, c, t) + leadterm)
            counts["rtd"] += 1
            distinct.add(("rtd", r0, cfg, round(t, 6)))
            if counts["rtd"] % 6 == 0:
                file_cases.append(("RTD", {"RTD_Current_Excitation": cur, "RTD_R0_Nominal_Resistance": r0, "RTD_A": a, "RTD_B": b, "RTD_C": c,
                                           "RTD_Lead_Wire_Resistance": lead, "RTD_Resistance_Configuration": cfg}, "RTD_Input_Source", v, t))
            try:
                got = float(sc.RtdScaling(cur, r0, a, b, c, lead, cfg, RAW).scale(np.array([v]))[0])
            except Exception as ex:
                violations.append(Violation("RtdScaling.scale raised %r for T=%r" % (ex, t), dict(kind="rtd", params=[cur, r0, a, b, c, lead, cfg], T=t, V=v)))
                continue
            if not close(got, t):
                violations.append(Violation("RTD: scale(voltage of Callendar-Van Dusen at T=%r, %d-wire) = %r" % (t, cfg, got),
                                            dict(kind="rtd", params=[cur, r0, a, b, c, lead, cfg], T=t, V=v, got=got)))
            if counts["rtd"] % 4 == 0:
                # another RTD with slightly different coefficients measuring the SAME resistance (same voltage, current and leads):
                # its answer must satisfy ITS OWN Callendar-Van Dusen equation (nothing may be remembered from the first scaling)
                a2, b2, c2 = a * rnd.choice([0.97, 1.03]), b * rnd.choice([0.97, 1.03]), c * rnd.choice([0.9, 1.1])
                try:
                    got2 = float(sc.RtdScaling(cur, r0, a2, b2, c2, lead, cfg, RAW).scale(np.array([v]))[0])
                except Exception:  # noqa: slightly outside the modified curve's range
                    got2 = None
                if got2 is not None and np.isfinite(got2):
                    resid = cvd(r0, a2, b2, c2, got2) - (v / cur - leadterm)
                    if abs(resid) > 1e-6 * r0:
                        violations.append(Violation("RTD with coefficients %r on the resistance of T=%r returns %r, which does not satisfy its own Callendar-Van Dusen equation (residual %r ohm)" % (
                            [a2, b2, c2], t, got2, resid), dict(kind="rtd-pair", params=[cur, r0, a, b, c, lead, cfg], second=[a2, b2, c2], V=v, got=got2)))
            if ev is not None and counts["rtd"] % 10 == 0:
                i_, l_, v_ = dy(rnd, 0.0005, 0.01, 14), dy(rnd, 0, 8), dy(rnd, 0.01, 5)
                m = unfr(ev.ask("rtdres %s %s %d %s" % (fr(i_), fr(l_), cfg, fr(v_))))
                # the real code's first two statements
                real = sc._adjust_for_lead_resistance(np.array([v_]) / i_, sc.CURRENT_EXCITATION, cfg, l_)[0]
                counts["model"] += 1
                if not close(float(m), float(real), 1e-12):
                    disagreements.append(dict(what="rtdResistance model=%s real=%r" % (m, real)))
        # ---------------- thermistor
        for _ in range(n):
            a, b, c = 1.129148e-3 * rnd.uniform(0.9, 1.1), 2.34125e-4 * rnd.uniform(0.9, 1.1), 8.76741e-8 * rnd.uniform(0.9, 1.1)
            R = math.exp(rnd.uniform(math.log(50), math.log(2e6)))
            lnr = math.log(R)
            tk = 1.0 / (a + b * lnr + c * lnr ** 3)
            off = rnd.choice([0.0, 273.15, 273.15, rnd.uniform(0, 300)])
            cfg = rnd.choice([2, 3, 4])
            lead = rnd.choice([0.0, 1.5, rnd.uniform(0, 20)])
            counts["thermistor"] += 1
            distinct.add(("th", round(R, 3), cfg))
            if rnd.random() < 0.5:
                cur = rnd.choice([1e-4, 1e-5, 5e-5])
                leadterm = {2: 2 * lead, 3: lead, 4: 0.0}[cfg]
                v = cur * (R + leadterm)
                s = sc.ThermistorScaling(sc.CURRENT_EXCITATION, cur, cfg, 0.0, lead, a, b, c, off, RAW)
                label = "current"
            else:
                vex = rnd.choice([2.5, 5.0, 10.0])
                r1 = rnd.choice([1e3, 1e4, 5e3, rnd.uniform(500, 5e4)])
                leg = R + (lead if cfg == 3 else 0.0)   # what the code compensates for voltage excitation
                v = vex * leg / (r1 + leg)
                s = sc.ThermistorScaling(sc.VOLTAGE_EXCITATION, vex, cfg, r1, lead, a, b, c, off, RAW)
                label = "voltage"
            if counts["thermistor"] % 6 == 0:
                file_cases.append(("Thermistor", {"Thermistor_Excitation_Type": s.excitation_type, "Thermistor_Excitation_Value": s.excitation_value,
                                                  "Thermistor_Resistance_Configuration": cfg, "Thermistor_R1_Reference_Resistance": s.r1_reference_resistance,
                                                  "Thermistor_Lead_Wire_Resistance": lead, "Thermistor_A": a, "Thermistor_B": b, "Thermistor_C": c,
                                                  "Thermistor_Temperature_Offset": off}, "Thermistor_Input_Source", v, tk - off))
            got = float(s.scale(np.array([v]))[0])
            if not close(got, tk - off):
                violations.append(Violation("thermistor (%s excitation, %d-wire): scale(voltage for R=%r) = %r, Steinhart-Hart gives %r" % (label, cfg, R, got, tk - off),
                                            dict(kind="thermistor", excitation=label, cfg=cfg, R=R, lead=lead, abc=[a, b, c], offset=off, V=v, got=got)))
            if ev is not None and counts["thermistor"] % 10 == 0:
                cur_ = rnd.random() < 0.5
                ex_, r1_, l_, v_ = dy(rnd, 0.001, 8, 12), dy(rnd, 100, 9000, 4), dy(rnd, 0, 8), dy(rnd, 0.01, 0.9)
                m = unfr(ev.ask("thres %d %s %s %s %d %s" % (int(cur_), fr(ex_), fr(r1_), fr(l_), cfg, fr(v_))))
                data = np.array([v_])
                if cur_:
                    rt = data / ex_
                    et = sc.CURRENT_EXCITATION
                else:
                    rt = r1_ * np.reciprocal(ex_ * np.reciprocal(data) - 1.0)
                    et = sc.VOLTAGE_EXCITATION
                real = sc._adjust_for_lead_resistance(rt, et, cfg, l_)[0]
                counts["model"] += 1
                if not close(float(m), float(real), 1e-11):
                    disagreements.append(dict(what="thermistorResistance model=%s real=%r" % (m, real)))
        # ---------------- strain
        codes = [10183, 10184, 10185, 10188, 10189, 10271, 10272]
        for _ in range(n):
            code = rnd.choice(codes)
            nu = rnd.choice([0.3, 0.25, dy(rnd, 0.1, 0.45)])
            rg = rnd.choice([120.0, 350.0, 1000.0])
            lead = rnd.choice([0.0, 0.0, 3.5, dy(rnd, 0, 10)])
            vinit = rnd.choice([0.0, 0.0, dy(rnd, -0.01, 0.01, 16)])
            g = rnd.choice([2.0, 2.125, dy(rnd, 1.5, 3)])
            gain = rnd.choice([1.0, 1.0, dy(rnd, 0.9, 1.1)])
            vex = rnd.choice([2.5, 5.0, 10.0])
            eps = rnd.choice([0.0, 1e-3, -1e-3, rnd.uniform(-5e-3, 5e-3), rnd.uniform(-2e-2, 2e-2)])
            r0 = rg

            def bridge(r1, r2, r3, r4):
                return (r3 / (r3 + r4) - r2 / (r1 + r2)) * vex
            eg = eps * g
            if code == 10183:
                vo = bridge(r0 * (1 - eg), r0 * (1 + eg), r0 * (1 - eg), r0 * (1 + eg)); expect = gain * eps
            elif code == 10184:
                vo = bridge(r0 * (1 - nu * eg), r0 * (1 + nu * eg), r0 * (1 - eg), r0 * (1 + eg)); expect = gain * eps
            elif code == 10185:
                vo = bridge(r0 * (1 - nu * eg), r0 * (1 + eg), r0 * (1 - nu * eg), r0 * (1 + eg)); expect = gain * eps
            elif code == 10188:
                vo = bridge(r0, r0, r0 * (1 - nu * eg), r0 * (1 + eg)); expect = gain * (1 + lead / rg) * eps
            elif code == 10189:
                vo = bridge(r0, r0, r0 * (1 - eg), r0 * (1 + eg)); expect = gain * (1 + lead / rg) * eps
            else:
                vo = bridge(r0, r0, r0, r0 * (1 + eg)); expect = gain * (1 + lead / rg) * eps
            s = sc.StrainScaling(code, nu, rg, lead, vinit, g, gain, vex, RAW)
            if counts["strain"] % 6 == 0:
                file_cases.append(("Strain", {"Strain_Configuration": code, "Strain_Poisson_Ratio": nu, "Strain_Gage_Resistance": rg, "Strain_Lead_Wire_Resistance": lead,
                                              "Strain_Initial_Bridge_Voltage": vinit, "Strain_Gage_Factor": g, "Strain_Bridge_Shunt_Calibration_Gain_Adjustment": gain,
                                              "Strain_Voltage_Excitation": vex}, "Strain_Input_Source", vo + vinit, expect))
            got = float(s.scale(np.array([vo + vinit]))[0])
            counts["strain"] += 1
            distinct.add(("strain", code, round(eps, 9), lead != 0, gain != 1, vinit != 0))
            if abs(got - expect) > TOL * max(abs(expect), 1e-6):
                violations.append(Violation("strain bridge %d: scale(bridge voltage for strain %r) = %r, expected %r" % (code, eps, got, expect),
                                            dict(kind="strain", code=code, params=dict(nu=nu, rg=rg, lead=lead, vinit=vinit, g=g, gain=gain, vex=vex), strain=eps, V=vo + vinit, got=got)))
            if ev is not None and counts["strain"] % 4 == 0:
                v_ = dy(rnd, -0.02, 0.02, 16)
                m = ev.ask("strain %d %s %s %s %s %s %s %s %s" % (code, fr(nu), fr(rg), fr(lead), fr(vinit), fr(g), fr(gain), fr(vex), fr(v_)))
                real = float(s.scale(np.array([v_]))[0])
                counts["model"] += 1
                if m == "none" or not close(float(unfr(m)), real, 1e-11):
                    disagreements.append(dict(what="strain %d model=%s real=%r (v=%r)" % (code, m, real, v_)))
        # ---------------- polynomial / table
        for _ in range(n // 2):
            k = rnd.choice([0, 1, 2, 3, 4, 6])
            cs = [dy(rnd, -4, 4, 6) for _ in range(k)]
            x = dy(rnd, -8, 8, 6)
            got = float(sc.PolynomialScaling(cs, RAW).scale(np.array([x]))[0])
            exact = sum(Fraction(c) * Fraction(x) ** i for i, c in enumerate(cs))
            counts["polynomial"] += 1
            distinct.add(("poly", k, x))
            # binary64 evaluation: exact whenever every intermediate fits 53 bits (most of these dyadic cases), otherwise within the
            # usual bound for a polynomial evaluation, a few ulps of the sum of the absolute terms
            bound = Fraction(1, 10 ** 13) * sum(abs(Fraction(c)) * abs(Fraction(x)) ** i for i, c in enumerate(cs))
            if abs(Fraction(got) - exact) > bound:
                violations.append(Violation("polynomial scaling: got %r, exact sum c_i x^i = %s" % (got, float(exact)), dict(kind="polynomial", coeffs=cs, x=x, got=got)))
            if ev is not None:
                m = unfr(ev.ask("horner %s %s" % (",".join(fr(c) for c in cs) or "-", fr(x))))
                counts["model"] += 1
                if abs(m - Fraction(got)) > bound:
                    disagreements.append(dict(what="horner model=%s real=%r" % (m, got)))
            m_ = rnd.randint(2, 6)
            xs = sorted(set(dy(rnd, -10, 10, 3) for _ in range(m_)))
            if len(xs) < 2:
                continue
            ys = [dy(rnd, -10, 10, 3) for _ in xs]
            if rnd.random() < 0.3:
                xs, ys = xs[::-1], ys[::-1]
            x = rnd.choice([dy(rnd, -12, 12, 4), xs[0], xs[-1], xs[len(xs) // 2]])
            t = sc.TableScaling(np.array(ys), np.array(xs), RAW)
            got = float(t.scale(np.array([x]))[0])
            sx, sy = (xs, ys) if xs[0] < xs[-1] else (xs[::-1], ys[::-1])
            if x <= sx[0]:
                exact = Fraction(sy[0])
            elif x >= sx[-1]:
                exact = Fraction(sy[-1])
            else:
                j = max(i for i in range(len(sx) - 1) if sx[i] <= x)
                exact = Fraction(sy[j]) + (Fraction(sy[j + 1]) - Fraction(sy[j])) / (Fraction(sx[j + 1]) - Fraction(sx[j])) * (Fraction(x) - Fraction(sx[j]))
            counts["table"] += 1
            distinct.add(("table", tuple(xs), x))
            if abs(Fraction(got) - exact) > Fraction(1, 10 ** 12) * max(1, abs(exact)):
                violations.append(Violation("table scaling: got %r, clamped piecewise-linear interpolation gives %s" % (got, float(exact)),
                                            dict(kind="table", scaled=xs, pre_scaled=ys, x=x, got=got)))
            if ev is not None:
                m = ev.ask("table %s %s %s" % (",".join(fr(v) for v in ys), ",".join(fr(v) for v in xs), fr(x)))
                counts["model"] += 1
                if m == "none" or abs(unfr(m) - Fraction(got)) > Fraction(1, 10 ** 12) * max(1, abs(exact)):
                    disagreements.append(dict(what="table model=%s real=%r" % (m, got)))
            if len(violations) > 5:
                break
        # ---------------- the same cases through files: properties parsed by from_properties, wiring through the scale graph
        import warnings
        with warnings.catch_warnings():
            warnings.simplefilter("ignore")
            violations += file_level(ctx, file_cases, counts)
            violations += poly_table_file_level(ctx, counts)
    finally:
        if ev is not None:
            ev.close()
    return dict(violations=violations[:5], disagreements=disagreements[:20],
                coverage=dict(evaluations=sum(counts.values()), distinct_nontrivial=len(distinct),
                              rule="random physically meaningful parameter sets: PT100/PT1000-like RTDs (2/3/4-wire, lead 0-10 ohm, T in [-200, 850] incl. the quartic "
                                   "branch and T near 0), NTC thermistors (current and voltage excitation, R in [50, 2e6] ohm), all seven bridge codes with gain, "
                                   "lead and initial voltage, polynomials of degree <= 5 and tables of 2-6 points on dyadic inputs; every sixth sensor case additionally written as NI_Scale properties "
                                   "with TdmsWriter and read back eagerly and lazily (sensor alone / behind Linear scale 0 / at index 2 behind scale 1); distinct_nontrivial = distinct inputs",
                              samples=[dict(kind="rtd", r0=100.0, a=3.9083e-3, b=-5.775e-7, c=-4.183e-12, T=-50.0)], counts=counts))


def search(ctx, broken, disagreements):
    ctx.budget_factor = max(ctx.budget_factor, 5)
    return run(ctx)["violations"][:1]


def replay(ctx, path):
    r = run(ctx)
    print("replay: re-ran the sensor sweep: %s" % ([v.what for v in r["violations"]] or "property holds"))
    return 1 if r["violations"] else 0
