"""C18 — Thermocouple conversions follow the NIST ITS-90 reference functions.

Translator: the complete coefficient tables of nptdms/thermocouples.py are regenerated as exact rationals into
lean/Tdms/Generated/Thermocouples.lean on every run; `forward_tables_are_nist` compares them with the vendored NIST
tables in the kernel, so a changed digit breaks the proof build.
Correspondence: the Lean model (`tc`, exact rationals over the regenerated tables) vs the real
ThermocoupleScaling.scale on binary64 inputs.
Oracle (real code only): harness/tc_sweep.py — dense sweep of celsius_to_mv / mv_to_celsius / scale against exact
rational evaluation of the vendored NIST forward tables (and of the source's own inverse tables), every piece boundary
and its float neighbours, never NaN, round-trip error within the measured inverse error table.
"""
import json
import math
import os
import subprocess
import sys
from fractions import Fraction

import numpy as np

sys.path.insert(0, os.path.dirname(os.path.dirname(os.path.abspath(__file__))))
from framework import Violation, VERIF

LEVEL = "proof"
ANCHOR_FILES = ["nptdms/thermocouples.py", "nptdms/scaling.py"]
ASSUMPTIONS = ["the vendored NIST ITS-90 forward tables (reference/nist_its90_forward.json, extracted once from the thermocouples_reference package) are the reference",
               "NIST's stated inverse errors are not available offline: the inverse error table is the measured maximum per type and range, rounded up "
               "(inverse_error_grid_partial); monotonicity and inverse error are proved on a 501-point rational grid per type, not for all reals",
               "binary64 Horner evaluation and math.exp are measured against exact rational evaluation with tolerance 1e-9 relative + 1e-9 absolute"]
TRUSTED_EXTRA = ["harness/tc_sweep.py", "reference/nist_its90_forward.json", "lean/Tdms/Reference.lean (the same data as Lean terms)"]

CODES = {10047: "b", 10055: "e", 10072: "j", 10073: "k", 10077: "n", 10082: "r", 10085: "s", 10086: "t"}
RANGES = {"b": (0, 1820), "e": (-270, 1000), "j": (-210, 1200), "k": (-270, 1372), "n": (-270, 1300), "r": (-50, 1768), "s": (-50, 1768), "t": (-270, 400)}


def fr(x):
    f = Fraction(float(x))
    return "%d/%d" % (f.numerator, f.denominator)


def file_level(ctx, counts):
    """Thermocouple scalings through files, for every type, both directions and float64 / float32 / int16 raw data: the channel
    read from the file (eagerly and lazily, twice, a window before the full read) equals the direct conversion of the same
    numbers, repeated reads agree, and the raw data is left as it was."""
    import io
    from nptdms import TdmsFile, TdmsWriter, ChannelObject
    from nptdms import scaling as sc
    rnd = ctx.rnd
    out = []
    counts["file_level"] = 0
    for code, name in CODES.items():
        lo, hi = RANGES[name]
        th = getattr(__import__("nptdms.thermocouples", fromlist=["x"]), "type_" + name)
        for direction in (0, 1):
            for dt in (np.float64, np.float32, np.int16):
                if direction == 1:
                    xs = np.array([rnd.uniform(max(lo, -150), min(hi, 900)) for _ in range(6)])
                else:
                    vlo, vhi = float(th.celsius_to_mv(np.array([float(max(lo, -150))]))[0]), float(th.celsius_to_mv(np.array([float(min(hi, 900))]))[0])
                    xs = np.array([1000.0 * rnd.uniform(vlo, vhi) for _ in range(6)])
                raw = xs.astype(dt)
                if dt is not np.int16 and rnd.random() < 0.5:
                    # an open thermocouple / dropped sample: NaN among valid samples; every valid sample must convert as it does alone
                    raw = raw.copy()
                    raw[rnd.randrange(len(raw))] = np.nan
                chained = dt is np.float64 and rnd.random() < 0.5
                if chained:
                    # the thermocouple scale at index 1 takes its input from a Linear scale 0 (device units -> microvolts / degrees)
                    m_, b_ = rnd.choice([0.5, 2.0, 4.0]), rnd.choice([0.0, 1.0, -2.0])
                    conv_in = raw.astype(np.float64) * m_ + b_
                    if direction == 1:
                        conv_in = np.clip(conv_in, max(lo, -150), min(hi, 900))
                        raw = (conv_in - b_) / m_
                        conv_in = raw * m_ + b_
                    idx = 1
                else:
                    conv_in, idx = raw.astype(np.float64), 0
                expect = np.array([float(sc.ThermocoupleScaling(code, direction, 0xFFFFFFFF).scale(np.array([float(v)]))[0]) for v in conv_in])
                pre = "NI_Scale[%d]_Thermocouple_" % idx
                props = {"NI_Number_Of_Scales": np.uint32(idx + 1), "NI_Scale[%d]_Scale_Type" % idx: "Thermocouple", pre + "Thermocouple_Type": np.uint32(code),
                         pre + "Scaling_Direction": np.uint32(direction), pre + "Input_Source": np.uint32(0 if chained else 0xFFFFFFFF),
                         "NI_Scaling_Status": "unscaled"}
                if chained:
                    props.update({"NI_Scale[0]_Scale_Type": "Linear", "NI_Scale[0]_Linear_Slope": m_, "NI_Scale[0]_Linear_Y_Intercept": b_,
                                  "NI_Scale[0]_Linear_Input_Source": np.uint32(0xFFFFFFFF)})
                buf = io.BytesIO()
                rp = dict(kind="file-level", type=name, direction=direction, raw_dtype=str(np.dtype(dt)), raw=[float(v) for v in raw])
                try:
                    with TdmsWriter(buf) as w:
                        w.write_segment([ChannelObject("g", "c", raw, props)])
                    f = TdmsFile.read(io.BytesIO(buf.getvalue()))
                    ch = f["g"]["c"]
                    before = ch.raw_data.tobytes()
                    reads = [("read_data(1, 3)", ch.read_data(1, 3), expect[1:4]), ("[:]", ch[:], expect), ("read_data()", ch.read_data(), expect), ("[:] again", ch[:], expect)]
                    after = ch.raw_data.tobytes()
                    with TdmsFile.open(io.BytesIO(buf.getvalue())) as g:
                        reads.append(("lazy [:]", g["g"]["c"][:], expect))
                        reads.append(("lazy [:] again", g["g"]["c"][:], expect))
                        # successive windows of equal size (temporary raw arrays of one shape, one after the other), nothing held
                        for o_ in (0, 2, 4, 1, 3):
                            reads.append(("lazy read_data(%d, 2)" % o_, g["g"]["c"].read_data(o_, 2), expect[o_:o_ + 2]))
                        reads.append(("lazy chunks", np.concatenate([c_[:] for c_ in g["g"]["c"].data_chunks()]), expect))
                except Exception as ex:  # noqa
                    out.append(Violation("thermocouple type %s direction %d on %s raw data through a file raised %s: %s" % (name, direction, np.dtype(dt), type(ex).__name__, str(ex)[:120]), rp))
                    continue
                counts["file_level"] += 1
                if after != before:
                    out.append(Violation("reading a thermocouple-scaled channel (type %s, direction %d, %s) modified its raw data" % (name, direction, np.dtype(dt)), rp))
                for label, got, exp in reads:
                    got = np.asarray(got, dtype=np.float64)
                    exp = np.asarray(exp, dtype=np.float64)
                    ok = got.shape == exp.shape and np.array_equal(np.isnan(got), np.isnan(exp))
                    if ok:
                        fin = ~np.isnan(exp)
                        ok = bool(np.all(np.abs(got[fin] - exp[fin]) <= 1e-9 * np.maximum(1.0, np.abs(exp[fin]))))
                    if not ok:
                        out.append(Violation("thermocouple type %s direction %d on %s raw data: %s = %s, direct conversion of the same numbers gives %s" % (
                            name, direction, np.dtype(dt), label, list(got)[:3], list(exp)[:3]), rp))
                        break
            if len(out) >= 3:
                return out
    return out


def run(ctx):
    ctx.nptdms()
    from nptdms import scaling as sc
    model = ctx.get_model() if ctx.build_ok else None
    violations, disagreements = [], []
    counts = dict(model_points=0, sweep_points=0)
    model_inputs = set()
    # --- model vs real scale()
    if model is not None:
        for code, name in CODES.items():
            lo, hi = RANGES[name]
            for direction in (1, 0):
                n = ctx.n(150, 3000)
                if direction == 1:
                    xs = [ctx.rnd.uniform(lo, hi) for _ in range(n)] + [float(lo), float(hi), 0.0, -0.0]
                else:
                    th = getattr(__import__("nptdms.thermocouples", fromlist=["x"]), "type_" + name)
                    vlo, vhi = float(th.celsius_to_mv(np.array([float(max(lo, -200))]))[0]), float(th.celsius_to_mv(np.array([float(hi)]))[0])
                    xs = [1000.0 * ctx.rnd.uniform(vlo, vhi) for _ in range(n)]
                arr = np.array(xs, dtype=np.float64)
                real = sc.ThermocoupleScaling(code, direction, 0xFFFFFFFF).scale(arr)
                if direction == 0:
                    # the code divides by 1000.0 in binary64 before evaluating: mirror that one rounding
                    toks = ["%d/%d" % ((Fraction(float(x) / 1000.0) * 1000).numerator, (Fraction(float(x) / 1000.0) * 1000).denominator) for x in xs]
                else:
                    toks = [fr(x) for x in xs]
                r = model.ask("tc %d %d %s" % (code, direction, " ".join(toks)))
                if "results" not in r:
                    disagreements.append(dict(what="type %s dir %d: the model has no table for type code %d (%s)" % (name, direction, code, str(r)[:120])))
                    continue
                for x, got, m in zip(xs, real, r["results"]):
                    counts["model_points"] += 1
                    model_inputs.add((code, direction, x))
                    if m is None:
                        disagreements.append(dict(what="type %s dir %d x=%r: model selects no piece" % (name, direction, x)))
                        continue
                    a, b = m[0].split("/")
                    exact = Fraction(int(a), int(b))
                    val = float(exact)
                    if m[1] is not None:
                        c, e = [Fraction(int(t.split("/")[0]), int(t.split("/")[1])) for t in m[1]]
                        val += float(c) * math.exp(float(e))
                    if not (abs(float(got) - val) <= 1e-9 * abs(val) + (1e-6 if direction == 1 else 1e-9)) or math.isnan(float(got)):
                        disagreements.append(dict(what="type %s dir %d x=%r: real %r model %r" % (name, direction, x, float(got), val)))
                if len(disagreements) > ctx.dis_limit:
                    break
    # --- sweep of the real code against the vendored reference
    n = 5000 if ctx.tier == "quick" else 100000
    n = int(n * min(ctx.budget_factor, 4))
    p = subprocess.run(["/venv/bin/python", os.path.join(VERIF, "harness", "tc_sweep.py"), "-n", str(n), "--seed", str(ctx.seed),
                        "--reference", os.path.join(VERIF, "reference", "nist_its90_forward.json")],
                       stdout=subprocess.PIPE, stderr=subprocess.PIPE, text=True, timeout=3000)
    out = p.stdout.strip().split("\n")
    summary = out[-1] if out else ""
    import re
    for line in out:
        mm = re.search(r"evaluations compared: (\d+)", line)
        if mm:
            counts["sweep_points"] = int(mm.group(1))
        mm = re.search(r"boundary/neighbour evaluations: (\d+), of which (\d+) tell", line)
        if mm:
            counts["boundary_points"] = int(mm.group(1))
            counts["boundary_points_distinguishing_pieces"] = int(mm.group(2))
        mm = re.search(r"round trips within the per-piece tolerance: (\d+)", line)
        if mm:
            counts["round_trips"] = int(mm.group(1))
    if p.returncode == 1:
        info = None
        for line in out[::-1]:
            try:
                info = json.loads(line)
                break
            except Exception:
                continue
        violations.append(Violation("thermocouple sweep: %s" % (json.dumps(info)[:300] if info else summary), dict(kind="sweep", failure=info, n=n, seed=ctx.seed)))
    elif p.returncode != 0:
        raise RuntimeError("tc_sweep.py infrastructure failure (%d): %s %s" % (p.returncode, p.stdout[-500:], p.stderr[-500:]))
    violations += file_level(ctx, counts)
    return dict(violations=violations, disagreements=disagreements[:20], notes=[summary[:300]],
                coverage=dict(evaluations=counts["model_points"] + counts["sweep_points"],
                              # measured: inputs compared through the model + boundary/neighbour evaluations that tell adjacent pieces apart
                              distinct_nontrivial=len(model_inputs) + counts.get("boundary_points_distinguishing_pieces", 0),
                              rule="model correspondence: %d random binary64 inputs per type and direction over the NIST range, compared with exact rational evaluation of the "
                                   "regenerated tables; sweep: %d points per type and direction over the range widened by 5%% plus every piece boundary and its float "
                                   "neighbours (+-1, +-2 ulp), both APIs (celsius_to_mv/mv_to_celsius and ThermocoupleScaling.scale), all eight types; distinct_nontrivial = "
                                   "distinct (type, direction, input) triples compared through the model + boundary evaluations whose two adjacent pieces differ by more "
                                   "than twice the tolerance (i.e. that would expose a wrong piece selection)" % (ctx.n(150, 3000), n),
                              samples=[dict(type="k", direction=1, x=25.0)], counts=counts, sweep_output=out[-6:]))


def search(ctx, broken, disagreements):
    ctx.tier = "thorough"
    return run(ctx)["violations"][:1]


def replay(ctx, path):
    with open(path) as f:
        rp = json.load(f)["replay"]
    p = subprocess.run(["/venv/bin/python", os.path.join(VERIF, "harness", "tc_sweep.py"), "-n", str(rp.get("n", 5000)), "--seed", str(rp.get("seed", 0)),
                        "--reference", os.path.join(VERIF, "reference", "nist_its90_forward.json")], stdout=subprocess.PIPE, text=True)
    print("replay: sweep exit %d: %s" % (p.returncode, p.stdout.strip().split("\n")[-1][:300]))
    return 1 if p.returncode == 1 else 0
