"""C09 — A matching index file is transparent.

Correspondence: the reader model walking an index file (`meta <data> <index> <size>`) vs the real reader's segment
table / object metadata when a .tdms_index sits beside the data file (also for a data file shorter than the index
describes, and for the index alone).
Oracle (real code only): read / open / read_metadata give identical objects, properties, lengths, dtypes and data
with and without the index (index from the independent Lean spec encoder, and from TdmsWriter); the index alone
gives the same objects, properties, types and lengths and refuses data reads with an error.
"""
import io
import os
import shutil
import sys
import tempfile

import numpy as np

sys.path.insert(0, os.path.dirname(os.path.dirname(os.path.abspath(__file__))))
import canon
import gen_files
import gen_daqmx
import corr_lazy as cl
from corr_reader import compare_state
from framework import Violation
from props import lazy_common
from leanio import hx

LEVEL = "proof"
ANCHOR_FILES = ["nptdms/reader.py", "nptdms/tdms.py", "nptdms/writer.py"]
ASSUMPTIONS = ["index-only reads of files whose last lead-in carries the length-unknown marker are not claimed (the data size is needed to resolve the marker)"]
TRUSTED_EXTRA = ["lean/Tdms/Spec/Format.lean encodeIndex (the independent index encoder)"]


def meta_of(f, with_data):
    """objects, properties, types, lengths, dtypes (and data when read)"""
    out = dict(version=f.tdms_version, groups=[[g.name, [c.name for c in g.channels()]] for g in f.groups()],
               props=[[k, canon.norm(canon.prop_value(v))] for k, v in f.properties.items()], chans=[])
    for g in f.groups():
        out["chans"].append(["group", g.name, [[k, canon.norm(canon.prop_value(v))] for k, v in g.properties.items()]])
        for c in g.channels():
            ent = dict(path=c.path, ty=None if c.data_type is None else c.data_type.enum_value, n=len(c), dtype=str(c.dtype),
                       props=[[k, canon.norm(canon.prop_value(v))] for k, v in c.properties.items()])
            if with_data:
                rd = c._raw_data
                ent["data"] = None if rd is None else (canon.value_bytes(rd.data) if rd.data is not None else canon.norm([[int(k), canon.value_bytes(v)] for k, v in rd.scaler_data.items()]))
            out["chans"].append(ent)
    return out


def lazy_data(f):
    """per channel: the full lazy read and the partial ones (window, slice, first / last element, chunk stream) — the partial reads go
    through the offset index and the per-segment chunk arithmetic, which take what they know from the index file when one is used"""
    out = {}
    for c in cl.channels_of(f):
        n = len(c)
        ent = []
        for fn in (lambda: cl.canon_out(c.read_data(scaled=False)), lambda: cl.canon_out(c.read_data(1, 2, scaled=False)),
                   lambda: canon.value_bytes(c[max(0, n - 3):n]) if c.data_type is None or c.data_type.enum_value != 0xFFFFFFFF else None,
                   lambda: [canon.scalar_hex(c[i]) for i in ([0, n - 1] if n else [])] if c.data_type is None or c.data_type.enum_value != 0xFFFFFFFF else None,
                   lambda: [len(ch) for ch in list(c.data_chunks())]):
            r = cl.call(fn)
            ent.append(canon.norm(r[1]) if r[0] == "ok" else ("raised", r[1]))
        out[c.path] = ent
    return out


def check_pair(ctx, model, nptdms, tmp, data, index, stats, label, marker, cut=False):
    dis, vio = [], []
    T = nptdms.TdmsFile
    p_plain = os.path.join(tmp, "plain.tdms")
    p_idx = os.path.join(tmp, "withidx.tdms")
    for p in (p_plain, p_idx):
        with open(p, "wb") as fh:
            fh.write(data)
    with open(p_idx + "_index", "wb") as fh:
        fh.write(index)
    if os.path.exists(p_plain + "_index"):
        os.unlink(p_plain + "_index")

    def both(name, fn):
        a, b = cl.call(lambda: fn(p_plain)), cl.call(lambda: fn(p_idx))
        stats["comparisons"] += 1
        if a[0] != b[0] or (a[0] == "ok" and a[1] != b[1]) or (a[0] == "err" and a[1] != b[1]):
            vio.append(Violation("%s (%s): result differs with the index file present: %s vs %s" % (name, label, str(a)[:160], str(b)[:160]),
                                 dict(kind="index", data=data.hex(), index=index.hex(), op=name)))
        return a, b

    def unv(m):
        # with the data file cut inside the last lead-in the index walk has unpacked one more lead-in than the data walk, so
        # tdms_version may differ (C09Content.exCutVersions); the version is not among the things the property lists
        if cut:
            m.pop("version", None)
        return m

    def rd(p):
        f = T.read(p, raw_timestamps=True)
        return unv(meta_of(f, True))

    def op(p):
        with T.open(p, raw_timestamps=True) as f:
            return unv(meta_of(f, False)), lazy_data(f)

    def md(p):
        return unv(meta_of(T.read_metadata(p, raw_timestamps=True), False))
    a, _ = both("TdmsFile.read", rd)
    both("TdmsFile.open", op)
    both("TdmsFile.read_metadata", md)
    # model walking the index
    if model is not None:
        r = cl.call(lambda: T.open(p_idx, raw_timestamps=True))
        if r[0] == "ok":
            real = canon.dump_reader(r[1]._reader)
            real["ok"] = True
            r[1].close()
        else:
            real = dict(ok=False, err=r[1], exc=r[2])
        m = model.ask("meta - %s %d" % (hx(index), len(data)))
        d = compare_state(m, real)
        stats["model"] += 1
        if d:
            dis.append(dict(what="reading through the index (%s): %s" % (label, d[0]), data=data.hex(), index=index.hex()))
    # index alone
    if not marker and a[0] == "ok":
        p_only = os.path.join(tmp, "only.tdms_index")
        with open(p_only, "wb") as fh:
            fh.write(index)
        r = cl.call(lambda: T.open(p_only, raw_timestamps=True))
        stats["index_only"] += 1
        if r[0] != "ok":
            vio.append(Violation("opening the index file alone raised %s (%s)" % (r[2], label), dict(kind="index-only", data=data.hex(), index=index.hex())))
        else:
            f = r[1]
            try:
                mo = meta_of(f, False)
                exp = {k: v for k, v in a[1].items()}
                exp["chans"] = [({k: v for k, v in c.items() if k != "data"} if isinstance(c, dict) else c) for c in exp["chans"]]
                if mo != exp:
                    vio.append(Violation("the index file alone gives different objects / properties / types / lengths (%s)" % label,
                                         dict(kind="index-only", data=data.hex(), index=index.hex(), got=mo, expected=exp)))
                for c in cl.channels_of(f):
                    if c.data_type is not None:
                        # requests for no values at all are data reads too: refused like the others
                        for nm, fn in (("read_data(length=0)", lambda: c.read_data(length=0)), ("read_data(offset=len)", lambda: c.read_data(offset=len(c))),
                                       ("read_data(scaled=False) of an empty channel", (lambda: c.read_data(scaled=False)) if len(c) == 0 else None)):
                            if fn is None:
                                continue
                            rr = cl.call(fn)
                            if rr[0] == "ok":
                                vio.append(Violation("index-only file: %s on %r returned %r instead of raising" % (nm, c.path, rr[1]), dict(kind="index-only", data=data.hex(), index=index.hex(), op=nm)))
                    if len(c) == 0:
                        continue
                    for nm, fn in (("read_data()", lambda: c.read_data()), ("[:]", lambda: c[:]), ("[0]", lambda: c[0]), ("data_chunks", lambda: list(c.data_chunks()))):
                        rr = cl.call(fn)
                        if rr[0] == "ok":
                            vio.append(Violation("index-only file: %s on %r returned data instead of raising" % (nm, c.path), dict(kind="index-only", data=data.hex(), index=index.hex(), op=nm)))
                if model is not None:
                    real = canon.dump_reader(f._reader)
                    real["ok"] = True
                    m = model.ask("meta - %s -" % hx(index))
                    d = compare_state(m, real)
                    if d:
                        dis.append(dict(what="index only (%s): %s" % (label, d[0]), index=index.hex()))
            finally:
                f.close()
        # the EAGER entry points on the index alone (path and stream): there is no data to read, so asking a non-empty channel for
        # values must raise, never return values
        for name, mk in (("TdmsFile.read(index path)", lambda: T.read(p_only, raw_timestamps=True)), ("TdmsFile(index path)", lambda: T(p_only, raw_timestamps=True)),
                         ("TdmsFile.read(index stream)", lambda: T.read(io.BytesIO(index), raw_timestamps=True))):
            rf = cl.call(mk)
            stats["index_only"] += 1
            if rf[0] != "ok":
                continue        # reported by the metadata comparison below where it applies
            for c in cl.channels_of(rf[1]):
                if len(c) == 0:
                    continue
                for nm, fn in ((".data", lambda: c.data), ("[:]", lambda: c[:]), ("[0]", lambda: c[0]), ("read_data()", lambda: c.read_data()), ("iteration", lambda: list(c))):
                    rr = cl.call(fn)
                    if rr[0] == "ok":
                        vio.append(Violation("%s: %s on %r returned %s instead of raising (the index holds no data)" % (name, nm, c.path, str(rr[1])[:60]),
                                             dict(kind="index-only", data=data.hex(), index=index.hex(), op=nm)))
                        break
        # the index alone handed over as a stream (in-memory): every entry point gives the same objects / properties / types / lengths
        exp_meta = {k: v for k, v in a[1].items()}
        exp_meta["chans"] = [({k: v for k, v in c.items() if k != "data"} if isinstance(c, dict) else c) for c in exp_meta["chans"]]
        for name, fn in (("TdmsFile.read", lambda s_: meta_of(T.read(s_, raw_timestamps=True), False)),
                         ("TdmsFile.read_metadata", lambda s_: meta_of(T.read_metadata(s_, raw_timestamps=True), False)),
                         ("TdmsFile.open", lambda s_: meta_of(T.open(s_, raw_timestamps=True), False))):
            rr = cl.call(lambda: fn(io.BytesIO(index)))
            stats["index_only"] += 1
            if rr[0] != "ok":
                vio.append(Violation("%s of the index file alone given as a stream raised %s (%s)" % (name, rr[2], label), dict(kind="index-only", data=data.hex(), index=index.hex(), op=name)))
            elif rr[1] != exp_meta:
                vio.append(Violation("%s of the index file alone given as a stream gives different objects / properties / types / lengths (%s)" % (name, label),
                                     dict(kind="index-only", data=data.hex(), index=index.hex(), op=name)))
    return dis, vio


def writer_file(rnd, nptdms, tmp):
    """a file and its index written by TdmsWriter itself"""
    from nptdms import TdmsWriter, ChannelObject, GroupObject, RootObject
    p = os.path.join(tmp, "w.tdms")
    for q in (p, p + "_index"):
        if os.path.exists(q):
            os.unlink(q)
    mode = rnd.choice(["w", "w", "w+", "x"])       # every mode string open() accepts for creating / appending
    version = rnd.choice([4712, 4713])
    for _ in range(rnd.randint(1, 3)):
        with TdmsWriter(p, mode=mode, index_file=True, version=version) as w:
            for _ in range(rnd.randint(1, 3)):
                objs = []
                # (names, strings and integers whose bytes spell the segment tags: an index is the data file's lead-in and metadata with
                # the FIRST four bytes of each segment replaced, nothing else)
                if rnd.random() < 0.4:
                    objs.append(RootObject({"r": rnd.choice([rnd.randint(-5, 5), np.int32(0x6d534454), np.int32(0x68534454)])}))
                if rnd.random() < 0.4:
                    objs.append(GroupObject("g", {"gp": rnd.choice(["x" * rnd.randint(0, 3), "TDSm", "a TDSm b TDSh"])}))
                if rnd.random() < 0.15:
                    objs.append(ChannelObject("g", "TDSm_level", np.arange(rnd.randint(0, 3)).astype("i2"), {"TDSm": "TDSm"}))
                for ci in range(rnd.randint(1, 3)):
                    kind = rnd.choice(["i4", "f8", "str", "u1", "ts"])
                    n = rnd.randint(0, 4)
                    if kind == "str":
                        # an empty Python list would be typed float64 by the writer; a string channel's empty write is an object array
                        arr = np.array(["s%d" % rnd.randint(0, 99) * rnd.randint(0, 2) for _ in range(n)], dtype=object)
                    elif kind == "ts":
                        arr = np.array([np.datetime64("2020-01-01T00:00:00", "us") + np.timedelta64(rnd.randint(0, 10 ** 9), "us") for _ in range(n)], dtype="datetime64[us]")
                    else:
                        arr = (np.arange(n) * 3 + rnd.randint(0, 9)).astype(kind)
                    objs.append(ChannelObject("g", "c%d_%s" % (ci, kind), arr, {"k": ci}))
                w.write_segment(objs)
        mode = rnd.choice(["a", "a", "a+"])
    return open(p, "rb").read(), open(p + "_index", "rb").read()



def run(ctx):
    nptdms = ctx.nptdms()
    model = ctx.get_model() if ctx.build_ok else None
    if model is None:
        return dict(coverage=dict(evaluations=0, distinct_nontrivial=0, rule="model unavailable", samples=[]))
    stats = dict(files=0, comparisons=0, model=0, index_only=0, writer_index=0, truncated=0)
    disagreements, violations, samples = [], [], []
    nontrivial = set()
    tmp = tempfile.mkdtemp(prefix="nptdms_verif_c09_")
    try:
        for i in range(ctx.n(250, 8000)):
            kind = i % 8
            if kind == 7:
                data, index = writer_file(ctx.rnd, nptdms, tmp)
                label, marker = "TdmsWriter index", False
                stats["writer_index"] += 1
                segs = None
            else:
                segs = gen_daqmx.draw(ctx.rnd) if kind == 6 else lazy_common.repeated_metadata(ctx.rnd) if (kind == 5 and i % 16 == 5) else gen_files.FileGen(ctx.rnd).draw()
                e = model.ask(gen_files.to_line(segs))
                if not e.get("ok") or not e.get("wf"):
                    continue
                data, index = bytes.fromhex(e["file"]), bytes.fromhex(e["index"])
                label, marker = "spec index", segs[-1]["lengthUnknown"]
            stats["files"] += 1
            d, v = check_pair(ctx, model, nptdms, tmp, data, index, stats, label, marker)
            disagreements += d
            violations += v
            if len(data) > len(index) + 0:
                nontrivial.add(data)
            # data file shorter than the index describes (crash while the index was already complete): the with/without-index
            # oracle and the model's index walk with the clamp against the data file's size
            if segs is not None and i % 4 == 0 and len(data) > 60:
                cuts = {ctx.rnd.randint(max(4, len(data) - 40), len(data) - 1), ctx.rnd.randint(4, len(data) - 1)}
                for k in sorted(cuts):
                    stats["truncated"] += 1
                    d, v = check_pair(ctx, model, nptdms, tmp, data[:k], index, stats, "%s, data file cut at %d" % (label, k), True, cut=True)
                    disagreements += d
                    violations += v
            if len(samples) < 2 and segs is not None and len(data) < 300:
                samples.append(dict(encoding=gen_files.to_line(segs)))
            if len(violations) >= 5 or len(disagreements) >= ctx.dis_limit:
                break
            if ctx.tier == "quick" and ctx.elapsed() > 45:
                break
        # index files far larger than any plausible read buffer: a small well-formed file repeated (a sequence of segments followed by
        # the same segments again is a well-formed file, and its index is the repeated index) until the index passes a size target
        targets = [300 * 1024] if ctx.tier == "quick" else [70 * 1024, 300 * 1024, 1100 * 1024, 2200 * 1024]
        for target in ([] if (len(violations) >= 5 or len(disagreements) >= ctx.dis_limit) else targets):
            for _ in range(40):
                segs = gen_files.FileGen(ctx.rnd, max_segs=3, max_paths=3).draw()
                if segs[-1]["lengthUnknown"] or not segs[0]["newList"]:
                    continue
                e = model.ask(gen_files.to_line(segs))
                if not e.get("ok") or not e.get("wf"):
                    continue
                data, index = bytes.fromhex(e["file"]), bytes.fromhex(e["index"])
                if not (60 <= len(index) <= 600) or len(data) > 1200:
                    continue
                k = target // len(index) + 1
                big_data, big_index = data * k, index * k
                r0, _ = canon.real_read(big_data, nptdms)
                if not r0.get("ok"):
                    continue
                stats["large_index"] = stats.get("large_index", 0) + 1
                stats["large_index_bytes"] = max(stats.get("large_index_bytes", 0), len(big_index))
                d, v = check_pair(ctx, None, nptdms, tmp, big_data, big_index, stats, "spec index repeated %d times (%d bytes)" % (k, len(big_index)), False)
                disagreements += d
                violations += v
                nontrivial.add(big_data)
                break
    finally:
        shutil.rmtree(tmp, ignore_errors=True)
    return dict(violations=violations[:5], disagreements=disagreements[:20],
                coverage=dict(evaluations=stats["comparisons"] + stats["model"] + stats["index_only"] + stats["truncated"], distinct_nontrivial=len(nontrivial),
                              rule="generated files (standard; every eighth DAQmx; every sixteenth a file repeating byte-identical `matches previous` metadata blocks around a changed raw data index; every eighth written by TdmsWriter with index_file=True over 1-2 sessions) on disk in a "
                                   "temporary directory, with no index / the Lean-spec index / the TdmsWriter index; read, open (+ lazy full reads), read_metadata, index "
                                   "alone; one small file repeated until its index exceeds 300 KiB (thorough: 70 KiB, 300 KiB, 1.1 MiB, 2.2 MiB) under the same with/without-index and index-alone oracles; every fourth file additionally with the data file cut short at two offsets under the full index (same with/without-index oracle, tdms_version excluded); non-trivial = distinct "
                                   "files holding raw data",
                              samples=samples or [dict(note="writer-produced files")], counts=stats))


def search(ctx, broken, disagreements):
    ctx.budget_factor = max(ctx.budget_factor, 3)
    return run(ctx)["violations"][:1]


def replay(ctx, path):
    import json
    with open(path) as f:
        rp = json.load(f)["replay"]
    tmp = tempfile.mkdtemp(prefix="nptdms_verif_c09_")
    try:
        _, v = check_pair(ctx, None, ctx.nptdms(), tmp, bytes.fromhex(rp["data"]), bytes.fromhex(rp["index"]), dict(comparisons=0, model=0, index_only=0), "replay", False)
    finally:
        shutil.rmtree(tmp, ignore_errors=True)
    print("replay: %s" % ([x.what for x in v[:3]] or "property holds on this pair"))
    return 1 if v else 0


def corpus(ctx, entry):
    rp = entry["replay"]
    tmp = tempfile.mkdtemp(prefix="nptdms_verif_c09_")
    try:
        return check_pair(ctx, ctx.get_model() if ctx.build_ok else None, ctx.nptdms(), tmp, bytes.fromhex(rp["data"]), bytes.fromhex(rp["index"]),
                          dict(comparisons=0, model=0, index_only=0), "corpus", False)
    finally:
        shutil.rmtree(tmp, ignore_errors=True)
