"""C16 — Object names are arbitrary strings and never alias.

Correspondence: Lean `Model/Path.lean` (`componentsToPath`, `pathComponents`) vs `nptdms.common._components_to_path`,
`_path_components` — exhaustive over all strings up to length 4 over {quote, slash, space, letter} (names) and all
scanner inputs up to length 6, random unicode beyond.
Oracle (real code only): ObjectPath(g, c) -> str -> from_string is the identity and injective; names survive
TdmsWriter -> TdmsFile (name, path, group_name, dictionary lookup) and never alias.
"""
import io
import itertools
import os
import sys

import numpy as np

sys.path.insert(0, os.path.dirname(os.path.dirname(os.path.abspath(__file__))))
from framework import Violation

LEVEL = "proof"
ANCHOR_FILES = ["nptdms/common.py", "nptdms/tdms.py", "nptdms/writer.py"]
ASSUMPTIONS = ["Python str = list of code points; UTF-8 encoding/decoding is injective (modelled, not verified); lone surrogates cannot be written and are outside the property"]
TRUSTED_EXTRA = ["harness/props/C16.py"]

ALPHA = ["'", "/", " ", "a"]


def cps(s):
    return ",".join(str(ord(c)) for c in s) or "-"


def uncps(t):
    return "" if t == "-" else "".join(chr(int(x)) for x in t.split(","))


def rand_name(rnd):
    k = rnd.random()
    if k < 0.3:
        return "".join(rnd.choice(ALPHA) for _ in range(rnd.randint(0, 7)))
    pool = "'/ aAZ\\\"\t\néÉ日\U0001F600\u0000​'/''"
    if k > 0.9:
        # names that are templates of a string-formatting mechanism
        return rnd.choice(["Load 100%", "50%% mix", "%s", "%(x)s", "%d'", "{0}", "{}", "{g}/{c}", "a\\'b", "$name", "\\"]) + rnd.choice(["", "", "'", "/"])
    return "".join(rnd.choice(pool) for _ in range(rnd.randint(0, 10)))


def near_alias(rnd, name):
    """a DIFFERENT string that a normalising comparison would identify with `name`: other letter case, Unicode normal form,
    surrounding white space, a trailing NUL, full-width letters"""
    import unicodedata
    base = name or "t"
    cands = [base.lower(), base.upper(), base.swapcase(), base + " ", " " + base, base.strip(), unicodedata.normalize("NFD", base), unicodedata.normalize("NFC", base),
             base + "\u0000", base.replace("a", "\uff41"), base.casefold(), base + "\u200b"]
    cands = [c for c in cands if c != name]
    return rnd.choice(cands) if cands else name + " "


def real_scan(common, s):
    try:
        return ("ok", list(common._path_components(s)))
    except ValueError as ex:
        return ("err", "expectedSlash" if 'expected "/"' in str(ex) else "expectedQuote")


def run(ctx):
    nptdms = ctx.nptdms()
    from nptdms import common, TdmsWriter, ChannelObject, GroupObject, RootObject, TdmsFile
    model = ctx.get_model() if ctx.build_ok else None
    rnd = ctx.rnd
    violations, disagreements = [], []
    counts = dict(names=0, pairs=0, scans=0, end_to_end=0, random=0)
    maxlen = 4 if ctx.tier == "thorough" else 3
    names = [""] + ["".join(t) for n in range(1, maxlen + 1) for t in itertools.product(ALPHA, repeat=n)]
    seen_paths = {}

    def check_pair(g, c):
        comps = [x for x in (g, c) if x is not None]
        try:
            p = str(common.ObjectPath(*comps))
            back = common.ObjectPath.from_string(p)
        except Exception as ex:  # noqa
            violations.append(Violation("ObjectPath(%r, %r) -> str -> from_string raised %s: %s" % (g, c, type(ex).__name__, ex),
                                        dict(kind="roundtrip", group=g, channel=c, path=None)))
            return
        if (back.group, back.channel) != (g, c):
            violations.append(Violation("ObjectPath(%r, %r) -> %r -> from_string gives (%r, %r)" % (g, c, p, back.group, back.channel),
                                        dict(kind="roundtrip", group=g, channel=c, path=p)))
        prev = seen_paths.setdefault(p, (g, c))
        if prev != (g, c):
            violations.append(Violation("distinct names %r and %r give the same path %r" % (prev, (g, c), p), dict(kind="alias", a=prev, b=[g, c], path=p)))
        if model is not None:
            m = uncps(model.ask("pathenc " + " ".join(cps(x) for x in comps)) if comps else model.ask("pathenc"))
            if m != p:
                disagreements.append(dict(what="componentsToPath%r model=%r real=%r" % (comps, m, p)))
            d = model.ask("pathdec " + cps(p))
            if not d["ok"] or [uncps(x) for x in d["comps"]] != comps:
                disagreements.append(dict(what="pathComponents(%r) model=%s" % (p, d)))

    check_pair(None, None)
    for g in names:
        counts["names"] += 1
        check_pair(g, None)
    pair_names = [n for n in names if len(n) <= 3]
    pairs = list(itertools.product(pair_names, repeat=2))
    if ctx.tier == "quick":
        pairs = rnd.sample(pairs, min(len(pairs), 1500))
    for g, c in pairs:
        counts["pairs"] += 1
        check_pair(g, c)
        if len(violations) > 4:
            break
    # scanner on arbitrary (also malformed) strings: model = real
    scan_len = 6 if ctx.tier == "thorough" else 5
    for n in range(0, scan_len + 1):
        for t in itertools.product(ALPHA, repeat=n):
            s = "".join(t)
            counts["scans"] += 1
            r = real_scan(common, s)
            if model is not None:
                d = model.ask("pathdec " + cps(s))
                if d["ok"]:
                    ok = r[0] == "ok" and [uncps(x) for x in d["comps"]] == r[1]
                else:
                    ok = r[0] == "err" and r[1] in d["err"]
                if not ok:
                    disagreements.append(dict(what="pathComponents(%r) model=%s real=%s" % (s, d, r)))
    # random unicode
    for _ in range(ctx.n(600, 20000)):
        g, c = rand_name(rnd), rnd.choice([None, rand_name(rnd), rand_name(rnd)])
        counts["random"] += 1
        check_pair(g, c)
    # end to end through writer and reader
    for _ in range(ctx.n(60, 1500)):
        k = rnd.randint(1, 4)
        objs, seen = [], set()
        for _ in range(k):
            g, c = rnd.choice(names[:40] + [rand_name(rnd)]), rnd.choice(names[:40] + [rand_name(rnd), "Temp", "é'x", "straße"])
            if objs and rnd.random() < 0.4:
                # a near-alias of an object already in this segment: same group and a channel name differing only in case / normal
                # form / white space, or the same for the group
                g0, c0 = rnd.choice(objs)
                g, c = (g0, near_alias(rnd, c0)) if rnd.random() < 0.6 else (near_alias(rnd, g0), c0)
            if (g, c) in seen:
                continue
            try:
                (g + c).encode("utf-8")
            except UnicodeEncodeError:
                continue
            seen.add((g, c))
            objs.append((g, c))
        buf = io.BytesIO()
        try:
            # every group also as an explicit object with a property of its own, plus one group that has no channels at all
            lone = rnd.choice(["", "", "lone", rand_name(rnd)])
            try:
                lone.encode("utf-8")
            except UnicodeEncodeError:
                lone = ""
            group_names = sorted({g for g, _ in objs} | {lone})
            with TdmsWriter(buf) as w:
                w.write_segment([GroupObject(g, {"gp": "<" + g + ">"}) for g in group_names]
                                + [ChannelObject(g, c, np.array([i, i + 1], dtype=np.int32), {"n": g + "|" + c}) for i, (g, c) in enumerate(objs)])
            buf.seek(0)
            f = TdmsFile.read(buf)
            got_groups = sorted(gr.name for gr in f.groups())
            if got_groups != group_names:
                violations.append(Violation("groups written %r, groups read %r" % (group_names, got_groups), dict(kind="e2e", objects=objs, lone_group=lone)))
            else:
                for g in group_names:
                    gr = f[g]
                    exp_gpath = "/'" + g.replace("'", "''") + "'"
                    if (gr.name, gr.path, gr.properties.get("gp")) != (g, exp_gpath, "<" + g + ">"):
                        violations.append(Violation("group %r read back as name=%r path=%r properties=%r" % (g, gr.name, gr.path, dict(gr.properties)), dict(kind="e2e", objects=objs, lone_group=lone)))
                        break
        except Exception as ex:  # noqa
            violations.append(Violation("writing / reading channels named %r raised %s: %s" % (objs, type(ex).__name__, ex), dict(kind="e2e", objects=objs)))
            continue
        counts["end_to_end"] += 1
        for i, (g, c) in enumerate(objs):
            try:
                ch = f[g][c]
            except KeyError as ex:
                violations.append(Violation("channel (%r, %r) written but lookup raised %r" % (g, c, ex), dict(kind="e2e", objects=objs, at=i)))
                continue
            exp_path = "/" + "/".join("'" + x.replace("'", "''") + "'" for x in (g, c))
            if (ch.name, ch.group_name, ch.path, list(ch[:]), ch.properties["n"]) != (c, g, exp_path, [i, i + 1], g + "|" + c):
                violations.append(Violation("channel (%r, %r) read back as name=%r group=%r path=%r data=%r" % (g, c, ch.name, ch.group_name, ch.path, list(ch[:])),
                                            dict(kind="e2e", objects=objs, at=i)))
        # the same file read with memmap_dir (file-backed arrays: names must not leak into file-system paths)
        if counts["end_to_end"] % 3 == 0:
            import shutil
            import tempfile
            md = tempfile.mkdtemp(prefix="nptdms_verif_c16_")
            try:
                fm = TdmsFile.read(io.BytesIO(buf.getvalue()), memmap_dir=md)
                with TdmsFile.open(io.BytesIO(buf.getvalue()), memmap_dir=md) as fo:
                    for i, (g, c) in enumerate(objs):
                        if list(fm[g][c][:]) != [i, i + 1] or list(fo[g][c][:]) != [i, i + 1]:
                            violations.append(Violation("channel (%r, %r) read with memmap_dir gives %r / %r" % (g, c, list(fm[g][c][:]), list(fo[g][c][:])), dict(kind="e2e", objects=objs, at=i)))
                            break
                del fm
            except Exception as ex:  # noqa
                violations.append(Violation("reading channels named %r with memmap_dir raised %s: %s" % (objs, type(ex).__name__, str(ex)[:120]), dict(kind="e2e", objects=objs)))
            finally:
                shutil.rmtree(md, ignore_errors=True)
        if sorted((ch.group_name, ch.name) for gr in f.groups() for ch in gr.channels()) != sorted(objs):
            violations.append(Violation("set of channels read differs from the set written: %r" % (objs,), dict(kind="e2e", objects=objs)))
        if len(violations) > 4:
            break
    # object lists of different segments whose paths concatenate to the same text (two groups x, y vs one channel x/y): anything that
    # identifies an object list by its joined paths aliases them; seen through the lazy API, which indexes objects per segment
    counts["joined_paths"] = 0
    if model is not None:
        import struct
        import gen_files as gf
        for _ in range(ctx.n(8, 200)):
            x, y = rnd.choice(["a", "it's", "p q", "ü", rand_name(rnd) or "z"]), rnd.choice(["b", "a", "'", "日", rand_name(rnd) or "w"])
            try:
                (x + y).encode("utf-8")
            except UnicodeEncodeError:
                continue
            base = dict(hasMeta=True, newList=True, interleaved=False, big=False, rawFlag=True, daqmxFlag=False, lengthUnknown=False, version=4713, padding=0)
            v = lambda n: [struct.pack("<i", rnd.randint(-99, 99)) for _ in range(n)]
            xy, cd = gf.path_of(x, y), gf.path_of("c", "d")
            if xy == cd:
                continue
            s1 = dict(base, objs=[dict(path=gf.path_of(), idx=("N",), props=[]), dict(path=xy, idx=("F", 3, 2, 0), props=[]), dict(path=cd, idx=("F", 3, 2, 0), props=[])], chunks=[[v(2), v(2)]])
            s2 = dict(base, objs=[dict(path=gf.path_of(), idx=("N",), props=[]), dict(path=gf.path_of(x), idx=("N",), props=[]), dict(path=gf.path_of(y), idx=("N",), props=[]),
                                  dict(path=cd, idx=("F", 3, 3, 0), props=[])], chunks=[[v(3)], [v(3)]])
            segs2 = [s1, s2] if rnd.random() < 0.5 else [s2, s1]
            e = model.ask(gf.to_line(segs2))
            if not e.get("ok") or not e.get("wf"):
                continue
            data = bytes.fromhex(e["file"])
            counts["joined_paths"] += 1
            try:
                fe = TdmsFile.read(io.BytesIO(data))
                with TdmsFile.open(io.BytesIO(data)) as fl:
                    for g_, c_ in ((x, y), ("c", "d")):
                        a, b = [int(q) for q in fe[g_][c_][:]], [int(q) for q in fl[g_][c_][:]]
                        tail = [int(q) for q in fl[g_][c_][-2:]]
                        if a != b or tail != a[-2:]:
                            violations.append(Violation("channel (%r, %r): lazy read %r / tail %r, eager read %r, in a file whose segments list %r and the groups %r, %r" % (
                                g_, c_, b, tail, a, (x, y), x, y), dict(kind="joined", file=data.hex(), names=[x, y])))
            except Exception as ex:  # noqa
                violations.append(Violation("reading a file with groups %r, %r and channel (%r, %r) raised %s: %s" % (x, y, x, y, type(ex).__name__, ex), dict(kind="joined", file=data.hex(), names=[x, y])))
            if len(violations) > 4:
                break
    # one GroupObject / ChannelObject reused for several segments, renamed in between (group and channel are public attributes)
    counts["reused_objects"] = 0
    for _ in range(ctx.n(20, 400)):
        pairs = []
        while len(pairs) < rnd.randint(2, 5):
            g, c = rnd.choice(names[:40] + [rand_name(rnd)]), rnd.choice(names[:40] + [rand_name(rnd)])
            try:
                (g + c).encode("utf-8")
            except UnicodeEncodeError:
                continue
            if (g, c) not in pairs:
                pairs.append((g, c))
        buf = io.BytesIO()
        try:
            go, co = GroupObject("x", {}), ChannelObject("x", "y", np.array([0], dtype=np.int32), {})
            with TdmsWriter(buf) as w:
                for i, (g, c) in enumerate(pairs):
                    go.group, co.group, co.channel = g, g, c
                    go.properties, co.properties = {"gi": i}, {"n": g + "|" + c}
                    co.data = np.array([i, i + 1], dtype=np.int32)
                    w.write_segment([go, co])
            buf.seek(0)
            f = TdmsFile.read(buf)
            got = sorted((ch.group_name, ch.name, ch.properties.get("n"), [int(v) for v in ch[:]]) for gr in f.groups() for ch in gr.channels())
        except Exception as ex:  # noqa
            violations.append(Violation("writing renamed objects %r raised %s: %s" % (pairs, type(ex).__name__, ex), dict(kind="reuse", objects=pairs)))
            continue
        counts["reused_objects"] += 1
        exp = sorted((g, c, g + "|" + c, [i, i + 1]) for i, (g, c) in enumerate(pairs))
        if got != exp:
            violations.append(Violation("one writer object renamed between segments: written %r, read %r" % (exp[:3], got[:3]), dict(kind="reuse", objects=pairs)))
        if len(violations) > 4:
            break
    ev = sum(counts.values())
    return dict(violations=violations[:5], disagreements=disagreements[:20],
                coverage=dict(evaluations=ev, distinct_nontrivial=len(seen_paths),
                              rule="all names up to length %d over {quote, slash, space, letter} as groups; pairs of names up to 3+3 (quick: 1500 sampled; thorough: all); "
                                   "scanner on every string up to length %d incl. malformed; random unicode names incl. astral code points, NUL, newlines; end-to-end "
                                   "TdmsWriter -> TdmsFile with 1-4 channels, and with one writer object renamed between segments; distinct_nontrivial = distinct paths produced" % (maxlen, scan_len),
                              samples=[dict(group="it's", channel="a/b", path="/'it''s'/'a/b'")], exhaustive=(ctx.tier == "thorough"), counts=counts))


def search(ctx, broken, disagreements):
    ctx.tier = "thorough"
    return run(ctx)["violations"][:1]


def replay(ctx, path):
    import json
    ctx.nptdms()
    from nptdms import common
    with open(path) as f:
        rp = json.load(f)["replay"]
    if rp.get("kind") == "roundtrip":
        comps = [x for x in (rp["group"], rp["channel"]) if x is not None]
        try:
            b = common.ObjectPath.from_string(str(common.ObjectPath(*comps)))
        except Exception as ex:  # noqa
            print("replay: raised %r" % ex)
            return 1
        ok = (b.group, b.channel) == (rp["group"], rp["channel"])
        print("replay: %s" % ("property holds" if ok else "round trip fails: %r" % ((b.group, b.channel),)))
        return 0 if ok else 1
    r = run(ctx)
    return 1 if r["violations"] else 0
