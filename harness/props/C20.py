"""C20 — npTDMS closes the files it opened, only those, and fails loudly afterwards.

Correspondence: the Lean ownership state machine (`res`, `wres`) predicts, after every API step, which library-opened
handles (data / index) are open; the harness measures /proc/self/fd and the `.closed` flag of its own streams around
every step of the real code.
Oracle (real code only): after TdmsFile.read / read_metadata return or raise, after close() and after the with-block,
no descriptor for our files is open; caller streams are never closed; reads that need the file raise after close;
close() may be repeated; same for TdmsWriter's with-block.
"""
import io
import os
import shutil
import struct
import sys
import tempfile

import numpy as np

sys.path.insert(0, os.path.dirname(os.path.dirname(os.path.abspath(__file__))))
import canon
import gen_files
from framework import Violation

LEVEL = "proof"
ANCHOR_FILES = ["nptdms/reader.py", "nptdms/tdms.py", "nptdms/writer.py"]
ASSUMPTIONS = ["TdmsFile.open() itself raising is not among the situations the property lists (handles are then released by reference counting; measured, reported as an observation)",
               "'close() may be called repeatedly' is read as TdmsFile.close() / leaving the with-block"]
TRUSTED_EXTRA = ["/proc/self/fd accounting in harness/props/C20.py"]


def open_fds(tmp):
    out = []
    for fd in os.listdir("/proc/self/fd"):
        try:
            t = os.readlink("/proc/self/fd/" + fd)
        except OSError:
            continue
        if t.startswith(tmp):
            out.append(os.path.basename(t))
    return sorted(out)


def roles(fds):
    return sorted("index" if f.endswith("_index") else "data" for f in fds)


def fault_variants(rnd, data, index):
    """(label, data bytes, index bytes or None)"""
    out = [("valid", data, index)]
    out.append(("bad tag", b"XXXX" + data[4:], index))
    if len(data) > 40:
        k = rnd.randint(29, min(len(data) - 1, 28 + 60))
        out.append(("metadata cut at %d" % k, data[:k], None))
        # unknown type code in the first raw data index (if any): overwrite the 4 bytes after the first index length 0x14
        pos = data.find(b"\x14\x00\x00\x00")
        if pos > 0:
            d2 = bytearray(data)
            d2[pos + 4:pos + 8] = struct.pack("<I", 0x7777)
            out.append(("unknown type code", bytes(d2), None))
    if index is not None and len(index) > 40:
        # mismatching index: another file's index (first lead-in offsets altered)
        ix = bytearray(index)
        ix[12:20] = struct.pack("<Q", struct.unpack("<Q", bytes(ix[12:20]))[0] + 16)
        out.append(("mismatching index", data, bytes(ix)))
        # stale indexes: of a longer recording (larger than the data file), of a shorter one, and a data file cut inside its
        # metadata beside the complete index
        out.append(("stale longer index", data, index + index))
        out.append(("stale shorter index", data + data, index))
        if len(data) > 60:
            out.append(("data cut beside a complete index", data[:rnd.randint(4, min(len(data) - 1, len(index)))], index))
        out.append(("garbage index", data, bytes(rnd.getrandbits(8) for _ in range(rnd.randint(1, 80)))))
    return out


def run(ctx):
    nptdms = ctx.nptdms()
    T, W = nptdms.TdmsFile, nptdms.TdmsWriter
    model = ctx.get_model() if ctx.build_ok else None
    rnd = ctx.rnd
    violations, disagreements, observations = [], [], []
    stats = dict(cases=0, steps=0, raised=0, writer=0, open_raised=0)
    distinct = set()
    tmp = tempfile.mkdtemp(prefix="nptdms_verif_c20_")
    own_streams = []

    def viol(what, **rp):
        violations.append(Violation(what, dict(kind="resource", **rp)))

    try:
        for i in range(ctx.n(120, 3000)):
            segs = gen_files.FileGen(rnd, big="little", allow_unknown=False).draw()
            e = model.ask(gen_files.to_line(segs)) if model is not None else None
            if not e or not e.get("ok") or not e.get("wf"):
                continue
            base, base_idx = bytes.fromhex(e["file"]), bytes.fromhex(e["index"])
            for label, data, index in fault_variants(rnd, base, base_idx):
                for via in ("path", "stream", "rawstream"):
                    for with_index in ((False, True) if index is not None else (False,)):
                        for api in ("read", "read_metadata", "open"):
                            # the caller's raw streams of the previous case are closed by the caller (us), never by the library
                            for own in own_streams:
                                if not own.closed:
                                    own.close()
                            own_streams = []
                            stats["cases"] += 1
                            distinct.add((label.split(" at ")[0], via, with_index, api))
                            p = os.path.join(tmp, "f%d.tdms" % (stats["cases"] % 3))
                            for q in (p, p + "_index"):
                                if os.path.exists(q):
                                    os.unlink(q)
                            open(p, "wb").write(data)
                            if with_index:
                                open(p + "_index", "wb").write(index)
                            stream = None
                            if via in ("stream", "rawstream"):
                                if with_index and via == "stream":
                                    continue      # an in-memory stream has no file name an index could sit beside
                                # rawstream + with_index: the caller's stream is a real file on disk and a .tdms_index file sits beside
                                # it; whatever the library does with that index, the caller's stream stays the caller's
                                # the caller's own stream: an in-memory one, or an unbuffered OS-level file object
                                stream = io.BytesIO(data) if via == "stream" else io.FileIO(p, "rb")
                                own_streams.append(stream)
                                src, msrc = stream, ("ds" if data[:4] == b"TDSm" else "bs")
                            else:
                                src, msrc = p, ("dp1" if with_index else "dp0")
                            before = open_fds(tmp)      # includes the caller's own raw stream, which must stay open
                            f, raised = None, None
                            try:
                                f = getattr(T, api)(src)
                            except Exception as ex:  # noqa
                                raised = ex
                                stats["raised"] += 1
                            after = open_fds(tmp)
                            stats["steps"] += 1
                            ctxinfo = dict(case=label, via=via, with_index=with_index, api=api, file=data.hex())
                            if stream is not None and stream.closed:
                                viol("TdmsFile.%s closed the caller's stream (%s)" % (api, label), **ctxinfo)
                            if api == "open" and via == "path":
                                # the constructor used directly, in the combinations the class methods never pass: data read eagerly AND the
                                # file kept open; closed explicitly and through the with-block
                                for how in ("close()", "with"):
                                    stats["steps"] += 1
                                    base_k = open_fds(tmp)      # (the file opened by this case's TdmsFile.open is still open here)
                                    try:
                                        if how == "with":
                                            with T(p, keep_open=True) as fk:
                                                pass
                                        else:
                                            fk = T(p, keep_open=True)
                                            fk.close()
                                    except Exception:
                                        fk = None
                                    left = open_fds(tmp)
                                    if left != base_k:
                                        viol("after TdmsFile(path, keep_open=True) and %s descriptors remain open: %s (%s)" % (how, left, label), **ctxinfo)
                                    if fk is not None:
                                        try:
                                            late = next(iter(fk.data_chunks()), None)
                                        except Exception:
                                            late = None
                                        if late is not None:
                                            viol("TdmsFile(path, keep_open=True): data_chunks() after %s delivered a chunk instead of raising" % how, **ctxinfo)
                                    del fk
                            if api == "read" and via == "path":
                                # the same call with arguments that make it fail AFTER the files were opened: a memmap_dir that does not
                                # exist, and one that is a file
                                for bad in (os.path.join(tmp, "no-such-dir", "x"), p):
                                    stats["steps"] += 1
                                    exc = None
                                    try:
                                        T.read(p, memmap_dir=bad)
                                    except Exception as ex:  # noqa
                                        exc = ex
                                    left = open_fds(tmp)
                                    if left != before:
                                        viol("after TdmsFile.read(path, memmap_dir=<%s>) %s descriptors remain open: %s (%s)" % (
                                            "missing directory" if bad != p else "a file", "raised %s" % type(exc).__name__ if exc else "returned", left, label), **ctxinfo)
                                    del exc
                            if api in ("read", "read_metadata"):
                                if after != before:
                                    viol("after TdmsFile.%s %s (%s, %s) descriptors remain open: %s" % (
                                        api, "raised %s" % type(raised).__name__ if raised else "returned", label, via, after), **ctxinfo)
                                if model is not None and via == "path":
                                    m = model.ask("res %s M C" % msrc)
                                    if m["steps"][-1]["libOpen"] != []:
                                        disagreements.append(dict(what="model predicts open handles after read"))
                            else:
                                if raised is not None:
                                    stats["open_raised"] += 1
                                    if after != before:
                                        import gc
                                        del raised
                                        gc.collect()
                                        if open_fds(tmp) != before:
                                            observations.append("TdmsFile.open raising (%s, %s) leaves %s open even after gc" % (label, via, open_fds(tmp)))
                                        else:
                                            observations.append("TdmsFile.open raising (%s): handle released only by garbage collection" % label)
                                    continue
                                # model prediction for the opened file
                                if model is not None and via == "path":
                                    m = model.ask("res %s M R C R C" % msrc)
                                    pred = m["steps"][0]["libOpen"]
                                    if sorted(pred) != roles([x for x in after if x not in before]):
                                        disagreements.append(dict(what="open(%s): model predicts %s open, measured %s" % (msrc, pred, after), **ctxinfo))
                                chans = [c for g in f.groups() for c in g.channels() if len(c) > 0]
                                first_vals = {}
                                for c in chans[:2]:
                                    try:
                                        first_vals[c.path] = c[0]
                                    except Exception:
                                        pass
                                f.close()
                                stats["steps"] += 1
                                if open_fds(tmp) != before:
                                    viol("after close() descriptors remain open: %s (%s, %s)" % (open_fds(tmp), label, via), **ctxinfo)
                                if stream is not None and stream.closed:
                                    viol("close() closed the caller's stream", **ctxinfo)
                                for c in chans[:2]:
                                    for nm, fn in (("read_data()", lambda: c.read_data()), ("[:]", lambda: c[:]), ("data_chunks()", lambda: list(c.data_chunks())),
                                                   ("[len-1]", lambda: c[len(c) - 1] if c._cached_chunk_bounds is None or not (c._cached_chunk_bounds[0] <= len(c) - 1 < c._cached_chunk_bounds[1]) else (_ for _ in ()).throw(RuntimeError("cached")))):
                                        stats["steps"] += 1
                                        try:
                                            fn()
                                            viol("%s on %r after close() returned data instead of raising" % (nm, c.path), **ctxinfo)
                                        except Exception:
                                            pass
                                try:
                                    f.close()
                                    f.close()
                                except Exception as ex:  # noqa
                                    viol("repeated close() raised %r" % ex, **ctxinfo)
                                # with-block
                                stream2 = (io.BytesIO(data) if via == "stream" else io.FileIO(p, "rb")) if via != "path" else None
                                if stream2 is not None:
                                    own_streams.append(stream2)
                                before2 = open_fds(tmp)      # with the caller's second stream (if any) already open
                                try:
                                    suspended = []
                                    with T.open(stream2 if stream2 is not None else p) as g:
                                        inside = open_fds(tmp)
                                        # chunk iterators started inside the block and left unexhausted, still referenced after it
                                        for mk in ([g.data_chunks] + [c2.data_chunks for g2 in g.groups() for c2 in g2.channels()][:1]):
                                            it = mk()
                                            try:
                                                next(it)
                                                suspended.append(it)
                                            except Exception:
                                                pass
                                    stats["steps"] += 1
                                    if open_fds(tmp) != before2:
                                        viol("after the with-block of TdmsFile.open descriptors remain open%s: %s" % (
                                            " (%d chunk iterators were started inside the block and are still referenced)" % len(suspended) if suspended else "", open_fds(tmp)), **ctxinfo)
                                    for it in suspended:
                                        try:
                                            nxt = next(it, None)
                                        except Exception:
                                            continue
                                        # (an iterator over the CALLER's stream may go on delivering correct data: that stream is still open)
                                        if nxt is not None and stream2 is None:
                                            viol("a chunk iterator started inside the with-block delivered another chunk after the block had closed the file", **ctxinfo)
                                    del suspended
                                    if stream2 is not None and stream2.closed:
                                        viol("the with-block closed the caller's stream", **ctxinfo)
                                except Exception:
                                    pass
                            if len(violations) >= 5:
                                break
                        if len(violations) >= 5:
                            break
                    if len(violations) >= 5:
                        break
                if len(violations) >= 5:
                    break
            # the caller hands over the INDEX file as a stream (in-memory and raw OS-level): never closed by the library, metadata
            # readable, data reads refused
            for kind in ("stream", "rawstream"):
                for api in ("read_metadata", "open", "read"):
                    pidx = os.path.join(tmp, "s.tdms_index")
                    open(pidx, "wb").write(base_idx)
                    own = io.BytesIO(base_idx) if kind == "stream" else io.FileIO(pidx, "rb")
                    before = open_fds(tmp)
                    stats["cases"] += 1
                    distinct.add(("index stream", kind, api))
                    try:
                        g = getattr(T, api)(own)
                        if api == "open":
                            g.close()
                    except Exception:  # noqa: TdmsFile.read on an index-only source may refuse
                        stats["raised"] += 1
                    stats["steps"] += 1
                    if own.closed:
                        viol("TdmsFile.%s closed the caller's stream holding a .tdms_index file (%s)" % (api, kind), case="index stream", via=kind, api=api, file=base_idx.hex())
                    elif open_fds(tmp) != before:
                        viol("TdmsFile.%s on a caller's index stream changed the open descriptors: %s" % (api, open_fds(tmp)), case="index stream", via=kind, api=api, file=base_idx.hex())
                    if not own.closed:
                        own.close()
            # index-only
            pio = os.path.join(tmp, "only.tdms_index")
            open(pio, "wb").write(base_idx)
            before = open_fds(tmp)
            try:
                with T.open(pio) as g:
                    for c in [c for gr in g.groups() for c in gr.channels() if len(c) > 0][:1]:
                        try:
                            c[:]
                            viol("index-only file returned data", file=base.hex())
                        except Exception:
                            pass
            except Exception:
                pass
            if open_fds(tmp) != before:
                viol("index-only open leaves descriptors: %s" % open_fds(tmp), file=base.hex())
            if len(violations) >= 5:
                break
            if ctx.tier == "quick" and ctx.elapsed() > 40:
                break
        # large chunks from a file opened by path: whatever fast path the reader takes for big reads, no descriptor may outlive close()
        from nptdms import ChannelObject
        big = os.path.join(tmp, "big.tdms")
        with W(big) as w:
            w.write_segment([ChannelObject("g", "c", np.arange(20000, dtype=np.float64)), ChannelObject("g", "d", np.arange(20000, dtype=np.int32))])
        for step in ("index", "chunks", "slice", "read"):
            before = open_fds(tmp)
            stats["cases"] += 1
            distinct.add(("large chunk", step))
            kept = []
            try:
                if step == "read":
                    kept.append(T.read(big)["g"]["c"][:])
                else:
                    with T.open(big) as g:
                        if step == "index":
                            kept.append(g["g"]["c"][12345])
                        elif step == "chunks":
                            kept += [c[:] for c in g["g"]["c"].data_chunks()]
                        else:
                            kept.append(g["g"]["d"][100:15000])
                        g.close()
            except Exception as ex:  # noqa
                viol("reading a file with a 160 kB chunk (%s) raised %r" % (step, ex), case="large chunk", via="path", api=step)
            stats["steps"] += 1
            if open_fds(tmp) != before:
                viol("after TdmsFile.%s of a file with large chunks (%s) descriptors remain open while the returned data is still referenced: %s" % (
                    "read" if step == "read" else "open ... close", step, open_fds(tmp)), case="large chunk", via="path", api=step)
            del kept
        # writer
        for target in ("s0", "s1", "p0", "p1"):
            for boom in (False, True):
                stats["writer"] += 1
                distinct.add(("writer", target, boom))
                d, ix = io.BytesIO(), io.BytesIO()
                p = os.path.join(tmp, "w.tdms")
                before = open_fds(tmp)
                inside = None
                try:
                    if target[0] == "s":
                        w = W(d, index_file=ix if target == "s1" else False)
                    else:
                        w = W(p, index_file=(target == "p1"))
                    with w:
                        w.write_segment([ChannelObject("g", "c", np.arange(3))])
                        inside = open_fds(tmp)
                        if boom:
                            raise KeyError("boom")
                except KeyError:
                    pass
                after = open_fds(tmp)
                if after != before:
                    viol("TdmsWriter with-block (%s, raised=%s) leaves descriptors open: %s" % (target, boom, after), target=target)
                if d.closed or ix.closed:
                    viol("TdmsWriter closed a caller stream", target=target)
                if model is not None:
                    m = model.ask("wres " + target)
                    if m["openAfter"] != 0 or m["openInside"] != len([x for x in (inside or []) if x not in before]):
                        disagreements.append(dict(what="writer %s: model predicts %d open inside, measured %s" % (target, m["openInside"], inside)))
        # writer sessions on a path that EXISTS: append with the same / another version, append to a file that is not TDMS, create
        # with mode 'x' where the file exists (open() itself fails), with and without an index beside it; whatever happens - the
        # with-statement may raise on entry - no descriptor remains while the writer object is still referenced
        for with_index in (False, True):
            for scenario in ("same version", "other version", "not a TDMS file", "mode x on an existing file", "index file is a directory"):
                stats["writer"] += 1
                distinct.add(("writer-existing", scenario, with_index))
                p = os.path.join(tmp, "wx%d.tdms" % stats["writer"])
                with W(p, version=4712, index_file=with_index) as w0:
                    w0.write_segment([ChannelObject("g", "c", np.arange(3))])
                if scenario == "not a TDMS file":
                    open(p, "wb").write(b"this is not a TDMS file at all")
                if scenario == "index file is a directory" and not os.path.exists(p + "_index"):
                    os.mkdir(p + "_index")
                before = open_fds(tmp)
                w, raised = None, None
                try:
                    w = W(p, mode="x" if scenario.startswith("mode x") else "a", version=4713 if scenario == "other version" else 4712,
                          index_file=with_index or scenario.startswith("index file is"))
                    with w:
                        w.write_segment([ChannelObject("g", "c", np.arange(2))])
                except Exception as ex:  # noqa
                    raised = type(ex).__name__
                after = open_fds(tmp)
                if after != before:
                    viol("TdmsWriter on an existing path (%s, index_file=%s; %s) leaves descriptors open while the writer is still referenced: %s" % (
                        scenario, with_index, "raised %s" % raised if raised else "no exception", after), target=scenario)
                del w
    finally:
        shutil.rmtree(tmp, ignore_errors=True)
    obs = sorted(set(observations))
    return dict(violations=violations[:5], disagreements=disagreements[:20], notes=["observation: " + o for o in obs[:4]],
                coverage=dict(evaluations=stats["steps"] + stats["writer"], distinct_nontrivial=len(distinct),
                              rule="fault cases per generated file: valid, bad tag, metadata cut at a random offset, unknown type code, mismatching / stale longer / stale shorter / garbage index, data cut beside a complete index, index only, index handed over as a caller stream; "
                                   "x {path, in-memory stream, raw OS-level stream of a file (also with an index file beside it)} x {index beside the file} x {read, read_metadata, open}; for open: reads, close, reads after close (must raise), "
                                   "repeated close, with-block; TdmsWriter x {stream, stream+index stream, path, path+index} x {normal, exception inside the block}; "
                                   "descriptors measured through /proc/self/fd without gc.collect(); distinct_nontrivial = distinct (case, source, index, api) combinations",
                              samples=[dict(case="bad tag", via="path", api="read")], counts=stats))


def search(ctx, broken, disagreements):
    ctx.budget_factor = max(ctx.budget_factor, 3)
    return run(ctx)["violations"][:1]


def replay(ctx, path):
    r = run(ctx)
    print("replay: re-ran the descriptor accounting: %s" % ([v.what for v in r["violations"]] or "property holds"))
    return 1 if r["violations"] else 0
