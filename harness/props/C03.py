"""C03 — Every way of obtaining a channel's data gives the same data.

Correspondence: model eager data / model chunk streams vs the real ones.
Oracle (real code only): pairwise agreement of all access paths x {memmap off/on} x {raw_timestamps} x {path, stream}.
"""
import os
import shutil
import struct
import sys
import tempfile

import numpy as np

sys.path.insert(0, os.path.dirname(os.path.dirname(os.path.abspath(__file__))))
import canon
import gen_files
import corr_lazy as cl
from framework import Violation
from leanio import hx
from props.lazy_common import FileStream, ANCHOR_FILES, RULE_FILES  # noqa

LEVEL = "proof"
ASSUMPTIONS = ["memmap_dir only changes the allocator (`_new_numpy_array`): modelled as the identity, checked by correspondence only",
               "raw_timestamps=False is compared through the integer conversion proved in C12 (floor(min(frac+2^11, 2^64-1)*10^6 / 2^64) microseconds)"]
TRUSTED_EXTRA = ["harness/corr_lazy.py"]

EPOCH_US = -2082844800 * 10 ** 6


def ts_to_us_hex(raw_hex):
    fr, se = struct.unpack("<Qq", bytes.fromhex(raw_hex))
    us = se * 10 ** 6 + ((min(fr + 2 ** 11, 2 ** 64 - 1) * 10 ** 6) >> 64) + EPOCH_US
    if not -2 ** 63 <= us < 2 ** 63:
        return None
    return struct.pack("<q", us).hex()


def vb(x):
    if isinstance(x, dict):
        return ("scalers", canon.norm([[int(k), canon.value_bytes(v)] for k, v in x.items()]))
    return ("data", canon.value_bytes(x))


def elem_list(items):
    return ("data", [canon.scalar_hex(v) for v in items])


def access_paths(f, ch, lazy, nptdms):
    """{name: canonical result} of every access path of one channel object"""
    res = {}
    n = len(ch)

    def put(name, fn):
        r = cl.call(fn)
        res[name] = r[1] if r[0] == "ok" else ("raised", r[2])
    is_daq = ch.data_type is not None and ch.data_type.enum_value == 0xFFFFFFFF
    if not is_daq:
        put("[:]", lambda: vb(ch[:]))
        put("[...]", lambda: vb(ch[...]))
        put("read_data()", lambda: vb(ch.read_data()))
        put("iter", lambda: elem_list(list(ch)))
        put("[i]", lambda: elem_list([ch[i] for i in range(n)]))
        put("[i] descending", lambda: elem_list([ch[i] for i in range(n - 1, -1, -1)][::-1]))
        put("[i] zig-zag", lambda: elem_list([ch[i] for i in [j // 2 if j % 2 == 0 else n - 1 - j // 2 for j in range(n)]][:0] + [ch[i] for i in range(n)]))
        if not lazy:
            put(".data", lambda: vb(ch.data))
    put("read_data(scaled=False)", lambda: vb(ch.read_data(scaled=False)))
    if not lazy:
        if is_daq:
            put("raw_scaler_data", lambda: vb(ch.raw_scaler_data))
        else:
            put("raw_data", lambda: vb(ch.raw_data))
    else:
        def chunks():
            parts, off = [], 0
            # the whole stream is drawn before any chunk is looked at: a chunk must stay what it was when it was delivered
            for c in list(ch.data_chunks()):
                if c.offset != off:
                    raise AssertionError("channel chunk offset %d, %d values delivered before" % (c.offset, off))
                off += len(c)
                if not is_daq:
                    parts += [canon.scalar_hex(v) for v in c[:]]
                else:
                    parts.append(len(c))
            return ("data", parts) if not is_daq else ("chunklens", sum(parts))
        put("concat(channel.data_chunks())", chunks)
    return res


def file_chunks(f):
    """{path: values} concatenated from TdmsFile.data_chunks(), checking offsets = running count"""
    acc, count = {}, {}
    for chunk in list(f.data_chunks()):
        for g in chunk.groups():
            for c in g.channels():
                p = c._channel.path
                if c.offset != count.get(p, 0):
                    raise AssertionError("file chunk offset of %s is %d, %d values delivered before" % (p, c.offset, count.get(p, 0)))
                count[p] = count.get(p, 0) + len(c)
                ch = c._channel
                if ch.data_type is not None and ch.data_type.enum_value == 0xFFFFFFFF:
                    continue
                acc.setdefault(p, [])
                acc[p] += [canon.scalar_hex(v) for v in c[:]]
    return acc, count


def scaled_check(ctx, nptdms, data, stats, graph=None):
    """one file with a channel /'g'/'c' carrying NI_Scale properties: all access paths against the first eager [:]"""
    import io
    rnd = ctx.rnd
    info = dict(kind="scaled", file=data.hex(), graph=str(graph)[:300])
    vbz = lambda x: canon.value_bytes(np.asarray(x))  # noqa
    try:
        che = nptdms.TdmsFile.read(io.BytesIO(data), memmap_dir=None)["g"]["c"]
        raw0 = vbz(che.raw_data)
        fa = np.array(che[:])
        first = vbz(fa)
    except Exception:
        return []        # a sensor formula that raises on these numbers: C13/C17's matter
    n = len(che)
    stats["scaled_files"] = stats.get("scaled_files", 0) + 1
    a, b = sorted(rnd.sample(range(n + 1), 2)) if n >= 1 else (0, 0)
    fl = nptdms.TdmsFile.open(io.BytesIO(data))
    chl = fl["g"]["c"]

    def chunked():
        out = []
        for c in list(chl.data_chunks()):
            head = c[0] if len(c) else None     # noqa: a chunk indexed before it is sliced
            out.append(np.asarray(c[:]))
        return np.concatenate(out) if out else np.zeros(0)
    win = vbz(fa[a:b])
    seq = [("eager [...]", lambda: che[...], first), ("eager read_data()", lambda: che.read_data(), first), ("eager .data", lambda: che.data, first),
           ("eager iteration", lambda: np.array(list(che)), first), ("eager [i]", lambda: np.array([che[k] for k in range(n)]), first),
           ("eager read_data(%d,%d)" % (a, b - a), lambda: che.read_data(a, b - a), win), ("eager [:] again", lambda: che[:], first),
           ("eager raw_data", lambda: che.raw_data, raw0), ("eager read_data(scaled=False)", lambda: che.read_data(scaled=False), raw0),
           ("lazy [:]", lambda: chl[:], first), ("lazy chunks", chunked, first), ("lazy [i]", lambda: np.array([chl[k] for k in range(n)]), first),
           ("lazy read_data(%d,%d)" % (a, b - a), lambda: chl.read_data(a, b - a), win), ("lazy [:] again", lambda: chl[:], first),
           ("lazy read_data(scaled=False)", lambda: chl.read_data(scaled=False), raw0)]
    vio = []
    for name, fn, want in seq:
        stats["paths"] += 1
        r = cl.call(fn)
        if r[0] != "ok":
            vio.append(Violation("scaled channel: %s raised %s although [:] returned" % (name, r[2]), dict(info, access=name)))
            break
        got = np.asarray(r[1])
        if want is not raw0 and got.dtype != fa.dtype and got.size == 0:
            got = got.astype(fa.dtype)
        if vbz(got) != want:
            vio.append(Violation("scaled channel: %s gives %s, the first eager [:] gave %s" % (name, [repr(x) for x in got.tolist()[:6]], [repr(x) for x in fa.tolist()[:6]]),
                                 dict(info, access=name)))
            break
    fl.close()
    return vio


def scaled_files(ctx, model, count):
    """one-channel files /'g'/'c' WITH NI_Scale properties (structural and sensor scales, every numeric raw type, every third float64)"""
    import gen_scaling as gs
    rnd = ctx.rnd
    f8 = [t for t in gs.NUMERIC if gs.NUMERIC[t][1] == "f8"][0]
    for i in range(count):
        props, graph = gs.draw_graph(rnd, types=(gs.STRUCTURAL + list(gs.SENSORS)) if i % 2 else list(gs.SENSORS), with_noop=rnd.random() < 0.2)
        ty = rnd.choice(list(gs.NUMERIC)) if i % 3 else f8
        n = rnd.choice([1, 2, 3, 6])
        vals, packed = gs.raw_values(rnd, ty, n)
        cut = rnd.randint(0, n)
        segs = gs.one_channel_file(ty, [packed[:cut], packed[cut:]] if rnd.random() < 0.5 else [packed], props, [], [], big=rnd.random() < 0.3)
        e = model.ask(gen_files.to_line(segs))
        if e.get("ok") and e.get("wf"):
            yield bytes.fromhex(e["file"]), graph


def scaled_pass(ctx, model, nptdms, stats, count):
    """Channels WITH NI_Scale properties: on one eagerly read object every scaled access path, one after the other, gives the bytes
    of the first `[:]`; the unscaled paths give the raw bytes; the lazily opened file gives the same through [:], windows, chunk
    streams (a chunk indexed twice) and integer indexing."""
    vio = []
    for data, graph in scaled_files(ctx, model, count):
        vio += scaled_check(ctx, nptdms, data, stats, graph)
        if len(vio) >= 3:
            break
    return vio


def check_file(ctx, model, nptdms, data, tmpdir, stats):
    dis, vio = [], []
    ref_r, _ = canon.real_read(data, nptdms)
    if not ref_r.get("ok"):
        return dis, vio
    ref = {c["path"]: c for c in ref_r["channels"]}
    path = os.path.join(tmpdir, "f.tdms")
    with open(path, "wb") as fh:
        fh.write(data)
    configs = []
    for raw in (True, False):
        for mm in (None, tmpdir):
            for src in ("stream", "path"):
                configs.append((raw, mm, src))
    if ctx.tier == "quick":
        configs = [configs[0]] + ctx.rnd.sample(configs[1:], 3)
    for raw, mm, src in configs:
        for lazy in (False, True):
            label = "%s(%s, raw_timestamps=%s, memmap=%s)" % ("open" if lazy else "read", src, raw, bool(mm))
            source = path if src == "path" else cl.RecordingStream(data)
            try:
                f = (nptdms.TdmsFile.open if lazy else nptdms.TdmsFile.read)(source, raw_timestamps=raw, memmap_dir=mm)
            except Exception as ex:
                vio.append(Violation("%s raised %r on a file that TdmsFile.read(stream) reads" % (label, ex), dict(kind="file", file=data.hex(), config=label)))
                continue
            try:
                for ch in cl.channels_of(f):
                    p = ch.path.encode("utf-8").hex()
                    rc = ref.get(p)
                    if rc is None:
                        exp_raw = ("data", [])
                    elif rc["data"] is None and rc["scalers"]:
                        exp_raw = ("scalers", canon.norm(rc["scalers"]))
                    else:
                        exp_raw = ("data", rc["data"] or [])
                    exp = exp_raw
                    is_ts = ch.data_type is not None and ch.data_type.enum_value == 0x44
                    if is_ts and not raw:
                        conv = [ts_to_us_hex(h) for h in exp_raw[1]]
                        if any(c is None for c in conv):
                            continue
                        exp = ("data", conv)
                    for name, got in access_paths(f, ch, lazy, nptdms).items():
                        stats["paths"] += 1
                        want = exp
                        if got[0] == "chunklens":
                            want = ("chunklens", len(exp_raw[1][0][1]) if exp_raw[0] == "scalers" and exp_raw[1] else 0)
                        if got != want:
                            vio.append(Violation("%s: %s of %r differs from TdmsFile.read(...)[:]: got %s expected %s" % (label, name, ch.path, str(got)[:120], str(want)[:120]),
                                                 dict(kind="file", file=data.hex(), config=label, access=name, path=p)))
                if lazy:
                    r = cl.call(lambda: file_chunks(f))
                    stats["paths"] += 1
                    if r[0] != "ok":
                        vio.append(Violation("%s: TdmsFile.data_chunks(): %s" % (label, r[2]), dict(kind="file", file=data.hex(), config=label, access="file.data_chunks")))
                    else:
                        acc, count = r[1]
                        for ch in cl.channels_of(f):
                            p = ch.path.encode("utf-8").hex()
                            if ch.data_type is None or ch.data_type.enum_value == 0xFFFFFFFF:
                                continue
                            exp = (ref.get(p) or {}).get("data") or []
                            if ch.data_type.enum_value == 0x44 and not raw:
                                exp = [ts_to_us_hex(h) for h in exp]
                                if any(c is None for c in exp):
                                    continue
                            if acc.get(ch.path, []) != exp:
                                vio.append(Violation("%s: concatenation of TdmsFile.data_chunks() for %r differs from the eager data" % (label, ch.path),
                                                     dict(kind="file", file=data.hex(), config=label, access="file.data_chunks", path=p)))
            finally:
                try:
                    f.close()
                except Exception:
                    pass
            if len(vio) > 3:
                return dis, vio
    # model chunk streams vs real chunk streams (raw timestamps, stream)
    if model is not None:
        f, _ = cl.open_real(data, nptdms)
        chans = [c.path.encode("utf-8") for c in cl.channels_of(f)]
        ops = []
        for k, p in enumerate(chans):
            ops.append(("C", p))
        ops.append(("F",))
        nit = len(chans) + 1
        ops += [("X", k) for k in range(nit) for _ in range(14)]
        r = model.ask("ops %s %s" % (hx(data), " ".join(cl.op_token(o) for o in ops)))
        its = []
        known = {p.hex() for p in chans}
        if r.get("ok"):
            for k, op in enumerate(ops):
                ro = cl.real_op(f, its, op)
                c = cl.compare_out(r["results"][k]["out"], ro, known, None)
                stats["model_ops"] += 1
                if c:
                    dis.append(dict(what="chunk stream op %d %s: %s" % (k, cl.op_token(op), c), file=data.hex()))
                    break
    return dis, vio


def run(ctx):
    nptdms = ctx.nptdms()
    model = ctx.get_model() if ctx.build_ok else None
    if model is None:
        return dict(coverage=dict(evaluations=0, distinct_nontrivial=0, rule="model unavailable", samples=[]))
    stats = dict(paths=0, model_ops=0)
    fs = FileStream(ctx, model, ctx.n(250, 8000), max_n=4)
    disagreements, violations, samples = [], [], []
    nontrivial = 0
    violations += scaled_pass(ctx, model, nptdms, stats, ctx.n(120, 1500))
    tmpdir = tempfile.mkdtemp(prefix="nptdms_verif_c03_")
    try:
        for i, segs, e, data, feats, new in fs:
            d, v = check_file(ctx, model, nptdms, data, tmpdir, stats)
            disagreements += d
            violations += v
            if new and any(o["values"] for o in e["content"]) and ({"multi-segment", "multi-chunk", "interleaved"} & feats):
                nontrivial += 1
            if len(samples) < 2 and len(data) < 300:
                samples.append(dict(encoding=gen_files.to_line(segs)))
            if len(violations) >= 5 or len(disagreements) >= ctx.dis_limit:
                break
            if ctx.tier == "quick" and ctx.elapsed() > 45:
                ctx.notes.append("stopped after %d files (time budget)" % fs.drawn)
                break
    finally:
        shutil.rmtree(tmpdir, ignore_errors=True)
    return dict(violations=violations, disagreements=disagreements,
                coverage=dict(evaluations=stats["paths"] + stats["model_ops"], distinct_nontrivial=nontrivial,
                              rule=RULE_FILES + "; per file x {read, open} x {raw_timestamps} x {memmap_dir} x {stream, path} (quick: 4 of the 8 configurations): "
                                   "[:], [...], read_data(), .data, iteration, integer indexing, read_data(scaled=False), raw_data, concatenated channel and file "
                                   "chunk streams with offset = running count; first a pass over one-channel files WITH NI_Scale properties (structural and sensor scales, all numeric raw types): every scaled access path of one eager object in sequence, and of the lazily opened file, byte-equal to the first eager [:], unscaled paths byte-equal to the raw data; non-trivial = distinct files with data that are multi-segment, multi-chunk or interleaved",
                              samples=samples, files=fs.drawn, counts=stats, feature_counts=dict(sorted(fs.feats.items()))))


def search(ctx, broken, disagreements):
    nptdms = ctx.nptdms()
    if not ctx.build_ok:
        return []
    model = ctx.get_model()
    stats = dict(paths=0, model_ops=0)
    v = scaled_pass(ctx, model, nptdms, stats, ctx.n(200, 1500))
    if v:
        return v[:1]
    tmpdir = tempfile.mkdtemp(prefix="nptdms_verif_c03_")
    try:
        for i, segs, e, data, feats, new in FileStream(ctx, model, ctx.n(500, 3000), max_n=4):
            _, v = check_file(ctx, None, nptdms, data, tmpdir, stats)
            if v:
                return v[:1]
    finally:
        shutil.rmtree(tmpdir, ignore_errors=True)
    return []


def replay(ctx, path):
    import json
    with open(path) as f:
        rp = json.load(f)["replay"]
    tmpdir = tempfile.mkdtemp(prefix="nptdms_verif_c03_")
    ctx.tier = "thorough"
    try:
        if rp.get("kind") == "scaled":
            v = []
            for _ in range(20):
                v = v or scaled_check(ctx, ctx.nptdms(), bytes.fromhex(rp["file"]), dict(paths=0, model_ops=0))
        else:
            _, v = check_file(ctx, None, ctx.nptdms(), bytes.fromhex(rp["file"]), tmpdir, dict(paths=0, model_ops=0))
    finally:
        shutil.rmtree(tmpdir, ignore_errors=True)
    print("replay: %s" % ([x.what for x in v[:3]] or "property holds on this file"))
    return 1 if v else 0


def corpus(ctx, entry):
    tmpdir = tempfile.mkdtemp(prefix="nptdms_verif_c03_")
    old = ctx.tier
    ctx.tier = "thorough"
    try:
        if entry["replay"].get("kind") == "scaled":
            return [], scaled_check(ctx, ctx.nptdms(), bytes.fromhex(entry["replay"]["file"]), dict(paths=0, model_ops=0))
        return check_file(ctx, ctx.get_model() if ctx.build_ok else None, ctx.nptdms(), bytes.fromhex(entry["replay"]["file"]), tmpdir, dict(paths=0, model_ops=0))
    finally:
        ctx.tier = old
        shutil.rmtree(tmpdir, ignore_errors=True)
