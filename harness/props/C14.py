"""C14 — channel.dtype and len(channel) describe what reads return.

Correspondence: the Lean model's `declaredKind` (= MultiScaling._compute_scale_dtype) and `actualKind` (dtype of the data
the scale graph really produces, with NumPy's promotion table re-extracted from the installed NumPy on every run) vs the
real `channel.dtype` and the dtype of the arrays really returned.
Oracle (real code only): every successful read — full, window, slice, chunk, iteration, empty — returns an array whose
dtype equals channel.dtype (modulo byte order), empty results included, and a full read has len(channel) elements;
for every raw type x no scaling / every scale type, eager and lazy, zero-length channels included.
"""
import io
import os
import struct
import sys

import numpy as np

sys.path.insert(0, os.path.dirname(os.path.dirname(os.path.abspath(__file__))))
import gen_files
import gen_scaling as gs
from framework import Violation
from gen_files import path_of, rand_value

LEVEL = "proof"
ANCHOR_FILES = ["nptdms/tdms.py", "nptdms/scaling.py", "nptdms/channel_data.py"]
ASSUMPTIONS = ["dtype equality is NumPy's `==` for full, window, slice, index and .data reads; for data_chunks() reads it is taken modulo byte order (on the pinned tree chunk reads of big-endian segments return '>i4' views of the same value type: same values, same value type — recorded as an observation, not a finding)",
               "timestamp channels read with raw_timestamps=True are exempt from datetime64[us] and only required to be self-consistent",
               "bool raw data is not numeric: Add/Subtract on it are outside the property"]
TRUSTED_EXTRA = ["harness/props/C14.py"]

ALL_TYPES = [1, 2, 3, 4, 5, 6, 7, 8, 9, 10, 0x19, 0x1A, 0x20, 0x21, 0x44, 0x08000c, 0x10000d]


def same(a, b, label=""):
    """dtype equality as NumPy defines it; for chunk reads (the only reads that return byte-swapped views of big-endian segments on
    the pinned tree) equality modulo byte order"""
    a, b = np.dtype(a), np.dtype(b)
    if "data_chunks" in label:
        return a == b or a.newbyteorder("=") == b.newbyteorder("=")
    return a == b


def kind_of(dt):
    dt = np.dtype(dt)
    return dt.kind + str(dt.itemsize)


def reads_of(ch, lazy, n):
    """(label, array) for every kind of successful read"""
    out = []

    def put(label, fn):
        try:
            out.append((label, fn()))
        except Exception as ex:  # noqa
            out.append((label, ex))
    put("[:]", lambda: ch[:])
    put("read_data()", lambda: ch.read_data())
    put("read_data(1, 2)", lambda: ch.read_data(1, 2))
    put("read_data(0, 0)", lambda: ch.read_data(0, 0))
    put("read_data(n+3, 2)", lambda: ch.read_data(n + 3, 2))
    put("[1:3]", lambda: ch[1:3])
    put("[::-2]", lambda: ch[::-2])
    put("[::16]", lambda: ch[::16])
    put("[::-20]", lambda: ch[::-20])
    put("[3:n:33]", lambda: ch[3:n:33])
    put("[5:2]", lambda: ch[5:2])
    put("[-1:]", lambda: ch[-1:])
    if n > 0:
        put("array([ch[0]])", lambda: np.array([ch[0]]) if not isinstance(ch[0], str) else np.array([ch[0]], dtype=object))
    if not lazy:
        put(".data", lambda: ch.data)
    else:
        def chunks():
            return [c[:] for c in list(ch.data_chunks())]
        try:
            for k, arr in enumerate(chunks()):
                out.append(("data_chunks()[%d][:]" % k, arr))
        except Exception as ex:  # noqa
            out.append(("data_chunks()", ex))
    return out


def empty_chunk_pass(ctx, model, nptdms, stats):
    """Chunks that exist but hold no value of a channel (index declares 0 values beside a sibling with data; truncated final chunk):
    what the chunk iterators hand out for that channel must still be an array of channel.dtype. Every readable type."""
    import gen_files as gf
    rnd = ctx.rnd
    out = []
    stats["empty_chunk_files"] = 0
    for ty in ALL_TYPES:
        sib = dict(path=gf.path_of("g", "sib"), idx=("F", 3, 2, 0), props=[])
        z = dict(path=gf.path_of("g", "z"), idx=("F", ty, 0, 0), props=[])
        z2 = dict(path=gf.path_of("g", "z"), idx=("F", ty, 2, 8 + 3 if ty == 0x20 else 0), props=[])
        v2 = [b"ab", b"c"] if ty == 0x20 else [rand_value(rnd, ty) for _ in range(2)]
        base = dict(interleaved=False, big=rnd.random() < 0.3, rawFlag=True, daqmxFlag=False, lengthUnknown=False, version=4713, padding=0)
        order = [z, sib] if rnd.random() < 0.5 else [sib, z]
        i32 = lambda: [struct.pack("<i", rnd.randint(-9, 9)) for _ in range(2)]
        seg1 = dict(base, hasMeta=True, newList=True, objs=order, chunks=[[[] if o is z else i32() for o in order] for _ in range(2)])
        order2 = [z2 if o is z else o for o in order]
        seg2 = dict(base, hasMeta=True, newList=True, objs=order2, chunks=[[v2 if o is z2 else i32() for o in order2]])
        e = model.ask(gf.to_line([seg1, seg2]))
        if not e.get("ok") or not e.get("wf"):
            ctx.notes.append("empty-chunk template for type %#x is not a well-formed encoding" % ty)
            continue
        data = bytes.fromhex(e["file"])
        stats["empty_chunk_files"] += 1
        for cut in (None, len(data) - 3):
            d = data if cut is None else data[:cut]
            with nptdms.TdmsFile.open(io.BytesIO(d)) as f:
                ch = f["g"]["z"]
                declared = ch.dtype
                got = []
                try:
                    for k, chunk in enumerate(list(f.data_chunks())):
                        got.append(("TdmsFile.data_chunks()[%d]['g']['z'][:]" % k, chunk["g"]["z"][:]))
                    for k, c in enumerate(list(ch.data_chunks())):
                        got.append(("channel.data_chunks()[%d][:]" % k, c[:]))
                except Exception as ex:  # noqa
                    out.append(Violation("chunk iteration over a file with an empty chunk raised %s: %s (type %#x)" % (type(ex).__name__, str(ex)[:100], ty), dict(file=d.hex(), raw_type=ty)))
                    continue
                for label, arr in got:
                    stats["reads"] += 1
                    if not isinstance(arr, np.ndarray):
                        out.append(Violation("%s returned a %s, not an array (type %#x, %d values)" % (label, type(arr).__name__, ty, len(arr)), dict(file=d.hex(), raw_type=ty, read=label)))
                    elif not same(arr.dtype, declared, label):
                        out.append(Violation("%s has dtype %s but channel.dtype is %s (type %#x, %d values)" % (label, arr.dtype, declared, ty, len(arr)), dict(file=d.hex(), raw_type=ty, read=label)))
        if len(out) >= 3:
            break
    return out


def late_channel_pass(ctx, model, nptdms, stats):
    """A channel of every readable type that first appears in a LATER segment (the first segment holds another channel only), and
    one that disappears again: what the file-level and channel-level chunk iterators hand out for it must be arrays of channel.dtype."""
    import gen_files as gf
    rnd = ctx.rnd
    out = []
    stats["late_channel_files"] = 0
    base = dict(interleaved=False, big=False, rawFlag=True, daqmxFlag=False, lengthUnknown=False, version=4713, padding=0, hasMeta=True, newList=True)
    i32 = lambda: [struct.pack("<i", rnd.randint(-9, 9)) for _ in range(2)]  # noqa
    for ty in ALL_TYPES:
        first = dict(path=gf.path_of("g", "first"), idx=("F", 3, 2, 0), props=[])
        late = dict(path=gf.path_of("g", "late"), idx=("F", ty, 2, 8 + 3 if ty == 0x20 else 0), props=[])
        v2 = lambda: [b"ab", b"c"] if ty == 0x20 else [rand_value(rnd, ty) for _ in range(2)]  # noqa
        segs = [dict(base, objs=[first], chunks=[[i32()], [i32()]]),
                dict(base, objs=[first, late], chunks=[[i32(), v2()]]),
                dict(base, objs=[late], chunks=[[v2()], [v2()]]),
                dict(base, objs=[first], chunks=[[i32()]])]
        e = model.ask(gf.to_line(segs))
        if not e.get("ok") or not e.get("wf"):
            ctx.notes.append("late-channel template for type %#x is not a well-formed encoding" % ty)
            continue
        d = bytes.fromhex(e["file"])
        stats["late_channel_files"] += 1
        with nptdms.TdmsFile.open(io.BytesIO(d)) as f:
            ch = f["g"]["late"]
            declared = ch.dtype
            got = []
            try:
                for k, chunk in enumerate(f.data_chunks()):
                    for cc in chunk["g"].channels():
                        if cc.name == "late":
                            got.append(("TdmsFile.data_chunks()[%d]['g']['late'][:]" % k, cc[:]))
                for k, c in enumerate(ch.data_chunks()):
                    got.append(("channel.data_chunks()[%d][:]" % k, c[:]))
                got.append(("[:]", ch[:]))
            except Exception as ex:  # noqa
                out.append(Violation("chunk iteration over a file whose channel appears late raised %s: %s (type %#x)" % (type(ex).__name__, str(ex)[:100], ty), dict(file=d.hex(), raw_type=ty)))
                continue
            for label, arr in got:
                stats["reads"] += 1
                if not isinstance(arr, np.ndarray):
                    out.append(Violation("%s returned a %s, not an array (type %#x; the channel first appears in the second segment)" % (label, type(arr).__name__, ty), dict(file=d.hex(), raw_type=ty, read=label)))
                elif not same(arr.dtype, declared, label):
                    out.append(Violation("%s has dtype %s but channel.dtype is %s (type %#x; the channel first appears in the second segment)" % (label, arr.dtype, declared, ty), dict(file=d.hex(), raw_type=ty, read=label)))
        if len(out) >= 3:
            break
    return out


def daqmx_pass(ctx, model, nptdms, stats):
    """DAQmx channels (format-changing and digital-line scalers of every integer / float type, 1-3 scalers, several buffers, segments
    and chunks) made readable through `NI_Number_Of_Scales` (the scaled data is then the scaler with the highest listed id):
    every read of every kind has channel.dtype, full reads have len(channel) elements"""
    import gen_daqmx
    out = []
    rnd = ctx.rnd
    stats["daqmx_channels"] = 0
    for _ in range(ctx.n(60, 1500)):
        segs = gen_daqmx.draw(rnd, allow_props=False)
        done = set()
        for sg in segs:
            for ob in sg["objs"]:
                if ob["idx"][0] == "D" and ob["path"] not in done:
                    done.add(ob["path"])
                    sid = rnd.choice([sc[4] for sc in ob["idx"][4]])
                    ob["props"] = list(ob["props"]) + [gs.P_u32("NI_Number_Of_Scales", sid + 1)]
        e = model.ask(gen_files.to_line(segs))
        if not e.get("ok") or not e.get("wf"):
            continue
        d = bytes.fromhex(e["file"])
        for lazy in (False, True):
            try:
                f = (nptdms.TdmsFile.open if lazy else nptdms.TdmsFile.read)(io.BytesIO(d))
            except Exception:
                break
            for g in f.groups():
                for ch in g.channels():
                    try:
                        declared, n = np.dtype(ch.dtype), len(ch)
                    except Exception:
                        continue
                    stats["daqmx_channels"] += 1
                    info = dict(kind="daqmx", file=d.hex(), lazy=lazy, group=g.name, channel=ch.name)
                    for label, arr in reads_of(ch, lazy, n):
                        stats["reads"] += 1
                        if isinstance(arr, Exception):
                            continue        # reads that fail are C11's matter (missing scaler ids, ...)
                        if not isinstance(arr, np.ndarray):
                            out.append(Violation("DAQmx channel %r: %s returned a %s, not an array (%s)" % (ch.path, label, type(arr).__name__, "lazy" if lazy else "eager"), dict(info, read=label)))
                        elif not same(arr.dtype, declared, label):
                            out.append(Violation("DAQmx channel %r: %s has dtype %s but channel.dtype is %s (%s, %d values)" % (
                                ch.path, label, arr.dtype, declared, "lazy" if lazy else "eager", len(arr)), dict(info, read=label)))
                        elif label in ("[:]", "read_data()", ".data") and len(arr) != n:
                            out.append(Violation("DAQmx channel %r: %s has %d elements, len(channel)=%d" % (ch.path, label, len(arr), n), dict(info, read=label)))
            if lazy:
                f.close()
            if len(out) >= 3:
                return out
    return out


def run(ctx):
    nptdms = ctx.nptdms()
    model = ctx.get_model() if ctx.build_ok else None
    if model is None:
        return dict(coverage=dict(evaluations=0, distinct_nontrivial=0, rule="model unavailable", samples=[]))
    rnd = ctx.rnd
    violations, disagreements, samples = [], [], []
    stats = dict(channels=0, reads=0, scaled=0, unscaled=0, empty_channels=0)
    combos = set()
    scale_kinds = ["none"] + gs.STRUCTURAL + gs.SENSORS + ["AdvancedAPI", "chain", "graph", "graph"]
    import tempfile
    memdir = tempfile.mkdtemp(prefix="nptdms_verif_c14_")
    rounds = ctx.n(3, 60)
    for rd in range(rounds):
        for ty in ALL_TYPES:
            for sk in scale_kinds:
                numeric = ty in gs.NUMERIC
                if sk != "none" and not numeric:
                    continue
                n = rnd.choice([0, 1, 4, 7, 40]) if rd else rnd.choice([4, 7, 40])      # 40: long enough for slices with large steps to pick several values
                props, graph = [], None
                if sk == "graph":
                    props, graph = gs.draw_graph(rnd, with_noop=True)
                elif sk == "chain":
                    # a pass-through (AdvancedAPI) scale fed by another scale
                    first = rnd.choice(gs.STRUCTURAL[:3])
                    p1, g1 = gs.draw_graph(rnd, n=1, types=[first], with_number=False)
                    props = p1 + [gs.P_str("NI_Scale[1]_Scale_Type", "AdvancedAPI"), gs.P_u32("NI_Scale[1]_AdvancedAPI_Input_Source", 0)]
                    if rnd.random() < 0.5:
                        props.append(gs.P_u32("NI_Number_Of_Scales", 2))
                    graph = g1 + [("noop", 0)]
                elif sk != "none":
                    types = [sk] if sk != "AdvancedAPI" else []
                    props, graph = gs.draw_graph(rnd, n=1, types=types or ["Linear"], with_noop=False) if types else gs.draw_graph(rnd, n=1, types=[], with_noop=True)
                if numeric:
                    vals, packed = gs.raw_values(rnd, ty, n)
                    if any(g[0] == "sensor" and g[1] == "Thermistor" for g in (graph or [])) or any(g[0] == "sensor" and g[1] == "RTD" for g in (graph or [])):
                        # keep sensors in their physical range so that they do not raise (RTD: >= 100 ohm * 1 mA)
                        fmt = gs.NUMERIC[ty][0]
                        vals = [1 + (abs(int(v)) % 3) if fmt not in "fd" else 0.11 + abs(v) / 1000 for v in vals]
                        packed = [struct.pack("<" + fmt, v) for v in vals]
                elif ty == 0x20:
                    packed = ["s%d" % q for q in range(n)]
                    packed = [s.encode() for s in packed]
                else:
                    packed = [rand_value(rnd, ty) for _ in range(n)]
                cut = rnd.randint(0, n)
                big = rnd.random() < 0.3
                if ty == 0x20:
                    tot = lambda v: 4 * len(v) + sum(len(x) for x in v)
                    segs = []
                    for si, part in enumerate([packed[:cut], packed[cut:]]):
                        objs = [dict(path=path_of("g", "c"), idx=("F", ty, len(part), tot(part)), props=props if si == 0 else [])]
                        segs.append(dict(hasMeta=True, newList=True, interleaved=False, big=big, rawFlag=True, daqmxFlag=False, lengthUnknown=False, version=4713,
                                         padding=0, objs=objs, chunks=[[part]] if part else []))
                else:
                    # (fixed-width types also with the interleaved flag: a one-channel interleaved segment holds the same bytes, but is read
                    # by the other reader class)
                    segs = gs.one_channel_file(ty, [packed[:cut], packed[cut:]], props, [], [], big=big, interleaved=(ty != 0x20 and rnd.random() < 0.3))
                e = model.ask(gen_files.to_line(segs))
                if not e.get("ok") or not e.get("wf"):
                    disagreements.append(dict(what="generated file not well-formed: %s" % str(e)[:100]))
                    continue
                data = bytes.fromhex(e["file"])
                stats["channels"] += 1
                stats["scaled" if sk != "none" else "unscaled"] += 1
                stats["empty_channels"] += n == 0
                combos.add((ty, sk, n == 0))
                declared = None
                for lazy in (False, True, "memmap"):
                    if lazy == "memmap":
                        # the memmap_dir option (lazy): same promises; only every fourth channel to keep the run short
                        if stats["channels"] % 4:
                            continue
                        f = nptdms.TdmsFile.open(io.BytesIO(data), memmap_dir=memdir)
                        lazy = True
                    else:
                        f = (nptdms.TdmsFile.open if lazy else nptdms.TdmsFile.read)(io.BytesIO(data))
                    ch = f["g"]["c"]
                    info = dict(file=data.hex(), raw_type=ty, scale=sk, lazy=lazy)
                    try:
                        declared = ch.dtype
                    except Exception as ex:  # noqa
                        violations.append(Violation("channel.dtype raised %r (type %#x, scale %s)" % (ex, ty, sk), info))
                        continue
                    if len(ch) != n:
                        violations.append(Violation("len(channel)=%d, %d values were written" % (len(ch), n), info))
                    for label, arr in reads_of(ch, lazy, n):
                        stats["reads"] += 1
                        if isinstance(arr, Exception):
                            if sk in gs.SENSORS or (graph and any(g[0] == "sensor" for g in graph)):
                                continue      # sensor formulas may legitimately fail on arbitrary numbers; covered by C17
                            violations.append(Violation("%s raised %s: %s (type %#x, scale %s, %s)" % (label, type(arr).__name__, str(arr)[:100], ty, sk, "lazy" if lazy else "eager"), info))
                            continue
                        if not isinstance(arr, np.ndarray):
                            violations.append(Violation("%s returned a %s, not an array (type %#x, %s)" % (label, type(arr).__name__, ty, "lazy" if lazy else "eager"), info))
                            continue
                        if not same(arr.dtype, declared, label):
                            violations.append(Violation("%s has dtype %s but channel.dtype is %s (raw type %#x, scale %s, %s, %d values)" % (
                                label, arr.dtype, declared, ty, sk, "lazy" if lazy else "eager", len(arr)), dict(info, read=label)))
                        if label in ("[:]", "read_data()", ".data") and len(arr) != len(ch):
                            violations.append(Violation("%s has %d elements, len(channel)=%d" % (label, len(arr), len(ch)), dict(info, read=label)))
                    if len(violations) >= 5:
                        break
                # model: declared and actual kinds
                if numeric and sk != "none" and declared is not None and not (graph and any(g[0] == "sensor" for g in graph) and False):
                    line = "scale %s 0 0 %d %s 0 0" % (gs.NUMERIC[ty][1], len(props), " ".join(gs.prop_token(p) for p in props))
                    m = model.ask(" ".join(line.split()))
                    if m.get("ok") and m.get("scaling") is not None:
                        if m["declared"] != kind_of(declared):
                            disagreements.append(dict(what="declared dtype: model %s real %s (type %#x scale %s)" % (m["declared"], kind_of(declared), ty, sk), file=data.hex()))
                        try:
                            real_actual = kind_of(nptdms.TdmsFile.read(io.BytesIO(data))["g"]["c"][:].dtype)
                            if m["actual"] != real_actual:
                                disagreements.append(dict(what="actual dtype: model %s real %s (type %#x scale %s)" % (m["actual"], real_actual, ty, sk), file=data.hex()))
                        except Exception:
                            pass
                    elif not m.get("ok"):
                        disagreements.append(dict(what="model scaling error %s" % m.get("err"), file=data.hex()))
                if len(samples) < 2 and sk == "graph":
                    samples.append(dict(raw_type=ty, graph=str(graph)[:200]))
                if len(violations) >= 5 or len(disagreements) >= ctx.dis_limit:
                    break
            if len(violations) >= 5 or len(disagreements) >= ctx.dis_limit:
                break
        if len(violations) >= 5 or len(disagreements) >= ctx.dis_limit:
            break
        if ctx.tier == "quick" and ctx.elapsed() > 45:
            break
    if len(violations) < 5:
        violations += empty_chunk_pass(ctx, model, nptdms, stats)
    if len(violations) < 5:
        violations += late_channel_pass(ctx, model, nptdms, stats)
    if len(violations) < 5:
        violations += daqmx_pass(ctx, model, nptdms, stats)
    import shutil
    shutil.rmtree(memdir, ignore_errors=True)
    return dict(violations=violations[:5], disagreements=disagreements[:20],
                coverage=dict(evaluations=stats["reads"], distinct_nontrivial=len(combos),
                              rule="eager, lazy and lazy with memmap_dir; every readable raw type (17) x {no scaling, Linear, Polynomial, Table, Add, Subtract, RTD, Strain, Thermistor, Thermocouple, AdvancedAPI, "
                                   "random graph} (scalings on numeric types) x {eager, lazy} x {[:], read_data(), windows incl. empty and out-of-range, slices incl. empty and "
                                   "stepped, integer index, .data, every channel chunk} with 0-7 or 40 values split over two segments, both byte orders, contiguous and (fixed-width types, 30 %) interleaved; distinct_nontrivial = "
                                   "distinct (raw type, scale kind, empty?) combinations; plus generated DAQmx files (format-changing and digital-line scalers of every type) made readable through NI_Number_Of_Scales: every read of every kind against channel.dtype",
                              samples=samples or [dict(note="none")], counts=stats))


def search(ctx, broken, disagreements):
    ctx.budget_factor = max(ctx.budget_factor, 3)
    return run(ctx)["violations"][:1]


def replay(ctx, path):
    import json
    with open(path) as f:
        rp = json.load(f)["replay"]
    nptdms = ctx.nptdms()
    f = (nptdms.TdmsFile.open if rp.get("lazy") else nptdms.TdmsFile.read)(io.BytesIO(bytes.fromhex(rp["file"])))
    ch = f[rp.get("group", "g")][rp.get("channel", "c")]
    bad = [(l, a.dtype) for l, a in reads_of(ch, rp.get("lazy"), len(ch)) if isinstance(a, np.ndarray) and not same(a.dtype, ch.dtype, l)]
    print("replay: channel.dtype=%s; reads with another dtype: %s" % (ch.dtype, bad or "none"))
    return 1 if bad else 0
