"""C05 — Reads from an open file are independent of earlier reads.

Correspondence: the Lean open-file state machine (`ops`) vs one real `TdmsFile.open` object driven through
the same random operation history (index, slice, read_data, new channel/file iterators, next()).
Oracle (real code only): every non-iterator op equals the same op on a freshly opened file; every iterator
delivers exactly the chunk sequence a fresh, uninterrupted iterator delivers.
"""
import io
import os
import sys

import numpy as np

sys.path.insert(0, os.path.dirname(os.path.dirname(os.path.abspath(__file__))))
import canon
import gen_files
import corr_lazy as cl
from framework import Violation
from leanio import hx
from props.lazy_common import FileStream, ANCHOR_FILES, RULE_FILES  # noqa

LEVEL = "proof"
ASSUMPTIONS = ["single-threaded use (the property and the npTDMS documentation exclude threads)"]
TRUSTED_EXTRA = ["harness/corr_lazy.py (history generator, per-op canonical outputs)"]


def fresh_reference(data, nptdms, lens):
    """chunk sequences of uninterrupted iterators on fresh files"""
    ref = {}
    for p in lens:
        f, _ = cl.open_real(data, nptdms, raw_timestamps=RAW[0])
        its = []
        cl.real_op(f, its, ("C", p))
        seq = []
        while True:
            o = cl.real_op(f, its, ("X", 0))
            seq.append(o)
            if o["k"] in ("stop", "error"):
                break
        ref[p] = seq
    f, _ = cl.open_real(data, nptdms, raw_timestamps=RAW[0])
    its = []
    cl.real_op(f, its, ("F",))
    seq = []
    while True:
        o = cl.real_op(f, its, ("X", 0))
        seq.append(o)
        if o["k"] in ("stop", "error"):
            break
    ref[None] = seq
    return ref


RAW = [True]        # how the files of a history are opened: raw timestamps (what the model describes) or converted (real code only)


def check_history(ctx, model, nptdms, data, ops, lens, stats):
    dis, vio = [], []
    f, st = cl.open_real(data, nptdms, raw_timestamps=RAW[0])
    its = []
    iter_kind = []     # per iterator: path or None (file)
    iter_pos = []
    mres = None
    if model is not None:
        r = model.ask("ops %s %s" % (hx(data), " ".join(cl.op_token(o) for o in ops)))
        mres = r.get("results") if r.get("ok") else None
    ref = None
    known = {p.hex() for p in lens}
    kept = []          # every delivered chunk object with what it said at delivery
    for k, op in enumerate(ops):
        st.take_log()
        nk = len(kept)
        ro = cl.real_op(f, its, op, keep=kept)
        if len(kept) > nk:
            kept[-1] = kept[-1] + (k, {q: v for q, v in ro.items() if q in ("v", "offset", "offsets")})
        stats["ops"] += 1
        if mres is not None:
            c = cl.compare_out(mres[k]["out"], ro, known, None)
            if c:
                dis.append(dict(what="op %d %s: %s" % (k, cl.op_token(op), c), file=data.hex(), ops=[cl.op_token(o) for o in ops]))
                mres = None
        # oracle on the real code
        if op[0] in ("I", "S", "R"):
            f2, _ = cl.open_real(data, nptdms, raw_timestamps=RAW[0])
            exp = cl.real_op(f2, [], op)
            if canon.norm({k2: v for k2, v in exp.items() if k2 != "exc"}) != canon.norm({k2: v for k2, v in ro.items() if k2 != "exc"}):
                vio.append(Violation("op %d (%s) after %d earlier operations differs from the same op on a freshly opened file" % (k, cl.op_token(op), k),
                                     dict(kind="history", file=data.hex(), ops=[cl.op_token(o) for o in ops], at=k, got=ro, expected=exp)))
                break
        elif op[0] in ("C", "F"):
            iter_kind.append(op[1] if op[0] == "C" else None)
            iter_pos.append(0)
        elif op[0] == "X" and op[1] < len(iter_kind):
            if ref is None:
                ref = fresh_reference(data, nptdms, lens)
            seq = ref[iter_kind[op[1]]]
            j = iter_pos[op[1]]
            exp = seq[j] if j < len(seq) else dict(k="stop")
            iter_pos[op[1]] = j + 1
            a = canon.norm({k2: v for k2, v in exp.items() if k2 != "exc"})
            b = canon.norm({k2: v for k2, v in ro.items() if k2 != "exc"})
            if a != b:
                vio.append(Violation("next() #%d on iterator %d (op %d) differs from an uninterrupted fresh iterator" % (j, op[1], k),
                                     dict(kind="history", file=data.hex(), ops=[cl.op_token(o) for o in ops], at=k, got=ro, expected=exp)))
                break
    # after the history: the whole file-level chunk stream drawn in one go and looked at only afterwards
    if not vio and stats["ops"] % 3 == 0:
        try:
            late = list(f.data_chunks())
            if ref is None:
                ref = fresh_reference(data, nptdms, lens)
            seq = [x for x in ref[None] if x.get("k") == "filechunk"]
            if len(late) != len(seq):
                vio.append(Violation("after the history, list(TdmsFile.data_chunks()) has %d chunks, a fresh iterator delivers %d" % (len(late), len(seq)),
                                     dict(kind="history", file=data.hex(), ops=[cl.op_token(o) for o in ops], at=len(ops))))
            else:
                for j, chunk in enumerate(late):
                    now = cl.observe_chunk("f", chunk)
                    exp = {q: v for q, v in seq[j].items() if q in ("v", "offsets")}
                    if canon.norm(now) != canon.norm(exp):
                        vio.append(Violation("after the history, chunk %d of list(TdmsFile.data_chunks()), looked at after the whole stream was drawn, differs from chunk %d of a fresh iterator looked at on delivery: %s vs %s" % (
                            j, j, str(now)[:120], str(exp)[:120]), dict(kind="history", file=data.hex(), ops=[cl.op_token(o) for o in ops], at=len(ops), got=now, expected=exp)))
                        break
        except Exception as ex:  # noqa
            vio.append(Violation("after the history, list(TdmsFile.data_chunks()) raised %s: %s" % (type(ex).__name__, str(ex)[:100]),
                                 dict(kind="history", file=data.hex(), ops=[cl.op_token(o) for o in ops], at=len(ops))))
    # chunks already delivered stay what they were when they were delivered (values and offsets), whatever happened afterwards
    if not vio:
        for kind, chunk, at, then in kept:
            try:
                now = cl.observe_chunk(kind, chunk)
            except Exception as ex:  # noqa
                now = dict(error="%s: %s" % (type(ex).__name__, str(ex)[:100]))
            if canon.norm(now) != canon.norm(then):
                vio.append(Violation("the chunk delivered by op %d says something else about itself after the rest of the history ran: then %s, now %s" % (
                    at, str(then)[:120], str(now)[:120]), dict(kind="history", file=data.hex(), ops=[cl.op_token(o) for o in ops], at=at, got=now, expected=then)))
                break
    return dis, vio


def scaled_do(ch, op):
    try:
        if op[0] == "I":
            v = ch[op[1]]
            return ("value", str(np.asarray(v).dtype), np.asarray(v).tobytes().hex())
        if op[0] == "S":
            v = ch[op[1]:op[2]]
        elif op[0] == "U":
            v = ch.read_data(op[1], op[2], scaled=False)
        else:
            v = ch.read_data(op[1], op[2])
        return ("array", str(np.asarray(v).dtype), np.asarray(v).tobytes().hex())
    except Exception as ex:  # noqa
        return ("error", type(ex).__name__)


def scaled_histories(ctx, model, nptdms, stats):
    """Histories on channels that carry a scaling, mixing scaled reads (index, slice, read_data) with raw reads
    (read_data(scaled=False)): what an earlier operation cached (scaled chunks) must not leak into a later raw read, and vice
    versa. Oracle: the same operation on a freshly opened file (real code only)."""
    import struct
    import gen_scaling as gs
    rnd = ctx.rnd
    out = []
    stats["scaled_histories"] = 0
    for _ in range(ctx.n(12, 400)):
        n1, n2, n3 = rnd.randint(2, 5), rnd.randint(1, 4), rnd.randint(0, 3)
        vals = [struct.pack("<i", rnd.randint(-50, 50)) for _ in range(n1 + n2 + n3)]
        props, _graph = gs.draw_graph(rnd, n=rnd.randint(1, 2), types=["Linear", "Polynomial"])
        segs = gs.one_channel_file(3, [vals[:n1], vals[n1:n1 + n2], vals[n1 + n2:]], props, [], [], big=rnd.random() < 0.3)
        e = model.ask(gen_files.to_line(segs))
        if not e.get("ok") or not e.get("wf"):
            continue
        data = bytes.fromhex(e["file"])
        n = n1 + n2 + n3
        ops = []
        for _k in range(rnd.randint(3, 10)):
            kind = rnd.choice(["I", "I", "S", "U", "U", "T"])
            if kind == "I":
                ops.append(("I", rnd.randint(-n, n - 1)))
            elif kind == "S":
                ops.append(("S", rnd.choice([None] + list(range(-n, n + 1))), rnd.choice([None] + list(range(-n, n + 1)))))
            else:
                off = rnd.randint(0, n)
                ops.append((kind, off, rnd.choice([None, 1, 2, 3, n])))

        stats["scaled_histories"] += 1
        with nptdms.TdmsFile.open(io.BytesIO(data)) as f:
            ch = f["g"]["c"]
            for k, op in enumerate(ops):
                got = scaled_do(ch, op)
                stats["ops"] += 1
                with nptdms.TdmsFile.open(io.BytesIO(data)) as f2:
                    exp = scaled_do(f2["g"]["c"], op)
                if got != exp:
                    out.append(Violation("scaled channel: op %d %r after %r differs from the same op on a freshly opened file (got %s %s, fresh %s %s)" % (
                        k, op, ops[:k], got[0], got[1], exp[0], exp[1]), dict(kind="scaled-history", file=data.hex(), ops=[list(o) for o in ops], at=k)))
                    break
        if len(out) >= 3:
            break
    return out


def run(ctx):
    nptdms = ctx.nptdms()
    model = ctx.get_model() if ctx.build_ok else None
    if model is None:
        return dict(coverage=dict(evaluations=0, distinct_nontrivial=0, rule="model unavailable", samples=[]))
    stats = dict(ops=0, histories=0, with_iter_interleaving=0)
    fs = FileStream(ctx, model, ctx.n(500, 20000), max_n=4)
    disagreements, violations, samples = [], [], []
    seen = set()
    def with_cuts():
        # every file, and every fourth file also cut inside its last segment's raw data (truncated final chunk)
        for i, segs, e, data, feats, new in fs:
            yield i, segs, e, data, feats, new
            if i % 4 == 0 and len(data) > 60:
                try:
                    last = nptdms.TdmsFile.open(cl.RecordingStream(data))._reader._segments[-1]
                    lo, hi = last.data_position + 1, last.next_segment_pos - 1
                except Exception:
                    continue
                if lo <= hi:
                    stats["truncated_files"] = stats.get("truncated_files", 0) + 1
                    yield i, segs, e, data[:ctx.rnd.randint(lo, hi)], feats, False
    for i, segs, e, data, feats, new in with_cuts():
        try:
            f, _ = cl.open_real(data, nptdms)
        except Exception:
            continue
        lens = {c.path.encode("utf-8"): len(c) for c in cl.channels_of(f)}
        has_timestamps = any(c.data_type is not None and c.data_type.enum_value == 0x44 for c in cl.channels_of(f))
        if not lens:
            continue
        histories = [cl.gen_history(ctx.rnd, lens) for _ in range(2)]
        if max(lens.values()) > 100 and len(lens) > 1:
            # long channels: touch every channel once, then read the tail of every channel (state shared between channels, such as
            # de-duplicated offset arrays, only differs late in long files)
            ps = sorted(lens)
            histories.append([("R", p, 0, None) for p in ps] + [("I", p, lens[p] - k) for p in reversed(ps) for k in (1, 2, 3)]
                             + [("R", p, max(0, lens[p] - 5), None) for p in ps])
            histories.append([("I", ps[-1], 0), ("I", ps[0], lens[ps[0]] - 2), ("S", ps[0], -4, None, None), ("R", ps[-1], lens[ps[-1]] - 4, 4)])
        for ops in histories:
            stats["histories"] += 1
            d, v = check_history(ctx, model, nptdms, data, ops, lens, stats)
            disagreements += d
            violations += v
            if not v and has_timestamps and stats["histories"] % 2 == 0:
                # the same history on the file opened the DEFAULT way (timestamps converted to datetime64 on delivery): real code
                # only, every operation against a freshly opened file
                RAW[0] = False
                try:
                    stats["converted_histories"] = stats.get("converted_histories", 0) + 1
                    _d, v2 = check_history(ctx, None, nptdms, data, ops, lens, stats)
                finally:
                    RAW[0] = True
                for x in v2:
                    x.what = "[raw_timestamps=False] " + x.what
                    x.replay["raw_timestamps"] = False
                violations += v2
            kinds = [o[0] for o in ops]
            inter = any(kinds[a] == "X" and any(k2 in ("I", "S", "R") for k2 in kinds[a + 1:b]) and kinds[b] == "X"
                        for a in range(len(kinds)) for b in range(a + 2, len(kinds)) if kinds[b] == "X")
            key = (data, tuple(ops))
            if inter and key not in seen:
                seen.add(key)
                stats["with_iter_interleaving"] += 1
            if len(samples) < 2 and len(ops) > 6 and len(data) < 400:
                samples.append(dict(file_hex=data.hex(), ops=[cl.op_token(o) for o in ops]))
        if len(violations) >= 5 or len(disagreements) >= ctx.dis_limit:
            break
        if ctx.tier == "quick" and ctx.elapsed() > 45:
            ctx.notes.append("stopped after %d files (time budget)" % fs.drawn)
            break
    if len(violations) < 5:
        violations += scaled_histories(ctx, model, nptdms, stats)
    return dict(violations=violations, disagreements=disagreements,
                coverage=dict(evaluations=stats["ops"], distinct_nontrivial=stats["with_iter_interleaving"],
                              rule=RULE_FILES + "; per file (every fourth file also cut inside its last segment) two random histories of 1-30 operations (for channels longer than 100 values two more that read the tail of every channel after touching the others) (index / slice / read_data / new channel iterator / new "
                                   "file iterator / next on any of up to 3 live iterators); non-trivial = distinct (file, history) pairs in which a direct read "
                                   "happens between two next() calls of a live iterator; plus histories on channels with Linear / Polynomial scalings mixing scaled and raw reads",
                              samples=samples, histories=stats["histories"], files=fs.drawn, feature_counts=dict(sorted(fs.feats.items()))))


def search(ctx, broken, disagreements):
    nptdms = ctx.nptdms()
    if not ctx.build_ok:
        return []
    model = ctx.get_model()
    stats = dict(ops=0)
    for i, segs, e, data, feats, new in FileStream(ctx, model, ctx.n(1500, 6000), max_n=4):
        f, _ = cl.open_real(data, nptdms)
        lens = {c.path.encode("utf-8"): len(c) for c in cl.channels_of(f)}
        if not lens:
            continue
        for _ in range(3):
            _, v = check_history(ctx, None, nptdms, data, cl.gen_history(ctx.rnd, lens), lens, stats)
            if v:
                return v[:1]
    return []


def parse_op(t):
    a = t.split(",")
    unhex = lambda s: b"" if s == "-" else bytes.fromhex(s)
    oi = lambda s: None if s == "N" else int(s)
    if a[0] == "I":
        return ("I", unhex(a[1]), int(a[2]))
    if a[0] == "S":
        return ("S", unhex(a[1]), oi(a[2]), oi(a[3]), oi(a[4]))
    if a[0] == "R":
        return ("R", unhex(a[1]), int(a[2]), oi(a[3]))
    if a[0] == "C":
        return ("C", unhex(a[1]))
    if a[0] == "F":
        return ("F",)
    return ("X", int(a[1]))


def replay(ctx, path):
    import json
    with open(path) as f:
        rp = json.load(f)["replay"]
    data = bytes.fromhex(rp["file"])
    ops = [parse_op(t) for t in rp["ops"]]
    nptdms = ctx.nptdms()
    f, _ = cl.open_real(data, nptdms)
    lens = {c.path.encode("utf-8"): len(c) for c in cl.channels_of(f)}
    RAW[0] = rp.get("raw_timestamps", True)
    try:
        _, v = check_history(ctx, None, nptdms, data, ops, lens, dict(ops=0))
    finally:
        RAW[0] = True
    print("replay: %s" % ([x.what for x in v] or "property holds on this history"))
    return 1 if v else 0


def corpus_scaled(ctx, entry):
    rp = entry["replay"]
    nptdms = ctx.nptdms()
    data = bytes.fromhex(rp["file"])
    ops = [tuple(o) for o in rp["ops"]]
    with nptdms.TdmsFile.open(io.BytesIO(data)) as f:
        ch = f["g"]["c"]
        for k, op in enumerate(ops):
            got = scaled_do(ch, op)
            with nptdms.TdmsFile.open(io.BytesIO(data)) as f2:
                exp = scaled_do(f2["g"]["c"], op)
            if got != exp:
                return [], [Violation("corpus: scaled channel: op %d %r differs from the same op on a freshly opened file" % (k, op), rp)]
    return [], []


def corpus(ctx, entry):
    if entry["replay"].get("kind") == "scaled-history":
        return corpus_scaled(ctx, entry)
    rp = entry["replay"]
    data = bytes.fromhex(rp["file"])
    nptdms = ctx.nptdms()
    f, _ = cl.open_real(data, nptdms)
    lens = {c.path.encode("utf-8"): len(c) for c in cl.channels_of(f)}
    return check_history(ctx, ctx.get_model() if ctx.build_ok else None, nptdms, data, [parse_op(t) for t in rp["ops"]], lens, dict(ops=0))
