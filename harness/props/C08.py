"""C08 — TdmsWriter emits structurally valid segments and a faithful index file.

Correspondence: writer model bytes = real writer bytes (shared with C07).
Oracle (real code only, independent of the reader model): the strict structural parser of
lean/Tdms/Spec/Parse.lean — written from the format description — applied to the bytes the real TdmsWriter emits:
offsets, every length field, metadata extent, raw data length, string offset tables, root first, groups before their
channels; index file = data file minus raw data with TDSh tags; for index_file off / True (path) / stream.
"""
import io
import os
import shutil
import sys
import tempfile

sys.path.insert(0, os.path.dirname(os.path.dirname(os.path.abspath(__file__))))
import gen_writer as gw
from framework import Violation
from leanio import hx
from props.C07 import real_write

LEVEL = "proof"
ANCHOR_FILES = ["nptdms/writer.py"]
ASSUMPTIONS = ["lean/Tdms/Spec/Parse.lean is our reading of the NI layout (length fields count themselves: 20 / 28)"]
TRUSTED_EXTRA = ["lean/Tdms/Spec/Parse.lean (strict parser, run through the model executable)"]


def write_by_path(prog, nptdms, version, tmp):
    p = os.path.join(tmp, "w.tdms")
    for q in (p, p + "_index"):
        if os.path.exists(q):
            os.unlink(q)
    mode = "w"
    try:
        for sess in prog:
            with nptdms.TdmsWriter(p, mode=mode, version=version, index_file=True) as w:
                for seg in sess:
                    w.write_segment(gw.to_python(seg, nptdms))
            mode = "a+" if mode != "a+" else "a"
    except Exception as ex:  # noqa
        return None, None, ex
    return open(p, "rb").read(), open(p + "_index", "rb").read(), None


def run(ctx):
    nptdms = ctx.nptdms()
    model = ctx.get_model() if ctx.build_ok else None
    if model is None:
        return dict(coverage=dict(evaluations=0, distinct_nontrivial=0, rule="model unavailable", samples=[]))
    disagreements, violations, samples = [], [], []
    stats = dict(programs=0, accepted=0, by_path=0, no_index=0, segments=0)
    nontrivial = set()
    tmp = tempfile.mkdtemp(prefix="nptdms_verif_c08_")
    try:
        for i in range(ctx.n(500, 20000)):
            prog = gw.draw(ctx.rnd)
            version = ctx.rnd.choice([4712, 4713])
            stats["programs"] += 1
            mode = i % 4
            # a write_segment call that raises is skipped and the program goes on: such a call must be a no-op, so the file must be
            # the valid file of the accepted calls (gen_writer.write_resilient)
            if mode == 3:
                p = os.path.join(tmp, "w.tdms")
                for q in (p, p + "_index"):
                    if os.path.exists(q):
                        os.unlink(q)
                prog, n_rej, err = gw.write_resilient(prog, nptdms, version, None, None, by_path=p, first_mode=ctx.rnd.choice(["w", "w", "a", "a+idx"]))
                data, index = (open(p, "rb").read(), open(p + "_index", "rb").read()) if os.path.exists(p) else (b"", b"")
                stats["by_path"] += err is None
            elif mode == 2:
                d_ = io.BytesIO()
                prog, n_rej, err = gw.write_resilient(prog, nptdms, version, d_, None)
                data, index = d_.getvalue(), None
                stats["no_index"] += err is None
            else:
                d_, i_ = io.BytesIO(), io.BytesIO()
                prog, n_rej, err = gw.write_resilient(prog, nptdms, version, d_, i_)
                data, index = d_.getvalue(), i_.getvalue()
            stats["rejected_calls"] = stats.get("rejected_calls", 0) + n_rej
            if err is not None:
                violations.append(Violation("TdmsWriter raised %s outside write_segment: %s" % (type(err).__name__, str(err)[:160]), dict(kind="written", program=gw.to_line(prog, version))))
                continue
            if not any(prog):
                continue
            stats["accepted"] += 1
            line = gw.to_line(prog, version)
            r = model.ask("strict %s %s" % (hx(data), "-" if index is None else hx(index)))
            if not r.get("ok"):
                violations.append(Violation("bytes written by TdmsWriter are not structurally valid: %s (index_file=%s)" % (
                    r.get("issue"), {3: "True (path)", 2: "False"}.get(mode, "stream")), dict(kind="written", program=line, data=data.hex(), index=None if index is None else index.hex())))
            else:
                stats["segments"] += r["segments"]
                nseg = sum(len(s) for s in prog)
                if r["segments"] != nseg:
                    violations.append(Violation("%d write_segment calls produced %d segments" % (nseg, r["segments"]), dict(kind="written", program=line, data=data.hex())))
            m = model.ask(line)
            if m.get("ok") and (bytes.fromhex(m["data"]) != data or (index is not None and bytes.fromhex(m["index"]) != index)):
                disagreements.append(dict(what="writer model bytes differ from the real writer's", program=line))
            if any(ob[0] == "C" and ob[3][0] == "S" and ob[3][1] for s in prog for seg in s for ob in seg):
                nontrivial.add(line)
            if len(samples) < 2 and len(line) < 500:
                samples.append(dict(program=line))
            if len(violations) >= 5 or len(disagreements) >= ctx.dis_limit:
                break
            if ctx.tier == "quick" and ctx.elapsed() > 45:
                break
    finally:
        shutil.rmtree(tmp, ignore_errors=True)
    return dict(violations=violations[:5], disagreements=disagreements[:20],
                coverage=dict(evaluations=stats["programs"], distinct_nontrivial=len(nontrivial),
                              rule="writer programs as in C07 (write_segment calls that raise are skipped and must be no-ops), written with index_file = stream (half), False (quarter), True on a path in append mode (quarter; half of those start by appending to an existing empty file); the "
                                   "strict parser checks every emitted segment; non-trivial = distinct accepted programs containing non-empty string channels (the 28-byte "
                                   "index and offset tables)",
                              samples=samples or [dict(note="none short enough")], counts=stats))


def search(ctx, broken, disagreements):
    ctx.budget_factor = max(ctx.budget_factor, 4)
    return run(ctx)["violations"][:1]


def replay(ctx, path):
    import json
    import leanio
    with open(path) as f:
        rp = json.load(f)["replay"]
    m = leanio.Model()
    r = m.ask("strict %s %s" % (rp["data"], rp["index"] or "-"))
    m.close()
    print("replay: strict parser says %s" % r)
    return 0 if r.get("ok") else 1
