"""C04 — Windows, slices and indices mean what they mean on the full array.

Correspondence: Lean lazy model (`wins`, `slices`, `ops I`) vs real `read_data(off,len)`, `channel[a:b:c]`,
`channel[i]` on `TdmsFile.open`, exhaustively per file for small channels.
Oracle (real code only): the same request on the NumPy array of an eager read.
"""
import os
import sys

sys.path.insert(0, os.path.dirname(os.path.dirname(os.path.abspath(__file__))))
import canon
import gen_files
import corr_lazy as cl
from framework import Violation
from leanio import hx
from props.lazy_common import FileStream, eager_values, ANCHOR_FILES, RULE_FILES  # noqa

LEVEL = "proof"
ASSUMPTIONS = ["Python/NumPy slicing semantics are the reference (`list[a:b:c]` on the eager array)"]
TRUSTED_EXTRA = ["harness/corr_lazy.py (recording stream, request enumeration, comparison)"]


def check_file(ctx, model, nptdms, data, exhaustive, stats):
    dis, vio = [], []
    ev, r = eager_values(data, nptdms)
    if ev is None:
        return dis, vio
    f, st = cl.open_real(data, nptdms)
    fe = nptdms.TdmsFile.read(cl.RecordingStream(data), raw_timestamps=True)
    for ch in cl.channels_of(f):
        p = ch.path.encode("utf-8")
        n = len(ch)
        vals = (ev.get(p.hex()) or (None, None))[0]
        if vals is None:
            vals = [] if ch.data_type is None or ch.data_type.enum_value != 0xFFFFFFFF else None
        if vals is not None and len(vals) != n:
            # nothing below makes sense if the lazily opened file disagrees with the eager read about the channel's length
            vio.append(Violation("len(channel) = %d for %r on the lazily opened file, the eager read returns %d values" % (n, p, len(vals)),
                                 dict(kind="length", file=data.hex(), path=p.hex(), lazy_len=n, eager_len=len(vals))))
            continue
        ex = exhaustive and n <= 8
        ws = cl.windows_for(n, ctx.rnd, ex, sample=40)
        d, v = cl.compare_windows(model, data, f, st, ch, ws, vals, check_trace=False)
        stats["windows"] += len(ws)
        sl = cl.slices_for(n, ctx.rnd, ex and n <= 5, sample=60)
        d2, v2 = cl.compare_slices(model, data, f, st, ch, sl, vals)
        stats["slices"] += len(sl)
        # integer indices, lazily (with the chunk cache in play: ascending then descending)
        idxs = list(range(-n - 1, n + 1)) + list(range(n, -n - 2, -1))
        if model is not None and vals is not None:
            r = model.ask("ops %s %s" % (hx(data), " ".join("I,%s,%d" % (hx(p), i) for i in idxs)))
            mres = r.get("results", [])
        else:
            mres = None
        for k, i in enumerate(idxs):
            real = cl.call(lambda: ch[i])
            stats["indices"] += 1
            if vals is not None:
                inr = -n <= i < n
                if inr:
                    if real[0] != "ok" or canon.scalar_hex(real[1]) != vals[i]:
                        v2.append(dict(what="channel[%d] != full[%d] (%s)" % (i, i, real[1:] if real[0] != "ok" else ""), path=p.hex(), index=i))
                elif real[0] == "ok" or real[1] != "indexError":
                    v2.append(dict(what="channel[%d] out of range did not raise IndexError" % i, path=p.hex(), index=i))
            if mres:
                mo = mres[k]["out"]
                if real[0] == "ok":
                    if mo.get("k") != "value" or mo["v"] != canon.scalar_hex(real[1]):
                        d2.append(dict(what="index %d of %r: model %s real %s" % (i, p, mo, canon.scalar_hex(real[1]))))
                elif mo.get("k") != "error" or mo["v"] != real[1]:
                    d2.append(dict(what="index %d of %r: real raised %s model %s" % (i, p, real[2], mo)))
        # eager file: same requests through slice_raw_data / numpy
        if vals is not None:
            che = fe[ch.group_name][ch.name]
            for (o, l) in ws[:25]:
                real = cl.call(lambda: che.read_data(o, l, scaled=False))
                exp = vals[o:] if l is None else vals[o:o + l]
                stats["eager_windows"] += 1
                if real[0] != "ok" or (cl.canon_out(real[1])["data"] or []) != exp:
                    v2.append(dict(what="eager read_data(%d,%s) != full slice" % (o, l), path=p.hex(), offset=o, length=l, eager=True))
        for x in d + d2:
            x["file"] = data.hex()
        dis += d + d2
        for x in v + v2:
            vio.append(Violation("lazy/eager request differs from NumPy semantics on the full array: " + x["what"],
                                 dict(kind="request", file=data.hex(), **{k: x[k] for k in x if k != "what"})))
    return dis, vio


def scaled_window_check(ctx, nptdms, data, stats, graph=None):
    """a channel with NI_Scale properties: every window and a sample of slices of the SCALED data, on one eagerly read object and on
    one lazily opened file, against the slice of the first full read (byte-equal), requests issued one after the other"""
    import io
    import numpy as np
    vbz = lambda x: canon.value_bytes(np.asarray(x))  # noqa
    info = dict(kind="scaled-window", file=data.hex(), graph=str(graph)[:300])
    try:
        che = nptdms.TdmsFile.read(io.BytesIO(data))["g"]["c"]
        full = np.array(che[:])
    except Exception:
        return []
    n = len(full)
    fl = nptdms.TdmsFile.open(io.BytesIO(data))
    chl = fl["g"]["c"]
    vio = []
    reqs = [(o, l) for o in range(n + 1) for l in [None] + list(range(n + 2 - o))]
    ctx.rnd.shuffle(reqs)
    for label, ch in (("read", che), ("open", chl)):
        for o, l in reqs[:24]:
            stats["scaled_windows"] = stats.get("scaled_windows", 0) + 1
            r = cl.call(lambda: ch.read_data(o, l))
            want = full[o:] if l is None else full[o:o + l]
            if r[0] != "ok" or vbz(np.asarray(r[1]).astype(full.dtype) if np.asarray(r[1]).size == 0 else r[1]) != vbz(want):
                vio.append(Violation("scaled channel, TdmsFile.%s: read_data(%d,%s) gives %s, the slice of the full scaled data is %s" % (
                    label, o, l, [repr(x) for x in np.asarray(r[1]).tolist()[:6]] if r[0] == "ok" else r[2], [repr(x) for x in want.tolist()[:6]]), dict(info, offset=o, length=l)))
                break
        for _ in range(10):
            a, b, st = (ctx.rnd.choice([None] + list(range(-n - 1, n + 2))) for _ in range(3))
            if st == 0:
                continue
            stats["scaled_windows"] = stats.get("scaled_windows", 0) + 1
            r = cl.call(lambda: ch[a:b:st])
            want = full[a:b:st]
            if r[0] != "ok" or vbz(np.asarray(r[1]).astype(full.dtype) if np.asarray(r[1]).size == 0 else r[1]) != vbz(want):
                vio.append(Violation("scaled channel, TdmsFile.%s: [%s:%s:%s] differs from the slice of the full scaled data" % (label, a, b, st), dict(info, slice=[a, b, st])))
                break
        if vio:
            break
    fl.close()
    return vio


def cut_points(ctx, nptdms, data, n=2):
    try:
        last = nptdms.TdmsFile.open(cl.RecordingStream(data))._reader._segments[-1]
        lo, hi = last.data_position + 1, last.next_segment_pos - 1
    except Exception:
        return []
    return sorted(set(ctx.rnd.randint(lo, hi) for _ in range(n))) if lo <= hi else []


def run(ctx):
    nptdms = ctx.nptdms()
    model = ctx.get_model() if ctx.build_ok else None
    if model is None:
        return dict(coverage=dict(evaluations=0, distinct_nontrivial=0, rule="model unavailable", samples=[]))
    stats = dict(windows=0, slices=0, indices=0, eager_windows=0)
    fs = FileStream(ctx, model, ctx.n(400, 14000), max_n=4)
    disagreements, violations, samples = [], [], []
    nontrivial = 0
    from props import C03
    for sdata, graph in C03.scaled_files(ctx, model, ctx.n(60, 1200)):
        violations += scaled_window_check(ctx, nptdms, sdata, stats, graph)
        if len(violations) >= 3:
            break
    for i, segs, e, data, feats, new in fs:
        d, v = check_file(ctx, model, nptdms, data, ctx.tier == "thorough" or i % 4 == 0, stats)
        disagreements += d
        violations += v
        # the same file cut inside its last segment's raw data (truncated final chunk): all windows, slices and indices
        if i % 3 == 0 and len(data) > 40:
            for k in cut_points(ctx, nptdms, data):
                stats["truncated_files"] = stats.get("truncated_files", 0) + 1
                d, v = check_file(ctx, model, nptdms, data[:k], True, stats)
                for x in v:
                    x.what = "file cut at byte %d: %s" % (k, x.what)
                disagreements += d
                violations += v
        if new and ({"multi-segment", "multi-chunk"} & feats) and any(o["values"] for o in e["content"]):
            nontrivial += 1
        if len(samples) < 2 and len(data) < 300:
            samples.append(dict(encoding=gen_files.to_line(segs)))
        if len(violations) >= 5 or len(disagreements) >= ctx.dis_limit:
            break
        if ctx.tier == "quick" and ctx.elapsed() > 45:
            ctx.notes.append("stopped after %d files (time budget)" % fs.drawn)
            break
    # windows of DAQmx channels (per-scaler raw data): every offset / length against the slice of the eager scaler data
    if len(violations) < 5:
        import gen_daqmx
        from props import C11
        dstats = dict(files=0, decoded=0, windows=0, streams=0, cuts=0)
        for _ in range(ctx.n(25, 600)):
            dsegs = gen_daqmx.draw(ctx.rnd)
            de = model.ask(gen_files.to_line(dsegs))
            if not de.get("ok") or not de.get("wf"):
                continue
            _d, v = C11.check_file(ctx, model, nptdms, dsegs, bytes.fromhex(de["file"]), dstats)
            violations += [x for x in v if x.replay.get("kind") == "daqmx-window"]
            if len(violations) >= 5:
                break
        stats["daqmx_windows"] = dstats["windows"]
    ev = stats["windows"] + stats["slices"] + stats["indices"] + stats["eager_windows"] + stats.get("daqmx_windows", 0) + stats.get("scaled_windows", 0)
    return dict(violations=violations, disagreements=disagreements,
                coverage=dict(evaluations=ev, distinct_nontrivial=nontrivial,
                              rule=RULE_FILES + "; per channel: windows (off,len) over 0..n+2 incl. None, slices over [-n-2,n+2]∪{None} x steps "
                                   "{None,±1,±2,±3,±n,0}, all integer indices in [-n-1,n] ascending then descending (cache), exhaustive for small channels; windows of DAQmx scaler data on generated DAQmx files; windows and slices of the SCALED data of channels with NI_Scale properties (structural and sensor scales) on one eager object and one lazily opened file, one request after the other, against the first full read; every third file additionally cut at 2 offsets inside its last segment's raw data with all requests; "
                                   "distinct_nontrivial counts distinct multi-segment or multi-chunk files with data",
                              samples=samples, files=fs.drawn, requests=stats, feature_counts=dict(sorted(fs.feats.items()))))


def search(ctx, broken, disagreements):
    nptdms = ctx.nptdms()
    if not ctx.build_ok:
        return []
    model = ctx.get_model()
    stats = dict(windows=0, slices=0, indices=0, eager_windows=0)
    from props import C03
    for sdata, graph in C03.scaled_files(ctx, model, ctx.n(150, 1200)):
        v = scaled_window_check(ctx, nptdms, sdata, stats, graph)
        if v:
            return v[:1]
    for i, segs, e, data, feats, new in FileStream(ctx, model, ctx.n(300, 3000), max_n=4):
        _, v = check_file(ctx, None, nptdms, data, True, stats)
        if v:
            return v[:1]
        for k in cut_points(ctx, nptdms, data, 3):
            _, v = check_file(ctx, None, nptdms, data[:k], True, stats)
            if v:
                return v[:1]
    return []


def replay(ctx, path):
    import json
    with open(path) as f:
        rp = json.load(f)["replay"]
    data = bytes.fromhex(rp["file"])
    stats = dict(windows=0, slices=0, indices=0, eager_windows=0)
    if rp.get("kind") == "scaled-window":
        v = []
        for _ in range(10):
            v = v or scaled_window_check(ctx, ctx.nptdms(), data, stats)
    else:
        _, v = check_file(ctx, None, ctx.nptdms(), data, True, stats)
    print("replay: %s" % ([x.what for x in v[:3]] or "property holds on this file"))
    return 1 if v else 0


def corpus(ctx, entry):
    stats = dict(windows=0, slices=0, indices=0, eager_windows=0)
    if entry["replay"].get("kind") == "scaled-window":
        return [], scaled_window_check(ctx, ctx.nptdms(), bytes.fromhex(entry["replay"]["file"]), stats)
    return check_file(ctx, ctx.get_model() if ctx.build_ok else None, ctx.nptdms(), bytes.fromhex(entry["replay"]["file"]), True, stats)
