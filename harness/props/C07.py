"""C07 — What TdmsWriter writes is what TdmsFile reads.

Correspondence: Lean writer model (`write`) vs the real TdmsWriter, byte for byte (data file and index file).
Oracle (real code only): real write -> real read equals the content the program promises (concatenated arrays with
dtype, last property values with their TDMS type chosen by magnitude, names, version).
"""
import io
import shutil
import os
import struct
import sys

import numpy as np

sys.path.insert(0, os.path.dirname(os.path.dirname(os.path.abspath(__file__))))
import canon
import gen_writer as gw
from framework import Violation
from leanio import hx

LEVEL = "proof"
ANCHOR_FILES = ["nptdms/writer.py", "nptdms/types.py", "nptdms/timestamp.py", "nptdms/reader.py", "nptdms/tdms_segment.py"]
ASSUMPTIONS = ["NumPy's conversion of Python lists to arrays (np.array) is trusted; only the dtype choice of _infer_dtype is modelled",
               "programs the writer rejects (duplicate paths, values NumPy cannot hold) are outside the property"]
TRUSTED_EXTRA = ["harness/gen_writer.py (program generator, Python object construction, expected content)"]


def real_write(prog, nptdms, version, with_index=True):
    data, index = io.BytesIO(), io.BytesIO()
    try:
        for sess in prog:
            with nptdms.TdmsWriter(data, version=version, index_file=index if with_index else False) as w:
                for seg in sess:
                    w.write_segment(gw.to_python(seg, nptdms))
    except Exception as ex:  # noqa
        return None, None, ex
    return data.getvalue(), index.getvalue(), None


def real_write_resilient(prog, nptdms, version):
    """as real_write, but a rejected write_segment call is skipped and the program goes on (see gen_writer.write_resilient)"""
    data, index = io.BytesIO(), io.BytesIO()
    accepted, rejected, err = gw.write_resilient(prog, nptdms, version, data, index)
    return data.getvalue(), index.getvalue(), accepted, rejected, err


def prop_matches(v, got_raw, got_conv):
    """written value description vs the value read back (raw_timestamps=True and False)"""
    from nptdms.timestamp import TdmsTimestamp
    k = v[0]
    if k == "i":
        return type(got_raw) is int and got_raw == v[1]
    if k == "f":
        return isinstance(got_raw, float) and struct.pack("<d", got_raw) == struct.pack("<d", v[1])
    if k == "b":
        return isinstance(got_raw, bool) and got_raw == v[1]
    if k == "s":
        return got_raw == v[1]
    if k == "d":
        return isinstance(got_conv, np.datetime64) and got_conv == np.datetime64(v[1], "us") and isinstance(got_raw, TdmsTimestamp)
    if k == "t":
        return isinstance(got_raw, TdmsTimestamp) and (got_raw.seconds, got_raw.second_fractions) == (v[1], v[2])
    kind, raw = (v[1], v[2]) if k == "n" else (v[2], v[3])
    val = np.frombuffer(raw, dtype=gw.dt(kind))[0].item()
    if isinstance(val, float):
        return isinstance(got_raw, float) and struct.pack("<d", got_raw) == struct.pack("<d", val)
    return got_raw == val and type(got_raw) is int


def expected_type_code(v):
    k = v[0]
    if k == "i":
        return gw.int_type_by_magnitude(v[1])
    return {"f": 10, "b": 0x21, "s": 0x20, "d": 0x44, "t": 0x44}.get(k) or gw.KIND_CODE[v[1] if k == "n" else v[2]]


def check_read_back(prog, data, nptdms, version, model):
    try:
        return _check_read_back(prog, data, nptdms, version, model)
    except Exception as ex:  # noqa: what was read back is so unlike what was written that the comparison itself fails
        return ["what was read back cannot be compared with what was written (%s: %s)" % (type(ex).__name__, str(ex)[:120])]


def _check_read_back(prog, data, nptdms, version, model):
    out = []
    T = nptdms.TdmsFile
    src = (lambda: data) if isinstance(data, str) else (lambda: io.BytesIO(data))
    try:
        fr = T.read(src(), raw_timestamps=True)
        fc = T.read(src(), raw_timestamps=False)
    except Exception as ex:  # noqa
        return ["reading the written file raised %r" % ex]
    if fr.tdms_version != version:
        out.append("tdms_version %r, written %r" % (fr.tdms_version, version))
    chans, props, order = gw.expected(prog)
    # the same file opened lazily: full reads and the concatenated chunk stream of every channel equal the eager data
    try:
        fl = T.open(src(), raw_timestamps=False)
        for key in chans:
            le = fc[key[0]][key[1]][:]
            ll = fl[key[0]][key[1]]
            parts = [c[:] for c in ll.data_chunks()]
            for label, g in (("[:]", ll[:]), ("the concatenated data_chunks()", np.concatenate(parts) if parts else le[:0]), ("[len//2:]", ll[len(le) // 2:])):
                want = le[len(le) // 2:] if label.startswith("[len") else le
                if canon.value_bytes(np.asarray(g)) != canon.value_bytes(np.asarray(want)):
                    out.append("channel %r: TdmsFile.open(...) %s gives %s, TdmsFile.read gives %s" % (key, label, canon.value_bytes(np.asarray(g))[:5], canon.value_bytes(np.asarray(want))[:5]))
                    break
        fl.close()
    except KeyError:
        pass        # reported below
    except Exception as ex:  # noqa
        out.append("reading the written file lazily raised %s: %s" % (type(ex).__name__, str(ex)[:120]))
    for key, descs in chans.items():
        try:
            cr, cc = fr[key[0]][key[1]], fc[key[0]][key[1]]
        except KeyError as ex:
            out.append("channel %r written but not found: %r" % (key, ex))
            continue
        if (cc.group_name, cc.name) != key:
            out.append("channel %r read back with names %r" % (key, (cc.group_name, cc.name)))
        exp_bytes, exp_dtype, exp_ints = [], None, None
        # writes that carry no value declare no type either (empty string list / empty datetime array / empty object array): the kind of
        # a channel is the kind of its non-empty writes (after rejected calls were dropped a channel may start with such a write)
        kinds = {d[0] for d in descs if d[0] != "E" and not (d[0] in "SD" and not d[1])}
        for d in descs:
            if d[0] == "K":
                arr = d[2]
                exp_dtype = arr.dtype
                w = arr.dtype.itemsize
                raw = arr.astype(arr.dtype.newbyteorder("<")).tobytes()
                exp_bytes += [raw[i * w:(i + 1) * w].hex() for i in range(len(arr))]
            elif d[0] == "S":
                exp_bytes += [s.encode("utf-8").hex() for s in d[1]]
            elif d[0] == "D":
                exp_bytes += [struct.pack("<q", u).hex() for u in d[1]]
            elif d[0] == "L":
                exp_ints = (exp_ints or []) + list(d[1])
        got = cc[:]
        if exp_ints is not None:
            if [int(x) for x in got] != exp_ints or got.dtype.kind not in "iu":
                out.append("channel %r: integer list read back as %r (%s)" % (key, list(got)[:6], got.dtype))
        elif "D" in kinds:
            gotb = [struct.pack("<q", int(x)).hex() for x in np.asarray(got).astype("datetime64[us]").astype("int64")] if len(got) else []
            if gotb != exp_bytes or (len(got) and got.dtype != np.dtype("datetime64[us]")):
                out.append("channel %r: datetimes read back differ (%s)" % (key, got.dtype))
        else:
            gotb = canon.value_bytes(got)
            if gotb != exp_bytes:
                out.append("channel %r: values read back differ: %s vs %s" % (key, gotb[:5], exp_bytes[:5]))
            if exp_dtype is not None and got.dtype != exp_dtype:
                out.append("channel %r: dtype %s written, %s read" % (key, exp_dtype, got.dtype))
            if "S" in kinds and exp_bytes and got.dtype != np.dtype("O"):
                out.append("channel %r: strings read back with dtype %s" % (key, got.dtype))
        if len(cc) != len(got):
            out.append("channel %r: len %d but %d values" % (key, len(cc), len(got)))
    for key, pr in props.items():
        try:
            objr = fr if key == ("/",) else (fr[key[0]] if len(key) == 1 else fr[key[0]][key[1]])
            objc = fc if key == ("/",) else (fc[key[0]] if len(key) == 1 else fc[key[0]][key[1]])
        except KeyError as ex:
            out.append("object %r written but not found: %r" % (key, ex))
            continue
        for n, v in pr.items():
            if n not in objr.properties:
                out.append("property %r of %r missing" % (n, key))
            elif not prop_matches(v, objr.properties[n], objc.properties[n]):
                out.append("property %r of %r: wrote %r, read %r" % (n, key, v[:3], objr.properties[n]))
    # TDMS type of every property as written (strict parser on the real bytes), last write wins
    if model is not None and not out:
        st = model.ask("strict %s -" % hx(open(data, "rb").read() if isinstance(data, str) else data))
        if st.get("ok"):
            last = {}
            for seg in st["objects"]:
                for ob in seg:
                    for n, t, v in ob["props"]:
                        last[(ob["path"], n)] = t
            for key, pr in props.items():
                comps = [] if key == ("/",) else list(key)
                path = ("/" + "/".join("'" + c.replace("'", "''") + "'" for c in comps)).encode("utf-8").hex()
                for n, v in pr.items():
                    t = last.get((path, n.encode("utf-8").hex()))
                    if t != expected_type_code(v):
                        out.append("property %r of %r written with TDMS type %r, expected %r" % (n, key, t, expected_type_code(v)))
    return out


def type_change_probe(ctx, nptdms, stats):
    import tempfile
    from nptdms import TdmsWriter, ChannelObject, TdmsFile
    rnd = ctx.rnd
    out = []
    stats["type_change"] = 0
    arrays = {"int32": np.array([1, 2], dtype=np.int32), "uint8": np.array([3, 4], dtype=np.uint8), "float64": np.array([0.5], dtype=np.float64),
              "float32": np.array([1.5, 2.5], dtype=np.float32), "empty float64": np.array([], dtype=np.float64), "str": ["a", "b"],
              "datetime64": np.array(["2020-01-01T00:00:00"], dtype="datetime64[us]"), "complex64": np.array([1 + 2j], dtype=np.complex64)}
    tcode = dict(int32=3, uint8=5, float64=10, float32=9, str=0x20, datetime64=0x44, complex64=0x08000c)
    tcode["empty float64"] = 10
    names = sorted(arrays)
    for it in range(ctx.n(12, 200)):
        a, b = ("int32", "uint8") if it == 0 else rnd.sample(names, 2)
        if tcode[a] == tcode[b]:
            continue
        for across in (False, True):
            stats["type_change"] += 1
            d = tempfile.mkdtemp(prefix="nptdms_verif_c07_")
            p = os.path.join(d, "t.tdms")
            accepted, err = True, None
            try:
                if across:
                    with TdmsWriter(p) as w:
                        w.write_segment([ChannelObject("g", "c", arrays[a]), ChannelObject("g", "other", np.array([7, 8], dtype=np.int16))])
                    with TdmsWriter(p, mode="a") as w:
                        w.write_segment([ChannelObject("g", "c", arrays[b])])
                else:
                    with TdmsWriter(p) as w:
                        w.write_segment([ChannelObject("g", "c", arrays[a]), ChannelObject("g", "other", np.array([7, 8], dtype=np.int16))])
                        if it % 2:
                            # a write that carries no value and no type in between (it must not make the writer forget the type)
                            w.write_segment([ChannelObject("g", "c", np.array([], dtype=object))])
                        w.write_segment([ChannelObject("g", "c", arrays[b])])
            except Exception as ex:  # noqa: refused = not an accepted sequence
                accepted, err = False, ex
            if accepted:
                try:
                    f = TdmsFile.read(p)
                    got = list(f["g"]["c"][:])
                    ok = len(got) == len(arrays[a]) + len(arrays[b]) and [int(x) for x in f["g"]["other"][:]] == [7, 8]
                    why = "channel read back as %r" % (got[:6],)
                except Exception as ex:  # noqa
                    ok, why = False, "reading the file raised %s: %s" % (type(ex).__name__, str(ex)[:160])
                if not ok:
                    where = "in a second writer session (append mode)" if across else "in a later segment of the same writer session"
                    out.append(Violation("TdmsWriter accepted channel /'g'/'c' written as %s and then as %s %s; %s" % (a, b, where, why),
                                         dict(kind="type-change", first=a, second=b, across_sessions=across),
                                         signature="type-change-across-sessions" if across else None))
            shutil.rmtree(d, ignore_errors=True)
            if len([v for v in out if v.signature is None]) >= 2:
                return out
    # one line per known signature is enough
    seen, uniq = set(), []
    for v in out:
        if v.signature and v.signature in seen:
            continue
        seen.add(v.signature)
        uniq.append(v)
    return uniq


def long_session_probe(ctx, nptdms, stats):
    """One writer session of 101-130 segments (a size class the program generator does not reach): two channels whose per-segment
    counts agree for the first 100+ segments and differ afterwards; read back eagerly and lazily (channel a first, then b)."""
    from nptdms import TdmsWriter, ChannelObject, TdmsFile
    rnd = ctx.rnd
    out = []
    k = rnd.randint(100, 112)
    tail = rnd.randint(3, 18)
    a_parts, b_parts = [], []
    buf = io.BytesIO()
    with TdmsWriter(buf) as w:
        for i in range(k + tail):
            na = 2
            nb = 2 if i < k else rnd.choice([1, 3])
            a = np.array([rnd.randint(-999, 999) for _ in range(na)], dtype=np.int32)
            b = np.array([rnd.randint(-999, 999) for _ in range(nb)], dtype=np.int16)
            a_parts.append(a)
            b_parts.append(b)
            w.write_segment([ChannelObject("g", "a", a), ChannelObject("g", "b", b)])
    ea, eb = np.concatenate(a_parts), np.concatenate(b_parts)
    stats["long_sessions"] = stats.get("long_sessions", 0) + 1
    rp = dict(kind="long-session", segments=k + tail, first_difference=k, file=buf.getvalue().hex())
    try:
        fe = TdmsFile.read(io.BytesIO(buf.getvalue()))
        if not (np.array_equal(fe["g"]["a"][:], ea) and np.array_equal(fe["g"]["b"][:], eb)):
            out.append(Violation("write -> read: %d segments written in one session read back (TdmsFile.read) with other values" % (k + tail), rp))
        with TdmsFile.open(io.BytesIO(buf.getvalue())) as fl:
            la = fl["g"]["a"][:]
            chb = fl["g"]["b"]
            lb = chb[:]
            n = len(eb)
            probes = [("[:]", lb, eb), ("[%d:%d]" % (n - 12, n - 2), chb[n - 12:n - 2], eb[n - 12:n - 2]), ("[-1]", np.array([chb[-1]]), eb[-1:]),
                      ("[%d]" % (2 * k + 1), np.array([chb[2 * k + 1]]), eb[2 * k + 1:2 * k + 2])]
            if not np.array_equal(la, ea):
                out.append(Violation("write -> read: channel a of a %d-segment session read lazily differs from what was written" % (k + tail), rp))
            for label, g, e in probes:
                if not np.array_equal(np.asarray(g), e):
                    out.append(Violation("write -> read: channel b of a %d-segment session (counts differ from a's after segment %d), read lazily after a: %s gives %s, written %s" % (
                        k + tail, k, label, list(np.asarray(g))[:6], list(e)[:6]), rp))
                    break
    except Exception as ex:  # noqa
        out.append(Violation("write -> read: reading a %d-segment session raised %s: %s" % (k + tail, type(ex).__name__, str(ex)[:120]), rp))
    return out


def run(ctx):
    nptdms = ctx.nptdms()
    model = ctx.get_model() if ctx.build_ok else None
    disagreements, violations, samples = [], [], []
    stats = dict(programs=0, accepted=0, rejected=0, segments=0, infer=0)
    nontrivial = set()
    for i in range(ctx.n(500, 20000)):
        prog = gw.draw(ctx.rnd)
        version = ctx.rnd.choice([4712, 4713])
        stats["programs"] += 1
        full_line = gw.to_line(prog, version)
        full_prog = prog
        data, index, accepted_prog, n_rej, err = real_write_resilient(prog, nptdms, version)
        if n_rej:
            # some write_segment calls raised: the model must reject the full program too, and the calls that raised must have
            # been no-ops: everything below is checked against the program without them
            stats["rejected"] += 1
            stats["rejected_calls"] = stats.get("rejected_calls", 0) + n_rej
            mf = model.ask(full_line) if model is not None else None
            if mf is not None and mf.get("ok") and "ValueError" in gw.REJECTION_KINDS:
                disagreements.append(dict(what="real writer rejects a write_segment call but the model writes the whole program", program=full_line))
            prog = accepted_prog
        if not any(prog) and err is None:
            continue        # every call was rejected: nothing was written
        line = gw.to_line(prog, version)
        m = model.ask(line) if model is not None else None
        if err is not None:
            violations.append(Violation("TdmsWriter raised %s outside write_segment: %s" % (type(err).__name__, str(err)[:160]), dict(kind="program", program=full_line)))
            continue
        stats["accepted"] += 1
        stats["segments"] += sum(len(s) for s in prog)
        if m is not None:
            if not m.get("ok"):
                disagreements.append(dict(what="model rejects (%s) a program the real writer accepts" % m.get("err"), program=line))
            elif bytes.fromhex(m["data"]) != data:
                a, b = bytes.fromhex(m["data"]), data
                k = next((j for j in range(min(len(a), len(b))) if a[j] != b[j]), min(len(a), len(b)))
                disagreements.append(dict(what="data file bytes differ at offset %d (model %s, real %s)" % (k, a[k:k + 8].hex(), b[k:k + 8].hex()), program=line))
            elif bytes.fromhex(m["index"]) != index:
                disagreements.append(dict(what="index file bytes differ", program=line))
        tk = gw.type_change(prog)
        stats["type_changing_programs"] = stats.get("type_changing_programs", 0) + (tk is not None)
        if tk is not None:
            # accepted although a channel changes its data type: in-session = defect D19 back; across sessions = the known finding
            try:
                nptdms.TdmsFile.read(io.BytesIO(data))
                probs = []
            except Exception as ex:  # noqa
                probs = ["TdmsWriter accepted a channel written with two data types (%s); reading the file raised %s: %s" % (tk, type(ex).__name__, str(ex)[:120])]
            if probs and not any(v.signature for v in violations):
                violations.append(Violation("write -> read: " + probs[0], dict(kind="program", program=line, problems=probs, file=data.hex()),
                                            signature="type-change-across-sessions" if tk == "across" else None))
            continue
        probs = check_read_back(prog, data, nptdms, version, model)
        if not probs and i % 5 == 0:
            # the same program written to a path with index_file=True and read back THROUGH THE PATH (the reader then takes its metadata
            # from the index the writer produced)
            import tempfile
            d_ = tempfile.mkdtemp(prefix="nptdms_verif_c07_")
            try:
                pth = os.path.join(d_, "p.tdms")
                acc2, _rej2, err2 = gw.write_resilient(full_prog, nptdms, version, None, None, by_path=pth)
                if err2 is None and any(acc2):
                    stats["by_path_with_index"] = stats.get("by_path_with_index", 0) + 1
                    probs = ["(written to a path with index_file=True, read through the path) " + x for x in check_read_back(acc2, pth, nptdms, version, model)]
            finally:
                shutil.rmtree(d_, ignore_errors=True)
        if probs:
            violations.append(Violation("write -> read: " + probs[0], dict(kind="program", program=line, problems=probs[:5], file=data.hex())))
        if len(prog) > 1 or any(len(s) > 1 for s in prog):
            nontrivial.add(line)
        if len(samples) < 2 and len(line) < 600:
            samples.append(dict(program=line))
        if len(violations) >= 5 or len(disagreements) >= ctx.dis_limit:
            break
        if ctx.tier == "quick" and ctx.elapsed() > 40:
            break
    # a channel written with two different data types (the generator above keeps one type per channel): TDMS has one type per
    # channel, so the only way to honour "reading returns the concatenation of the arrays written, with the same dtype" is to
    # refuse the second write; an accepted sequence whose file cannot be read back is a violation
    violations += type_change_probe(ctx, nptdms, stats)
    for _ in range(ctx.n(2, 20)):
        violations += long_session_probe(ctx, nptdms, stats)
    # _infer_dtype: model vs real, and soundness on the real code
    from nptdms import writer as W
    for _ in range(ctx.n(600, 20000)):
        n = ctx.rnd.randint(1, 4)
        xs = [ctx.rnd.choice(gw.INT_EDGES + [ctx.rnd.randint(-2 ** 63, 2 ** 64 - 1), ctx.rnd.randint(-70000, 70000)]) for _ in range(n)]
        stats["infer"] += 1
        real = str(W._infer_dtype(xs))
        if model is not None:
            mm = model.ask("infer " + ",".join(str(x) for x in xs))
            if mm != real:
                disagreements.append(dict(what="_infer_dtype(%r): model %s real %s" % (xs, mm, real)))
        try:
            arr = np.array(xs, dtype=np.dtype(real))
            if [int(v) for v in arr] != xs:
                violations.append(Violation("_infer_dtype(%r) = %s does not hold the values" % (xs, real), dict(kind="infer", values=xs)))
        except OverflowError:
            pass
    return dict(violations=violations[:5], disagreements=disagreements[:20],
                coverage=dict(evaluations=stats["programs"] + stats["infer"], distinct_nontrivial=len(nontrivial),
                              rule="writer programs from harness/gen_writer.py: 1-3 sessions x 1-4 segments x root/group/channel objects; numpy arrays of 13 dtypes, "
                                   "string lists / object arrays, datetime64 arrays and datetime lists, integer lists over every _infer_dtype range, empty arrays; "
                                   "properties of every supported Python / numpy / wrapper type incl. boundaries 2^31, 2^63; versions 4712/4713; non-trivial = distinct "
                                   "accepted programs with several sessions or segments",
                              samples=samples or [dict(note="none short enough")], counts=stats))


def search(ctx, broken, disagreements):
    ctx.budget_factor = max(ctx.budget_factor, 4)
    return run(ctx)["violations"][:1]


def replay(ctx, path):
    import json
    with open(path) as f:
        rp = json.load(f)["replay"]
    nptdms = ctx.nptdms()
    data = bytes.fromhex(rp["file"])
    try:
        nptdms.TdmsFile.read(io.BytesIO(data))
        print("replay: the written file reads; problems recorded: %s" % rp.get("problems"))
    except Exception as ex:
        print("replay: reading raised %r" % ex)
    return 1
