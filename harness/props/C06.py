"""C06 — A file cut short by a crash reads as a prefix of the complete file.

Correspondence: reader model and lazy model on every prefix vs the real reader on the same prefix.
Oracle (real code only): no exception; every channel's values are a prefix of the uncut read and contain every
value of the segments lying wholly before the cut; len(channel) = number of values; lazy = eager; file_status
reports an incomplete final segment exactly when the cut falls inside a segment's raw data.
"""
import os
import sys

sys.path.insert(0, os.path.dirname(os.path.dirname(os.path.abspath(__file__))))
import canon
import gen_files
import gen_daqmx
import corr_lazy as cl
from corr_reader import compare_state
from framework import Violation
from leanio import hx

LEVEL = "proof"
ANCHOR_FILES = ["nptdms/reader.py", "nptdms/tdms_segment.py", "nptdms/base_segment.py", "nptdms/daqmx.py", "nptdms/tdms.py"]
ASSUMPTIONS = ["with the 'length unknown' marker the incomplete flag is always set, so the file_status clause is only checked for explicit offsets",
               "strings with the 'length unknown' marker are only claimed for single-chunk last segments (as the property states)"]
TRUSTED_EXTRA = ["harness/props/C06.py"]


def chan_values(r):
    out = {}
    for c in r["channels"]:
        out[c["path"]] = ("data", c["data"]) if c["data"] is not None or not c["scalers"] else ("scalers", canon.norm(c["scalers"]))
    return out


def is_prefix(a, b):
    """a prefix of b, for ('data', list) / ('scalers', [[id, list]])"""
    if a[0] != b[0]:
        return (a[1] or []) == [] or a[1] == [[k, []] for k, _ in (b[1] or [])]
    if a[0] == "data":
        x, y = a[1] or [], b[1] or []
        return x == y[:len(x)]
    da, db = dict((k, v) for k, v in a[1]), dict((k, v) for k, v in b[1])
    return all(v == db.get(k, [])[:len(v)] for k, v in da.items())


def nvals(v):
    if v[0] == "data":
        return len(v[1] or [])
    return len(v[1][0][1]) if v[1] else 0


def cut_offsets(rnd, data, segs_info, exhaustive):
    n = len(data)
    if len(segs_info) > 50:
        # long files: every offset of the last two segments and the boundary before them
        return list(range(max(4, segs_info[-2]["pos"] - 1), n + 1))
    if exhaustive or n <= 260:
        return list(range(4, n + 1))
    ks = set([4, 5, 27, 28, 29, n, n - 1])
    for s in segs_info:
        for b in (s["pos"], s["dataPos"], s["nextPos"]):
            for d in (-2, -1, 0, 1, 2):
                if 4 <= b + d <= n:
                    ks.add(b + d)
        raw = list(range(s["dataPos"], min(s["nextPos"], n) + 1))
        ks.update(raw if len(raw) <= 120 else rnd.sample(raw, 120))
    ks.update(rnd.randint(4, n) for _ in range(60))
    return sorted(ks)


def check_file(ctx, model, nptdms, data, stats, exhaustive, unknown_marker, string_multichunk_last):
    dis, vio = [], []
    full, _ = canon.real_read(data, nptdms)
    if not full.get("ok"):
        return dis, vio
    fullv = chan_values(full)
    segs = full["segments"]
    # per channel: number of values in segments wholly before a position
    for k in cut_offsets(ctx.rnd, data, segs, exhaustive):
        cd = data[:k]
        stats["cuts"] += 1
        r, f = canon.real_read(cd, nptdms)
        if model is not None:
            m = model.ask("read " + hx(cd))
            d = compare_state(m, r)
            if d:
                dis.append(dict(what="cut at %d: %s" % (k, d[0]), file=data.hex(), cut=k))
        if not r.get("ok"):
            vio.append(Violation("file cut at byte %d of %d: TdmsFile.read raised %s" % (k, len(data), r.get("exc")), dict(kind="cut", file=data.hex(), cut=k, mode="eager")))
            continue
        got = chan_values(r)
        skip_values = unknown_marker and string_multichunk_last
        whole = [s for s in segs if s["nextPos"] <= k]
        for p, v in got.items():
            fv = fullv.get(p, ("data", []))
            if not skip_values and not is_prefix(v, fv):
                vio.append(Violation("file cut at byte %d: values of %r are not a prefix of the complete file's values" % (k, bytes.fromhex(p)),
                                     dict(kind="cut", file=data.hex(), cut=k, mode="eager", path=p, got=v, full=fv)))
        # values of segments wholly before the cut: compare against the uncut file truncated at the last whole segment
        if whole and not skip_values:
            upto = whole[-1]["nextPos"]
            ref, _ = canon.real_read(data[:upto], nptdms)
            if ref.get("ok"):
                for p, v in chan_values(ref).items():
                    if nvals(got.get(p, ("data", []))) < nvals(v):
                        vio.append(Violation("file cut at byte %d: %r has fewer values than the segments lying wholly before the cut hold" % (k, bytes.fromhex(p)),
                                             dict(kind="cut", file=data.hex(), cut=k, mode="eager", path=p)))
        objs = {o["path"]: o for o in r["objects"]}
        for p, v in got.items():
            if objs[p]["numValues"] != nvals(v):
                vio.append(Violation("file cut at byte %d: len(%r)=%d but %d values are returned" % (k, bytes.fromhex(p), objs[p]["numValues"], nvals(v)),
                                     dict(kind="cut", file=data.hex(), cut=k, mode="eager", path=p)))
        # file_status
        if not unknown_marker:
            inside = any(s["dataPos"] <= k < s["nextPos"] for s in segs)
            st = f.file_status.incomplete_final_segment
            stats["status"] += 1
            if bool(st) != inside:
                vio.append(Violation("file cut at byte %d: file_status.incomplete_final_segment=%s but the cut %s inside a segment's raw data" % (
                    k, st, "falls" if inside else "does not fall"), dict(kind="cut", file=data.hex(), cut=k, mode="status")))
        # lazy = eager
        try:
            fl, stl = cl.open_real(cd, nptdms)
        except Exception as ex:
            vio.append(Violation("file cut at byte %d: TdmsFile.open raised %r" % (k, ex), dict(kind="cut", file=data.hex(), cut=k, mode="lazy")))
            continue
        for ch in cl.channels_of(fl):
            p = ch.path.encode("utf-8")
            stats["lazy"] += 1
            real = cl.call(lambda: ch.read_data(scaled=False))
            ev = got.get(p.hex(), ("data", []))
            if real[0] != "ok":
                vio.append(Violation("file cut at byte %d: lazy read of %r raised %s (eager read succeeds)" % (k, p, real[2]), dict(kind="cut", file=data.hex(), cut=k, mode="lazy", path=p.hex())))
                continue
            rc = cl.canon_out(real[1])
            lv = ("data", rc["data"]) if rc["data"] is not None else ("scalers", canon.norm(rc["scalers"]))
            if (lv[1] or []) != (ev[1] or []) and not (lv[0] != ev[0] and nvals(lv) == 0 and nvals(ev) == 0):
                vio.append(Violation("file cut at byte %d: lazy and eager reads of %r differ" % (k, p), dict(kind="cut", file=data.hex(), cut=k, mode="lazy", path=p.hex(), lazy=lv, eager=ev)))
            if len(ch) != nvals(lv):
                vio.append(Violation("file cut at byte %d (lazy): len(%r)=%d but %d values" % (k, p, len(ch), nvals(lv)), dict(kind="cut", file=data.hex(), cut=k, mode="lazy", path=p.hex())))
            # the same channel again on the same open file (whatever the first read left behind must not change the second), after
            # touching its tail through the integer index
            if rc["data"] is not None and len(ch) > 0 and stats["lazy"] % 2 == 0:
                last = cl.call(lambda: ch[len(ch) - 1])
                again = cl.call(lambda: ch.read_data(scaled=False))
                if again[0] != "ok" or (cl.canon_out(again[1])["data"] or []) != (rc["data"] or []):
                    vio.append(Violation("file cut at byte %d: a second lazy read of %r on the same open file differs from the first (%s)" % (
                        k, p, again[2] if again[0] != "ok" else "values differ"), dict(kind="cut", file=data.hex(), cut=k, mode="lazy-again", path=p.hex())))
                elif last[0] != "ok":
                    vio.append(Violation("file cut at byte %d: %r[len-1] raised %s" % (k, p, last[2]), dict(kind="cut", file=data.hex(), cut=k, mode="lazy-again", path=p.hex())))
            if model is not None and stats["lazy"] % 3 == 0:
                mm = model.ask("wins %s %s 0:N" % (hx(cd), hx(p)))
                if mm.get("ok"):
                    x = mm["results"][0]
                    mo = x.get("out") or dict(data=[], scalers=[])
                    if "err" in x or (mo["data"] or []) != (rc["data"] or []) or canon.norm(mo["scalers"]) != canon.norm(rc["scalers"]):
                        dis.append(dict(what="cut at %d: lazy model read of %r differs: %s" % (k, p, str(x)[:100]), file=data.hex(), cut=k))
        if len(vio) > 4 or len(dis) > 10:
            break
    return dis, vio


def templates(rnd):
    """Small files of the shapes where truncation handling branches (each found the hard way: defects D9, D12, D17 and the seeded
    changes): several chunks with a string channel before / after fixed-width channels, wide before narrow types, interleaved rows,
    a metadata-only last segment, a last segment without metadata, DAQmx objects spread over several raw buffers. Parameters are
    drawn from the PRNG; every template file is cut at EVERY offset."""
    import struct as st
    from gen_files import path_of, STD_TYPES
    fg = gen_files.FileGen(rnd)

    def seg(objs, chunks, **kw):
        d = dict(hasMeta=True, newList=True, interleaved=False, big=rnd.random() < 0.3, rawFlag=True, daqmxFlag=False, lengthUnknown=False,
                 version=4713, padding=0, objs=objs, chunks=chunks)
        d.update(kw)
        return d

    def chan(name, ty, n, payload=0):
        return dict(path=path_of("g", name), idx=("F", ty, n, 4 * n + payload if ty == 0x20 else 0), props=[])

    def values(ob):
        _, ty, n, total = ob["idx"]
        if ty == 0x20:
            return fg._strings(n, total - 4 * n)
        return [gen_files.rand_value(rnd, ty) for _ in range(n)]

    out = []
    for _ in range(3):
        # strings among fixed-width channels, 2-3 chunks, every order
        objs = [chan("s", 0x20, rnd.randint(1, 2), rnd.randint(1, 5)), chan("i", 3, rnd.randint(1, 3)), chan("b", 1, rnd.randint(1, 3))]
        rnd.shuffle(objs)
        objs = objs[:rnd.choice([2, 3])] if any(o["idx"][1] == 0x20 for o in objs[:2]) else objs
        out.append(("strings+fixed", [seg(objs, [[values(o) for o in objs] for _ in range(rnd.randint(2, 3))])]))
    for _ in range(3):
        # wide before narrow and narrow before wide, no strings
        objs = [chan("q", 4, rnd.randint(1, 2)), chan("b", 5, rnd.randint(1, 3)), chan("h", 2, rnd.randint(1, 2))]
        rnd.shuffle(objs)
        out.append(("wide/narrow", [seg(objs, [[values(o) for o in objs] for _ in range(rnd.randint(2, 3))])]))
    n = rnd.randint(1, 3)
    objs = [chan("q", 4, n), chan("b", 5, n), chan("f", 9, n)]
    rnd.shuffle(objs)
    out.append(("interleaved", [seg(objs, [[values(o) for o in objs] for _ in range(rnd.randint(1, 3))], interleaved=True)]))
    # the interleaved flag on a segment whose only channel holds strings (strings cannot be interleaved; with one channel the bytes
    # are those of a contiguous segment and the reader accepts them)
    for _ in range(2):
        objs = [chan("s", 0x20, rnd.randint(2, 6), rnd.randint(2, 12))]
        # (encoded as a contiguous segment — for one channel the bytes are the same — and the flag set in the lead-in afterwards: the
        # spec encoder does not lay out interleaved strings)
        out.append(("interleaved flag, lone string channel", [seg(objs, [[values(o) for o in objs] for _ in range(rnd.randint(1, 2))], interleaved=False)]))
    # data segment followed by a metadata-only segment / by a segment without metadata
    objs = [chan("i", 3, 2), chan("d", 10, 1)]
    first = seg(objs, [[values(o) for o in objs] for _ in range(2)], big=False)
    root = dict(path=path_of(), idx=("N",), props=[gen_files.rand_prop(rnd) for _ in range(2)])
    out.append(("metadata-only last segment", [first, seg([root], [], big=False, newList=False, rawFlag=rnd.random() < 0.5)]))
    out.append(("last segment without metadata", [first, seg([], [[values(o) for o in objs] for _ in range(rnd.randint(1, 2))], big=False, hasMeta=False, newList=False)]))
    # DAQmx: prefer several raw buffers with an object whose scalers live in different buffers
    best = None
    for _ in range(40):
        d = gen_daqmx.draw(rnd)
        idx = [ob["idx"] for s_ in d for ob in s_["objs"] if ob["idx"][0] == "D"]
        spread = any(len(set(sc[1] for sc in ix[4])) > 1 for ix in idx)
        if idx and len(idx[0][5]) > 1 and any(s_["chunks"] for s_ in d):
            best = d
            if spread:
                break
    if best is not None:
        out.append(("daqmx multi-buffer", best))
    # a size class: more than 100 segments (the reader compares per-channel offset arrays in blocks of 100 entries); only the tail is cut
    k = rnd.randint(101, 105)
    objs = [chan("a", 2, 2), chan("b", 2, 2)]
    long_ = [seg(objs, [[values(o) for o in objs]], big=False)]
    for _ in range(k - 1):
        long_.append(seg([], [[values(o) for o in objs]], big=False, hasMeta=False, newList=False))
    out.append(("more than 100 segments (tail cuts)", long_))
    return out


def run(ctx):
    nptdms = ctx.nptdms()
    model = ctx.get_model() if ctx.build_ok else None
    if model is None:
        return dict(coverage=dict(evaluations=0, distinct_nontrivial=0, rule="model unavailable", samples=[]))
    stats = dict(files=0, cuts=0, lazy=0, status=0, daqmx=0, unknown_marker=0, templates=0)
    disagreements, violations, samples = [], [], []
    feats = {}
    nontrivial = 0
    for rounds in range(1 if ctx.tier == "quick" else 12):
        for label, segs in templates(ctx.rnd):
            e = model.ask(gen_files.to_line(segs))
            tmodel = model
            if e.get("ok") and e.get("wf") and label.startswith("interleaved flag"):
                # outside the spec's well-formed files (strings cannot be interleaved) but read by the reader: the cut-file oracle
                # (prefix of the complete read) applies on the real code alone, without the model
                tmodel = None
                b_ = bytearray(bytes.fromhex(e["file"]))
                b_[4] |= 0x20           # kTocInterleavedData in the (single) segment's ToC mask
                e = dict(e, file=bytes(b_).hex())
            elif not e.get("ok") or not e.get("wf"):
                ctx.notes.append("template %r is not a well-formed encoding: %s" % (label, str(e)[:80]))
                continue
            stats["templates"] += 1
            feats["template " + label] = feats.get("template " + label, 0) + 1
            d, v = check_file(ctx, tmodel, nptdms, bytes.fromhex(e["file"]), stats, True, False, False)
            for x in v:
                x.what = "[template %s] %s" % (label, x.what)
            disagreements += d
            violations += v
    for i in range(ctx.n(200, 2000)):
        if len(violations) >= 5:
            break
        daq = i % 6 == 5
        if daq:
            segs = gen_daqmx.draw(ctx.rnd)
        else:
            segs = gen_files.FileGen(ctx.rnd, max_segs=4, max_paths=3, max_n=4, allow_unknown=True).draw()
        e = model.ask(gen_files.to_line(segs))
        if not e.get("ok") or not e.get("wf"):
            continue
        data = bytes.fromhex(e["file"])
        unknown = segs[-1]["lengthUnknown"]
        str_multi = any(ob["ty"] == 0x20 for ob in e["content"]) and len(segs[-1]["chunks"]) > 1
        stats["files"] += 1
        stats["daqmx"] += daq
        stats["unknown_marker"] += unknown
        d, v = check_file(ctx, model, nptdms, data, stats, ctx.tier == "thorough" or i % 5 == 0, unknown, str_multi)
        disagreements += d
        violations += v
        f = gen_files.features(segs)
        for t in f:
            feats[t] = feats.get(t, 0) + 1
        if any(s["chunks"] for s in segs):
            nontrivial += 1
        if len(samples) < 2 and len(data) < 300:
            samples.append(dict(encoding=gen_files.to_line(segs), cuts="4..%d" % len(data)))
        if len(violations) >= 5 or len(disagreements) >= ctx.dis_limit:
            break
        if ctx.tier == "quick" and ctx.elapsed() > 45:
            ctx.notes.append("stopped after %d files (time budget)" % stats["files"])
            break
    return dict(violations=violations[:5], disagreements=disagreements[:20],
                coverage=dict(evaluations=stats["cuts"] + stats["lazy"], distinct_nontrivial=nontrivial,
                              rule="template files first (strings among fixed-width channels, wide/narrow types, interleaved, metadata-only last segment, last "
                                   "segment without metadata, DAQmx over several raw buffers, the interleaved flag on a lone string channel (real code only: outside the spec's well-formed files); every offset); then generated files (standard, every sixth DAQmx; up to 4 segments; explicit next-segment offset or the length-unknown marker) cut at every "
                                   "byte offset 4..len for small files / every fifth file / thorough tier, otherwise at all offsets inside raw data (sampled above 120), all "
                                   "lead-in/metadata/segment boundaries +-2 and 60 random offsets; eager and lazy; non-trivial = files holding raw data",
                              samples=samples or [dict(note="see feature_counts")], counts=stats, feature_counts=dict(sorted(feats.items()))))


def search(ctx, broken, disagreements):
    ctx.budget_factor = max(ctx.budget_factor, 3)
    return run(ctx)["violations"][:1]


def replay(ctx, path):
    import json
    with open(path) as f:
        rp = json.load(f)["replay"]
    nptdms = ctx.nptdms()
    data = bytes.fromhex(rp["file"])
    stats = dict(files=0, cuts=0, lazy=0, status=0)
    ctx.rnd.seed(0)
    # re-check exactly this cut
    import props.C06 as me
    old = me.cut_offsets
    me.cut_offsets = lambda rnd, d, s, ex: [rp["cut"]]
    try:
        _, v = check_file(ctx, None, nptdms, data, stats, True, False, False)
    finally:
        me.cut_offsets = old
    print("replay: %s" % ([x.what for x in v[:3]] or "property holds at this cut"))
    return 1 if v else 0


def corpus(ctx, entry):
    rp = entry["replay"]
    import props.C06 as me
    old = me.cut_offsets
    k = rp["cut"]
    me.cut_offsets = lambda rnd, d, s, ex: [c for c in (k - 1, k, k + 1) if 4 <= c <= len(d)]
    try:
        return check_file(ctx, ctx.get_model() if ctx.build_ok else None, ctx.nptdms(), bytes.fromhex(rp["file"]), dict(files=0, cuts=0, lazy=0, status=0), True, False, False)
    finally:
        me.cut_offsets = old
