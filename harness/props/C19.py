"""C19 — Partial reads touch only the part of the file they need.

Correspondence: the Lean model's I/O trace of `read_data(off,len)`, slices and index reads vs the byte
ranges a recording stream sees under the real `TdmsFile.open`.
Oracle (real code only, no model): every fetched range lies inside the 4-byte tags of the segments from the
first to the last one holding a requested value, or inside the raw data of a chunk that overlaps the request
(contiguous layout: only the requested channel's bytes in that chunk); a cached index read fetches nothing.
"""
import os
import sys

sys.path.insert(0, os.path.dirname(os.path.dirname(os.path.abspath(__file__))))
import canon
import gen_files
import corr_lazy as cl
from framework import Violation
from leanio import hx
from props.lazy_common import FileStream, ANCHOR_FILES, RULE_FILES  # noqa

LEVEL = "proof"
ASSUMPTIONS = ["bytes are observed at the stream handed to TdmsFile.open; OS-level buffering below a real file object is not observed",
               "an empty request positioned inside a chunk may fetch that one chunk (it overlaps the closed position); anything else must fetch no raw data"]
TRUSTED_EXTRA = ["harness/corr_lazy.py RecordingStream", "the bound formula in harness/props/C19.py (uses only the segment table of the real reader)"]


def chunk_table(f, ch):
    """[(first value index, last+1, seg index, allowed byte ranges)] for every chunk holding values of ch,
    from the real reader's segment table"""
    path = ch.path
    out = []
    idx = 0
    for si, s in enumerate(f._reader._segments):
        objs = [o for o in s.ordered_objects if o.has_data]
        o = None
        for cand in s.ordered_objects:
            if cand.path == path:
                o = cand
        if o is None or not o.has_data or o.number_values == 0:
            continue
        csize = s._get_chunk_size()
        ov = s.final_chunk_lengths_override
        daq = s._have_daqmx_objects()
        inter = (not daq) and s._have_interleaved_data()
        for j in range(s.num_chunks):
            last = ov is not None and j == s.num_chunks - 1
            n = ov.get(path, 0) if last else o.number_values
            start = s.data_position + j * csize
            if daq or inter:
                if inter:
                    # interleaved segments are read in one go: every chunk is counted separately here
                    rng = [(start, min(start + csize, s.next_segment_pos))]
                else:
                    rng = [(start, min(start + csize, s.next_segment_pos))]
            else:
                pre = 0
                for q in objs:
                    if q is o:
                        break
                    qn = ov.get(q.path, 0) if last else q.number_values
                    pre += q.data_size if qn == q.number_values else (q.data_type.size or 0) * qn
                size = (o.data_size if n == o.number_values else 0) if o.data_type.size is None else o.data_type.size * n
                rng = [(start + pre, start + pre + size)]
            out.append((idx, idx + n, si, rng))
            idx += n
    return out


def allowed_ranges(f, table, off, end):
    hi = max(end, off + 1)
    hit = [t for t in table if t[0] < hi and t[1] > off and t[1] > t[0]]
    if not hit:
        return []
    segs = f._reader._segments
    s0, s1 = min(t[2] for t in hit), max(t[2] for t in hit)
    al = [(segs[i].position, segs[i].position + 4) for i in range(s0, s1 + 1)]
    for t in hit:
        al += t[3]
    return cl.merge_ranges([(a, b - a) for a, b in al])


def within(fetched, allowed):
    for a, b in fetched:
        if not any(x <= a and b <= y for x, y in allowed):
            return (a, b)
    return None


def check_file(ctx, model, nptdms, data, stats, exhaustive):
    dis, vio = [], []
    try:
        f, st = cl.open_real(data, nptdms)
    except Exception:
        return dis, vio
    for ch in cl.channels_of(f):
        if ch.data_type is None:
            continue
        p = ch.path.encode("utf-8")
        n = len(ch)
        table = chunk_table(f, ch)
        ws = cl.windows_for(n, ctx.rnd, exhaustive and n <= 8, sample=30)
        # one-value windows at the first and last value of the first two and the last four chunks (where per-channel segment
        # offsets of long files differ between channels)
        for t in table[:2] + table[-4:]:
            if t[1] > t[0]:
                ws += [w for w in ((t[0], 1), (t[1] - 1, 1)) if w not in ws]
        mres = None
        if model is not None:
            r = model.ask("wins %s %s %s" % (hx(data), hx(p), " ".join("%d:%s" % (o, cl.tok(l)) for o, l in ws)))
            mres = r.get("results") if r.get("ok") else None
        for k, (o, l) in enumerate(ws):
            st.take_log()
            real = cl.call(lambda: ch.read_data(o, l, scaled=False))
            fetched = cl.merge_ranges(st.take_log())
            stats["windows"] += 1
            if real[0] != "ok":
                continue
            end = n if l is None else min(o + l, n)
            al = allowed_ranges(f, table, o, max(end, o))
            bad = within(fetched, al)
            if fetched and len(al) and sum(b - a for a, b in fetched) > 0:
                stats["nonempty"] += 1
            if bad:
                vio.append(Violation("read_data(%d,%s) of %r fetched bytes [%d,%d) outside the chunks overlapping the request" % (o, l, p, bad[0], bad[1]),
                                     dict(kind="window", file=data.hex(), path=p.hex(), offset=o, length=l, fetched=fetched, allowed=al)))
            if mres is not None and "trace" in mres[k] and cl.merge_ranges(mres[k]["trace"]) != fetched:
                dis.append(dict(what="I/O trace of window (%d,%s) of %r differs" % (o, l, p), model=cl.merge_ranges(mres[k]["trace"]), real=fetched, file=data.hex()))
        # index reads: one chunk; then a second read of the same chunk: nothing
        for i in (list(range(n)) if n <= 12 else ctx.rnd.sample(range(n), 12)):
            f2, st2 = cl.open_real(data, nptdms)
            ch2 = [c for c in cl.channels_of(f2) if c.path == ch.path][0]
            st2.take_log()
            # the same position written as a negative index every other time
            i_arg = i - n if (i + len(p)) % 2 else i
            r1 = cl.call(lambda: ch2[i_arg])
            fetched = cl.merge_ranges(st2.take_log())
            stats["indices"] += 1
            if r1[0] != "ok":
                continue
            tb = [t for t in table if t[0] <= i < t[1]]
            al = allowed_ranges(f, tb, i, i + 1) if tb else []
            bad = within(fetched, al)
            if bad:
                vio.append(Violation("channel[%d] of %r fetched bytes [%d,%d) outside the chunk holding the index" % (i, p, bad[0], bad[1]),
                                     dict(kind="index", file=data.hex(), path=p.hex(), index=i, fetched=fetched, allowed=al)))
            if tb:
                j = ctx.rnd.randrange(tb[0][0], tb[0][1])
                j_arg = j - n if ctx.rnd.random() < 0.5 else j
                st2.take_log()
                cl.call(lambda: ch2[j_arg])
                again = cl.merge_ranges(st2.take_log())
                stats["cached"] += 1
                if again:
                    vio.append(Violation("channel[%d] after channel[%d] (same chunk) fetched %s instead of using the cached chunk" % (j_arg, i_arg, again),
                                         dict(kind="cache", file=data.hex(), path=p.hex(), index=i_arg, second=j_arg, fetched=again)))
    return dis, vio


def run(ctx):
    nptdms = ctx.nptdms()
    model = ctx.get_model() if ctx.build_ok else None
    if model is None:
        return dict(coverage=dict(evaluations=0, distinct_nontrivial=0, rule="model unavailable", samples=[]))
    stats = dict(windows=0, indices=0, cached=0, nonempty=0)
    fs = FileStream(ctx, model, ctx.n(300, 12000), max_n=4)
    disagreements, violations, samples = [], [], []
    for i, segs, e, data, feats, new in fs:
        d, v = check_file(ctx, model, nptdms, data, stats, ctx.tier == "thorough" or i % 3 == 0)
        disagreements += d
        violations += v
        # the same file cut inside its last segment's raw data (truncated final chunk): all windows, exhaustive
        if i % 2 == 0 and len(data) > 40:
            try:
                last = nptdms.TdmsFile.open(cl.RecordingStream(data))._reader._segments[-1]
                lo, hi = last.data_position + 1, last.next_segment_pos - 1
            except Exception:
                lo, hi = 1, 0
            if lo <= hi:
                for k in sorted(set(ctx.rnd.randint(lo, hi) for _ in range(3))):
                    stats["truncated_files"] = stats.get("truncated_files", 0) + 1
                    d, v = check_file(ctx, model, nptdms, data[:k], stats, True)
                    for x in v:
                        x.what = "file cut at byte %d: %s" % (k, x.what)
                    disagreements += d
                    violations += v
        if len(samples) < 2 and len(data) < 300:
            samples.append(dict(encoding=gen_files.to_line(segs)))
        if len(violations) >= 5 or len(disagreements) >= ctx.dis_limit:
            break
        if ctx.tier == "quick" and ctx.elapsed() > 45:
            ctx.notes.append("stopped after %d files (time budget)" % fs.drawn)
            break
    return dict(violations=violations, disagreements=disagreements,
                coverage=dict(evaluations=stats["windows"] + stats["indices"] + stats["cached"], distinct_nontrivial=stats["nonempty"],
                              rule=RULE_FILES + "; per channel windows (off,len) (exhaustive for small channels on every third file), index reads on fresh files "
                                   "followed by a second index into the same chunk (positions written as negative indices half of the time); every second file additionally cut at up to 3 offsets inside its last segment's raw data with all windows; non-trivial = requests that fetched raw data and had a non-empty allowed set",
                              samples=samples, files=fs.drawn, requests=stats, feature_counts=dict(sorted(fs.feats.items()))))


def search(ctx, broken, disagreements):
    nptdms = ctx.nptdms()
    if not ctx.build_ok:
        return []
    model = ctx.get_model()
    stats = dict(windows=0, indices=0, cached=0, nonempty=0)
    for i, segs, e, data, feats, new in FileStream(ctx, model, ctx.n(600, 3000), max_n=4):
        _, v = check_file(ctx, None, nptdms, data, stats, True)
        if v:
            return v[:1]
    return []


def replay(ctx, path):
    import json
    with open(path) as f:
        rp = json.load(f)["replay"]
    stats = dict(windows=0, indices=0, cached=0, nonempty=0)
    _, v = check_file(ctx, None, ctx.nptdms(), bytes.fromhex(rp["file"]), stats, True)
    print("replay: %s" % ([x.what for x in v[:3]] or "property holds on this file"))
    return 1 if v else 0


def corpus(ctx, entry):
    stats = dict(windows=0, indices=0, cached=0, nonempty=0)
    return check_file(ctx, ctx.get_model() if ctx.build_ok else None, ctx.nptdms(), bytes.fromhex(entry["replay"]["file"]), stats, True)
