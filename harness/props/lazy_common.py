"""shared by C03, C04, C05, C19 (and C06/C11): drawing well-formed files through the Lean encoder"""
import hashlib
import os
import sys

sys.path.insert(0, os.path.dirname(os.path.dirname(os.path.abspath(__file__))))
import canon
import gen_files
import corr_lazy as cl

ANCHOR_FILES = ["nptdms/reader.py", "nptdms/tdms_segment.py", "nptdms/base_segment.py", "nptdms/tdms.py",
                "nptdms/channel_data.py", "nptdms/daqmx.py"]

RULE_FILES = ("files drawn by harness/gen_files.py and encoded by the Lean spec encoder (1-6 segments, 1-4 channels over the 17 "
              "readable types, all header kinds, new-list / no-metadata flags, 0-3 chunks, contiguous and interleaved, per-segment "
              "byte order, properties), preceded by one file of 103-120 segments with two channels whose offset arrays agree in the first 100 entries")


def many_segments(rnd):
    """A size class the random generator never reaches: two channels present in more than 100 segments whose per-segment value
    counts agree for the first K >= 101 segments and differ afterwards while the totals agree (the reader compares the cumulative
    offset arrays of channels in blocks of 100 entries when it de-duplicates them)."""
    import struct
    pa, pb = gen_files.path_of("g", "a"), gen_files.path_of("g", "b")
    k = rnd.randint(101, 118)
    base = dict(interleaved=False, big=False, rawFlag=True, daqmxFlag=False, lengthUnknown=False, version=4713, padding=0)
    val = lambda: struct.pack("<h", rnd.randint(-30000, 30000))
    segs = [dict(base, hasMeta=True, newList=True, objs=[dict(path=pa, idx=("F", 2, 1, 0), props=[]), dict(path=pb, idx=("F", 2, 1, 0), props=[])],
                 chunks=[[[val()], [val()]]])]
    for _ in range(k - 1):
        segs.append(dict(base, hasMeta=False, newList=False, objs=[], chunks=[[[val()], [val()]]]))
    # both channels keep data up to the last segment (the offset arrays end at a channel's last segment with data and must have
    # the same length to be compared at all): ... 1,1 | 2,1 | 1,2
    segs.append(dict(base, hasMeta=True, newList=False, objs=[dict(path=pa, idx=("F", 2, 2, 0), props=[]), dict(path=pb, idx=("F", 2, 1, 0), props=[])],
                     chunks=[[[val(), val()], [val()]]]))
    segs.append(dict(base, hasMeta=True, newList=False, objs=[dict(path=pa, idx=("F", 2, 1, 0), props=[]), dict(path=pb, idx=("F", 2, 2, 0), props=[])],
                     chunks=[[[val()], [val(), val()]]]))
    return segs


def repeated_metadata(rnd):
    """byte-identical metadata blocks in non-adjacent segments whose meaning differs: `matches previous` headers after the raw data
    index changed in between (a parse must not be identified by its bytes)"""
    import struct
    pa, pb = gen_files.path_of("g", "a"), gen_files.path_of("g", "b")
    base = dict(interleaved=False, big=rnd.random() < 0.3, rawFlag=True, daqmxFlag=False, lengthUnknown=False, version=4713, padding=0, hasMeta=True)
    val = lambda n: [struct.pack("<i", rnd.randint(-999, 999)) for _ in range(n)]  # noqa
    new_list = rnd.random() < 0.7
    segs = []
    na, nb = rnd.randint(1, 4), rnd.randint(1, 4)
    for rnd_ in range(rnd.randint(2, 3)):
        full = dict(base, newList=True, objs=[dict(path=pa, idx=("F", 3, na, 0), props=[]), dict(path=pb, idx=("F", 3, nb, 0), props=[])],
                    chunks=[[val(na), val(nb)] for _ in range(rnd.randint(1, 2))])
        same = dict(base, newList=new_list, objs=[dict(path=pa, idx=("M",), props=[]), dict(path=pb, idx=("M",), props=[])],
                    chunks=[[val(na), val(nb)] for _ in range(rnd.randint(1, 2))])
        segs += [full, same]
        na, nb = na + rnd.randint(1, 3), max(1, nb + rnd.choice([-1, 1, 2]))
    return segs


class FileStream:
    """iterates well-formed generated files: yields (index, segs, enc_json, data bytes, feature set)"""

    def __init__(self, ctx, model, n, **opts):
        self.ctx, self.model, self.n, self.opts = ctx, model, n, opts
        self.feats = {}
        self.drawn = 0
        self.seen = set()
        self.distinct = 0

    def __iter__(self):
        first = [many_segments(self.ctx.rnd), repeated_metadata(self.ctx.rnd)]
        for i in range(-len(first), self.n):
            segs = first[i] if i < 0 else gen_files.FileGen(self.ctx.rnd, **self.opts).draw()
            e = self.model.ask(gen_files.to_line(segs))
            self.drawn += 1
            if not e.get("ok") or not e.get("wf"):
                continue
            data = bytes.fromhex(e["file"])
            f = gen_files.features(segs)
            for t in f:
                self.feats[t] = self.feats.get(t, 0) + 1
            h = hashlib.sha1(data).digest()
            new = h not in self.seen
            self.seen.add(h)
            yield i, segs, e, data, f, new


def eager_values(data, nptdms):
    """{path hex: list of value hex} from a real eager read with raw timestamps (None on failure)"""
    r, f = canon.real_read(data, nptdms)
    if not r.get("ok"):
        return None, r
    return {c["path"]: (c["data"], c["scalers"]) for c in r["channels"]}, r
