"""shared by C03, C04, C05, C19 (and C06/C11): drawing well-formed files through the Lean encoder"""
import hashlib
import os
import sys

sys.path.insert(0, os.path.dirname(os.path.dirname(os.path.abspath(__file__))))
import canon
import gen_files
import corr_lazy as cl

ANCHOR_FILES = ["nptdms/reader.py", "nptdms/tdms_segment.py", "nptdms/base_segment.py", "nptdms/tdms.py",
                "nptdms/channel_data.py", "nptdms/daqmx.py"]

RULE_FILES = ("files drawn by harness/gen_files.py and encoded by the Lean spec encoder (1-6 segments, 1-4 channels over the 17 "
              "readable types, all header kinds, new-list / no-metadata flags, 0-3 chunks, contiguous and interleaved, per-segment "
              "byte order, properties)")


class FileStream:
    """iterates well-formed generated files: yields (index, segs, enc_json, data bytes, feature set)"""

    def __init__(self, ctx, model, n, **opts):
        self.ctx, self.model, self.n, self.opts = ctx, model, n, opts
        self.feats = {}
        self.drawn = 0
        self.seen = set()
        self.distinct = 0

    def __iter__(self):
        for i in range(self.n):
            segs = gen_files.FileGen(self.ctx.rnd, **self.opts).draw()
            e = self.model.ask(gen_files.to_line(segs))
            self.drawn += 1
            if not e.get("ok") or not e.get("wf"):
                continue
            data = bytes.fromhex(e["file"])
            f = gen_files.features(segs)
            for t in f:
                self.feats[t] = self.feats.get(t, 0) + 1
            h = hashlib.sha1(data).digest()
            new = h not in self.seen
            self.seen.add(h)
            yield i, segs, e, data, f, new


def eager_values(data, nptdms):
    """{path hex: list of value hex} from a real eager read with raw timestamps (None on failure)"""
    r, f = canon.real_read(data, nptdms)
    if not r.get("ok"):
        return None, r
    return {c["path"]: (c["data"], c["scalers"]) for c in r["channels"]}, r
