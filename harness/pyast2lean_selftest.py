#!/venv/bin/python
"""Self test of the code translator (harness/pyast2lean.py) and of the `…_tied` theorems.

For every target group a list of SEMANTIC mutations (`>=` -> `>`, `//` -> `%`, dropped `break`, off-by-one, …)
and of COSMETIC edits (comments, docstrings, log lines, renamed locals) is applied to an in-memory copy of
the npTDMS source text (never to /repo); `Code.lean` is regenerated from the edited text into a scratch copy
of the lake project and the tied theorems of the group are rebuilt there.

  expected:  semantic  -> the tie breaks  (translator raises Untranslatable, or `lake build` of the property fails)
             cosmetic  -> the tie holds   (`lake build` succeeds; "same" = Code.lean did not even change)

usage: pyast2lean_selftest.py [--jobs N] [--only C06,C11] [--keep]
"""
import argparse
import ast
import concurrent.futures
import os
import re
import shutil
import subprocess
import sys
import time

HERE = os.path.dirname(os.path.abspath(__file__))
sys.path.insert(0, HERE)
import pyast2lean  # noqa: E402

REPO = os.environ.get("NPTDMS_REPO", "/repo")
LEAN = os.path.join(os.path.dirname(HERE), "lean")
SCRATCH = os.path.join(os.environ.get("TMPDIR", "/tmp"), "nptdms_verif_tied_selftest")  # removed at the end of the run

SEG, DAQ, RD, TD, CM, TS, TY = ("nptdms/tdms_segment.py", "nptdms/daqmx.py", "nptdms/reader.py", "nptdms/tdms.py",
                                "nptdms/common.py", "nptdms/timestamp.py", "nptdms/types.py")


def sub(old, new, count=1):
    """replace the only occurrence (or the `count`-th of several when count < 0: -k = k-th occurrence)"""
    def f(text):
        n = text.count(old)
        if count >= 1:
            assert n == count, "pattern %r occurs %d times, expected %d" % (old, n, count)
            return text.replace(old, new)
        k = -count
        assert n >= k, "pattern %r occurs %d times, need at least %d" % (old, n, k)
        parts = text.split(old)
        return old.join(parts[:k]) + new + old.join(parts[k:])
    return f


def in_function(qualname, edit):
    """apply `edit` to the source text of one function only"""
    def f(text):
        tree = ast.parse(text)
        cls, _, name = qualname.rpartition(".")
        body = tree.body
        if cls:
            body = [n for n in body if isinstance(n, ast.ClassDef) and n.name == cls][0].body
        fn = [n for n in body if isinstance(n, ast.FunctionDef) and n.name == name][0]
        lines = text.split("\n")
        a, b = fn.lineno - 1, fn.end_lineno
        return "\n".join(lines[:a] + edit("\n".join(lines[a:b])).split("\n") + lines[b:])
    return f


def rename(qualname, old, new):
    # local names only: not attributes (`x.old`) and not keyword arguments
    return in_function(qualname, lambda t: re.sub(r"(?<![\w.])%s\b(?!\s*=[^=])|(?<![\w.])%s\b(?=\s*=[^=])" % (re.escape(old), re.escape(old)), new, t))


def after_line(qualname, anchor, new_line):
    """insert `new_line` (with the anchor's indentation) after the first line of the function containing `anchor`"""
    def edit(t):
        lines = t.split("\n")
        for i, ln in enumerate(lines):
            if anchor in ln:
                indent = ln[:len(ln) - len(ln.lstrip())]
                return "\n".join(lines[:i + 1] + [indent + new_line] + lines[i + 1:])
        raise AssertionError("anchor %r not found in %s" % (anchor, qualname))
    return in_function(qualname, edit)


S, C = "semantic", "cosmetic"

# group -> (lake targets, [(kind, description, file, edit)])
GROUPS = {
    "C06": (["TdmsProofs.Properties.C06Tied"], [
        (S, "`chunk_remainder > data_size` -> `>=` (contiguous truncated data)", SEG, sub("if chunk_remainder > data_size:", "if chunk_remainder >= data_size:")),
        (S, "`(n * remainder) // chunk_size` -> `/`", SEG, sub("(obj.number_values * chunk_remainder) // chunk_size", "(obj.number_values * chunk_remainder) / chunk_size")),
        (S, "swapped operands `(n * chunk_size) // remainder`", SEG, sub("(obj.number_values * chunk_remainder) // chunk_size", "(obj.number_values * chunk_size) // chunk_remainder")),
        (S, "dropped `break` after the partial object", SEG, sub("chunk_remainder // obj.data_type.size\n                    break", "chunk_remainder // obj.data_type.size")),
        (S, "`num_chunks = 1 + total // size` -> without `1 +`", SEG, sub("self.num_chunks = 1 + int(total_data_size // data_size)", "self.num_chunks = int(total_data_size // data_size)")),
        (S, "`data_size < 0 or total < 0` -> `and`", SEG, sub("if data_size < 0 or total_data_size < 0:", "if data_size < 0 and total_data_size < 0:")),
        (S, "`total % data_size` -> `total // data_size`", SEG, sub("chunk_remainder = total_data_size % data_size", "chunk_remainder = total_data_size // data_size")),
        (S, "`sum(o.data_size …)` -> `sum(o.number_values …)`", SEG, sub("sum(o.data_size for o in self.ordered_objects if o.has_data)", "sum(o.number_values for o in self.ordered_objects if o.has_data)")),
        (C, "comment added", SEG, after_line("TdmsSegment._calculate_chunks", "data_size = self._get_chunk_size()", "# a harmless comment")),
        (C, "log line added", SEG, after_line("TdmsSegment._calculate_chunks", "data_size = self._get_chunk_size()", 'log.debug("chunk size %d", data_size)')),
        (C, "local `chunk_remainder` renamed in _calculate_chunks", SEG, rename("TdmsSegment._calculate_chunks", "chunk_remainder", "rem_bytes")),
        (C, "loop variable `obj` renamed in _compute_final_chunk_lengths", SEG, rename("TdmsSegment._compute_final_chunk_lengths", "obj", "seg_obj")),
        (C, "docstring changed", SEG, sub('"""Compute object data lengths for a final chunk that has less data than expected\n        """\n        if self._have_daqmx_objects', '"""Lengths of the objects in a truncated final chunk."""\n        if self._have_daqmx_objects')),
        (C, "two independent statements swapped (`data_obj_count = 0` / `daqmx_count = 0`)", SEG, sub("        data_obj_count = 0\n        daqmx_count = 0\n        for o in self.ordered_objects:\n            if o.has_data:\n                data_obj_count += 1\n                if isinstance", "        daqmx_count = 0\n        data_obj_count = 0\n        for o in self.ordered_objects:\n            if o.has_data:\n                data_obj_count += 1\n                if isinstance")),
    ]),
    "C11": (["TdmsProofs.Properties.C11Tied"], [
        (S, "`bytes_remaining > buffer_total_bytes` -> `>=`", DAQ, sub("if bytes_remaining > buffer_total_bytes:", "if bytes_remaining >= buffer_total_bytes:")),
        (S, "`bytes_remaining // width` -> `%`", DAQ, sub("updated_buffer_lengths[i] = bytes_remaining // width", "updated_buffer_lengths[i] = bytes_remaining % width")),
        (S, "dropped `break` after the partial buffer", DAQ, sub("bytes_remaining // width\n            break", "bytes_remaining // width")),
        (S, "`max(current, number_values)` -> `min`", DAQ, sub("max(current_buffer_shape[0], o.number_values)", "min(current_buffer_shape[0], o.number_values)")),
        (S, "`num_values * width` -> `+` in the chunk size", DAQ, sub("sum((num_values * width) for", "sum((num_values + width) for")),
        (S, "`min(...)` over the scaler buffers -> `max`", DAQ, sub("object_lengths[obj.path] = min(", "object_lengths[obj.path] = max(")),
        (S, "dropped `bytes_remaining -= buffer_total_bytes`", DAQ, sub("            bytes_remaining -= buffer_total_bytes\n", "")),
        (C, "comment added", DAQ, after_line("get_daqmx_final_chunk_lengths", "object_lengths = {}", "# a harmless comment")),
        (C, "local `bytes_remaining` renamed", DAQ, rename("get_daqmx_final_chunk_lengths", "bytes_remaining", "left")),
        (C, "loop variable `scaler` renamed in get_buffer_dimensions", DAQ, rename("get_buffer_dimensions", "scaler", "sc")),
        (C, "log line added", DAQ, after_line("get_buffer_dimensions", "dimensions = None", 'log.debug("dims")')),
        (C, "two independent statements swapped (`object_lengths = {}` after `buffer_dims = …`)", DAQ, sub("    object_lengths = {}\n    buffer_dims = get_buffer_dimensions(ordered_objects)\n", "    buffer_dims = get_buffer_dimensions(ordered_objects)\n    object_lengths = {}\n")),
    ]),
    "C04": (["TdmsProofs.Properties.C04Tied"], [
        (S, "start segment `side='right'` -> `'left'`", RD, in_function("TdmsReader.read_raw_data_for_channel", sub("np.searchsorted(segment_offsets, offset, side='right')", "np.searchsorted(segment_offsets, offset, side='left')"))),
        (S, "`num_values_to_trim >= final_chunk_size` -> `>`", RD, sub("if num_values_to_trim >= final_chunk_size:", "if num_values_to_trim > final_chunk_size:")),
        (S, "`chunk_offset = skip // chunk_size` -> `%`", RD, sub("chunk_offset = num_values_to_skip // chunk_size", "chunk_offset = num_values_to_skip % chunk_size")),
        (S, "`segment_index += 1` before `continue` dropped (defect D3 re-introduced)", RD, sub("                segment_index += 1\n                continue", "                continue")),
        (S, "`values_read < length` -> `<=`", RD, sub("trim = 0 if values_read < length else values_read - length", "trim = 0 if values_read <= length else values_read - length")),
        (S, "`segment_offsets[i - first - 1]` -> without `- 1`", RD, in_function("TdmsReader.read_raw_data_for_channel", sub("segment_offsets[segment_index - first_segment - 1]", "segment_offsets[segment_index - first_segment]"))),
        (S, "_trim_channel_chunk: `len(d) - trim` -> `+ trim`", RD, sub("data = chunk.data[skip:len(chunk.data) - trim]", "data = chunk.data[skip:len(chunk.data) + trim]")),
        (C, "comment added", RD, after_line("TdmsReader.read_raw_data_for_channel", "values_read = 0", "# a harmless comment")),
        (C, "local `values_read` renamed", RD, rename("TdmsReader.read_raw_data_for_channel", "values_read", "n_read")),
        (C, "log line added", RD, after_line("TdmsReader.read_raw_data_for_channel", "values_read = 0", 'log.debug("start %d", start_segment)')),
        (C, "local `data` renamed in _trim_channel_chunk", RD, rename("_trim_channel_chunk", "data", "values")),
        (C, "two independent statements swapped (`chunk_offset = 0` / `num_chunks = segment.num_chunks`)", RD, sub("            chunk_offset = 0\n            num_chunks = segment.num_chunks\n", "            num_chunks = segment.num_chunks\n            chunk_offset = 0\n")),
    ]),
    "C04Seg": (["TdmsProofs.Properties.C04SegTied"], [
        (S, "segment read: seek by `chunk_size + chunk_offset`", SEG, sub("f.seek(chunk_size * chunk_offset, os.SEEK_CUR)", "f.seek(chunk_size + chunk_offset, os.SEEK_CUR)")),
        (S, "segment read: relative seek made absolute", SEG, sub("f.seek(chunk_size * chunk_offset, os.SEEK_CUR)", "f.seek(chunk_size * chunk_offset)")),
        (S, "segment read: `stop_chunk = num_chunks + chunk_offset` -> `num_chunks`", SEG, sub("else num_chunks + chunk_offset", "else num_chunks")),
        (S, "segment read: tests kTocMetaData instead of kTocRawData", SEG, in_function("TdmsSegment.read_raw_data_for_channel", sub("toc_properties['kTocRawData']", "toc_properties['kTocMetaData']"))),
        (S, "segment read: `f.seek(self.data_position)` dropped", SEG, in_function("TdmsSegment.read_raw_data_for_channel", sub("        f.seek(self.data_position)\n", ""))),
        (C, "comment added", SEG, after_line("TdmsSegment.read_raw_data_for_channel", "chunk_size = self._get_chunk_size()", "# a harmless comment")),
        (C, "local `stop_chunk` renamed", SEG, rename("TdmsSegment.read_raw_data_for_channel", "stop_chunk", "last")),
        (C, "local `chunk_size` renamed", SEG, rename("TdmsSegment.read_raw_data_for_channel", "chunk_size", "csize")),
    ]),
    "C19": (["TdmsProofs.Properties.C19Tied", "TdmsProofs.Properties.C04SliceTied"], [
        (S, "chunk for index: `side='right'` -> `'left'`", RD, in_function("TdmsReader.read_channel_chunk_for_index", sub("side='right'", "side='left'"))),
        (S, "chunk for index: `index_in_segment // chunk_size` -> `%`", RD, sub("chunk_index = index_in_segment // chunk_size", "chunk_index = index_in_segment % chunk_size")),
        (S, "chunk for index: offsets index without `- 1`", RD, in_function("TdmsReader.read_channel_chunk_for_index", sub("segment_offsets[segment_index - first_segment - 1]", "segment_offsets[segment_index - first_segment]"))),
        (S, "_read_at_index: `index < bounds[1]` -> `<=`", TD, sub("if bounds[0] <= index < bounds[1]:", "if bounds[0] <= index <= bounds[1]:")),
        (S, "_read_at_index: `index >= self._length` -> `>`", TD, sub("if index < 0 or index >= self._length:", "if index < 0 or index > self._length:")),
        (S, "_read_slice: `start >= self._length` -> `>` in the empty-range test", TD, sub("if step > 0 and (stop < start or start >= self._length or stop < 0):", "if step > 0 and (stop < start or start > self._length or stop < 0):")),
        (S, "_read_slice: `stop + 1` -> `stop` for negative steps", TD, sub("read_data = self.read_data(stop + 1, start - stop)", "read_data = self.read_data(stop, start - stop)")),
        (C, "comment added in _read_slice", TD, after_line("TdmsChannel._read_slice", "# Replace None values with defaults", "# a harmless comment")),
        (C, "local `bounds` renamed in _read_at_index", TD, rename("TdmsChannel._read_at_index", "bounds", "lohi")),
        (C, "local `chunk_index` renamed", RD, rename("TdmsReader.read_channel_chunk_for_index", "chunk_index", "ci")),
    ]),
    "C16": (["TdmsProofs.Properties.C16Tied"], [
        (S, "`char != '/'` -> `==`", CM, sub("if char != '/':", "if char == '/':")),
        (S, "escape `\"''\"` -> `\"'\"`", CM, sub("""c.replace("'", "''")""", """c.replace("'", "'")""")),
        (S, "dropped `break` after the closing quote", CM, sub('yield "".join(component)\n                    break', 'yield "".join(component)')),
        (S, "dropped `next(chars)` after a doubled quote", CM, sub("""                    # Consume second "'"\n                    next(chars)\n""", "")),
        (S, "channel before group", CM, sub("        components.append(group)\n    if channel is not None:\n        components.append(channel)", "        components.append(channel)\n    if channel is not None:\n        components.append(group)")),
        (C, "comment added", CM, after_line("_path_components", "component = []", "# a harmless comment")),
        (C, "local `component` renamed", CM, rename("_path_components", "component", "comp")),
        (C, "local `components` renamed in _components_to_path", CM, rename("_components_to_path", "components", "parts")),
    ]),
    "C12": (["TdmsProofs.Properties.C12Tied"], [
        (S, "scalar reader `>> 64` -> `>> 63`", TS, sub("(fractions * steps_per_second) >> 64", "(fractions * steps_per_second) >> 63")),
        (S, "scalar reader `min(` -> `max(`", TS, sub("fractions = min(int(self.second_fractions)", "fractions = max(int(self.second_fractions)")),
        (S, "_multiply_high: mask 0xFFFFFFFF -> 0xFFFFFFF", TS, sub("mask = np.uint64(0xFFFFFFFF)", "mask = np.uint64(0xFFFFFFF)")),
        (S, "_multiply_high: `factor_high`/`factor_low` swapped in `mid`", TS, sub("mid = values_high * factor_low + (low >> shift)", "mid = values_high * factor_high + (low >> shift)")),
        (S, "writer `// 10 ** 6` -> `// 10 ** 5`", TY, sub("second_fractions = (microseconds << 64) // 10 ** 6", "second_fractions = (microseconds << 64) // 10 ** 5")),
        (S, "writer `remainder < zero_delta` -> `<=`", TY, sub("if remainder < zero_delta:", "if remainder <= zero_delta:")),
        (S, "tolerance constant 2 ** 11 -> 2 ** 10", TS, sub("_FRACTIONS_TOLERANCE = 2 ** 11", "_FRACTIONS_TOLERANCE = 2 ** 10")),
        (C, "comment added", TS, after_line("_multiply_high", "shift = np.uint64(32)", "# a harmless comment")),
        (C, "local `mid_2` renamed in _multiply_high", TS, rename("_multiply_high", "mid_2", "mid2")),
        (C, "local `fractions` renamed in the scalar reader", TS, rename("TdmsTimestamp.as_datetime64", "fractions", "fr")),
        (C, "two independent statements swapped (`mask = …` / `shift = …`)", TS, sub("    mask = np.uint64(0xFFFFFFFF)\n    shift = np.uint64(32)\n", "    shift = np.uint64(32)\n    mask = np.uint64(0xFFFFFFFF)\n")),
    ]),
    "C02": (["TdmsProofs.Properties.C02Tied"], [
        (S, "_reuse_previous_object: NO_DATA sets `has_data = True`", SEG, in_function("TdmsSegment._reuse_previous_object", sub("segment_obj.has_data = False", "segment_obj.has_data = True"))),
        (S, "_reuse_previous_object: tests NO_DATA / MATCHES_PREVIOUS swapped", SEG, in_function("TdmsSegment._reuse_previous_object", lambda t: t.replace("RAW_DATA_INDEX_NO_DATA", "@@").replace("RAW_DATA_INDEX_MATCHES_PREVIOUS", "RAW_DATA_INDEX_NO_DATA").replace("@@", "RAW_DATA_INDEX_MATCHES_PREVIOUS"))),
        (S, "constant RAW_DATA_INDEX_NO_DATA changed", SEG, sub("RAW_DATA_INDEX_NO_DATA = 0xFFFFFFFF", "RAW_DATA_INDEX_NO_DATA = 0xFFFFFFFE")),
        (S, "_update_existing_object: new index without `has_data = True`", SEG, in_function("TdmsSegment._update_existing_object", sub("            segment_obj.has_data = True\n", ""))),
        (S, "_number_of_segment_values: `num_chunks - 1` -> `num_chunks`", RD, sub("segment_object.number_values * (segment.num_chunks - 1)", "segment_object.number_values * (segment.num_chunks)")),
        (C, "comment added", SEG, after_line("TdmsSegment._reuse_previous_object", "object_path = previous_segment_obj.path", "# a harmless comment")),
        (C, "local `segment_obj` renamed in _reuse_previous_object", SEG, rename("TdmsSegment._reuse_previous_object", "segment_obj", "so")),
        (C, "local `new_obj` renamed in _update_existing_object", SEG, rename("TdmsSegment._update_existing_object", "new_obj", "replacement")),
    ]),
}


def prepare_project(idx):
    """a private copy of the lake project (with its build directory, so that only changed modules rebuild)"""
    dst = os.path.join(SCRATCH, "p%d" % idx)
    if os.path.exists(dst):
        shutil.rmtree(dst)
    shutil.copytree(LEAN, dst, symlinks=True)
    return dst


def run_case(project, group, targets, kind, desc, rel, edit, baseline):
    t0 = time.time()
    with open(os.path.join(REPO, rel)) as f:
        original = f.read()
    try:
        mutated = edit(original)
    except AssertionError as ex:
        return dict(group=group, kind=kind, desc=desc, outcome="EDIT-FAILED: %s" % ex, ok=False, secs=0.0)
    assert mutated != original, desc
    try:
        code = pyast2lean.generate(REPO, overrides={rel: mutated}, strict=True)
    except pyast2lean.Untranslatable as ex:
        outcome = "untranslatable: %s" % ex.reason[:70]
        return dict(group=group, kind=kind, desc=desc, outcome=outcome, ok=(kind == S), secs=time.time() - t0)
    if code == baseline:
        return dict(group=group, kind=kind, desc=desc, outcome="same Code.lean", ok=(kind == C), secs=time.time() - t0)
    path = os.path.join(project, "Tdms", "Generated", "Code.lean")
    with open(path, "w") as f:
        f.write(code)
    r = subprocess.run(["lake", "build"] + targets, cwd=project, stdout=subprocess.PIPE, stderr=subprocess.STDOUT, text=True)
    built = r.returncode == 0
    where = ""
    if not built:
        m = re.search(r"error: (\S+\.lean):(\d+)", r.stdout)
        where = " (%s:%s)" % (os.path.basename(m.group(1)), m.group(2)) if m else ""
    outcome = "builds" if built else "build FAILS" + where
    return dict(group=group, kind=kind, desc=desc, outcome=outcome, ok=(built == (kind == C)), secs=time.time() - t0)


def worker(idx, cases, baseline):
    project = prepare_project(idx)
    out = []
    for case in cases:
        out.append(run_case(project, *case, baseline))
    # leave the scratch project with the baseline Code.lean
    with open(os.path.join(project, "Tdms", "Generated", "Code.lean"), "w") as f:
        f.write(baseline)
    return out


def main():
    ap = argparse.ArgumentParser()
    ap.add_argument("--jobs", type=int, default=6)
    ap.add_argument("--only", default="")
    ap.add_argument("--keep", action="store_true")
    args = ap.parse_args()
    t0 = time.time()
    baseline = pyast2lean.generate(REPO)
    with open(os.path.join(LEAN, "Tdms", "Generated", "Code.lean")) as f:
        assert f.read() == baseline, "lean/Tdms/Generated/Code.lean is not up to date: run harness/translate.py first"
    only = [x for x in args.only.split(",") if x]
    cases = []
    for group, (targets, muts) in GROUPS.items():
        if only and group not in only:
            continue
        prop = os.path.join(LEAN, *targets[0].split(".")) + ".lean"
        if not os.path.exists(prop):
            print("(skipping %s: %s does not exist)" % (group, os.path.relpath(prop, LEAN)))
            continue
        for (kind, desc, rel, edit) in muts:
            cases.append((group, targets, kind, desc, rel, edit))
    os.makedirs(SCRATCH, exist_ok=True)
    jobs = max(1, min(args.jobs, len(cases)))
    buckets = [cases[i::jobs] for i in range(jobs)]
    results = []
    with concurrent.futures.ThreadPoolExecutor(jobs) as ex:
        for res in ex.map(lambda a: worker(a[0], a[1], baseline), enumerate(buckets)):
            results += res
    order = {g: i for i, g in enumerate(GROUPS)}
    results.sort(key=lambda r: (order[r["group"]], r["kind"] != S))
    print("| group | kind | edit | result | expected | ok | s |")
    print("|---|---|---|---|---|---|---|")
    for r in results:
        print("| %s | %s | %s | %s | %s | %s | %.0f |" % (
            r["group"], r["kind"], r["desc"], r["outcome"], "tie breaks" if r["kind"] == S else "tie holds",
            "yes" if r["ok"] else "NO", r["secs"]))
    bad = [r for r in results if not r["ok"]]
    print("\n%d cases, %d as expected, %d not; %.0f s" % (len(results), len(results) - len(bad), len(bad), time.time() - t0))
    if not args.keep:
        shutil.rmtree(SCRATCH, ignore_errors=True)
    return 1 if bad else 0


if __name__ == "__main__":
    sys.exit(main())
