#!/venv/bin/python
"""Self test of the code translator (harness/pyast2lean.py, both parts) and of the `…_tied` theorems.

For every target group a list of SEMANTIC mutations (`>=` -> `>`, `//` -> `%`, dropped `break`, off-by-one, …)
and of COSMETIC edits (comments, docstrings, log lines, renamed locals) is applied to an in-memory copy of
the npTDMS source text (never to /repo); `Code.lean` / `Code2.lean` are regenerated from the edited text into a scratch copy
of the lake project and the tied theorems of the group are rebuilt there.

  expected:  semantic  -> the tie breaks  (translator raises Untranslatable, or `lake build` of the property fails)
             cosmetic  -> the tie holds   (`lake build` succeeds; "same" = Code.lean did not even change)

usage: pyast2lean_selftest.py [--jobs N] [--only C06,C11] [--keep]
"""
import argparse
import ast
import concurrent.futures
import os
import re
import shutil
import subprocess
import sys
import time

HERE = os.path.dirname(os.path.abspath(__file__))
sys.path.insert(0, HERE)
import pyast2lean  # noqa: E402

REPO = os.environ.get("NPTDMS_REPO", "/repo")
LEAN = os.path.join(os.path.dirname(HERE), "lean")
import hashlib  # noqa: E402
SCRATCH = os.path.join(os.environ.get("TMPDIR", "/tmp"), "nptdms_verif_tied_selftest_" +
                       hashlib.md5(HERE.encode()).hexdigest()[:8])  # removed at the end of the run

SEG, DAQ, RD, TD, CM, TS, TY = ("nptdms/tdms_segment.py", "nptdms/daqmx.py", "nptdms/reader.py", "nptdms/tdms.py",
                                "nptdms/common.py", "nptdms/timestamp.py", "nptdms/types.py")
SC, TC, WR = "nptdms/scaling.py", "nptdms/thermocouples.py", "nptdms/writer.py"


def sub(old, new, count=1):
    """replace the only occurrence (or the `count`-th of several when count < 0: -k = k-th occurrence)"""
    def f(text):
        n = text.count(old)
        if count >= 1:
            assert n == count, "pattern %r occurs %d times, expected %d" % (old, n, count)
            return text.replace(old, new)
        k = -count
        assert n >= k, "pattern %r occurs %d times, need at least %d" % (old, n, k)
        parts = text.split(old)
        return old.join(parts[:k]) + new + old.join(parts[k:])
    return f


def in_function(qualname, edit):
    """apply `edit` to the source text of one function only"""
    def f(text):
        tree = ast.parse(text)
        cls, _, name = qualname.rpartition(".")
        body = tree.body
        if cls:
            body = [n for n in body if isinstance(n, ast.ClassDef) and n.name == cls][0].body
        fn = [n for n in body if isinstance(n, ast.FunctionDef) and n.name == name][0]
        lines = text.split("\n")
        a, b = fn.lineno - 1, fn.end_lineno
        return "\n".join(lines[:a] + edit("\n".join(lines[a:b])).split("\n") + lines[b:])
    return f


def rename(qualname, old, new):
    # local names only: not attributes (`x.old`) and not keyword arguments
    return in_function(qualname, lambda t: re.sub(r"(?<![\w.])%s\b(?!\s*=[^=])|(?<![\w.])%s\b(?=\s*=[^=])" % (re.escape(old), re.escape(old)), new, t))


def after_line(qualname, anchor, new_line):
    """insert `new_line` (with the anchor's indentation) after the first line of the function containing `anchor`"""
    def edit(t):
        lines = t.split("\n")
        for i, ln in enumerate(lines):
            if anchor in ln:
                indent = ln[:len(ln) - len(ln.lstrip())]
                return "\n".join(lines[:i + 1] + [indent + new_line] + lines[i + 1:])
        raise AssertionError("anchor %r not found in %s" % (anchor, qualname))
    return in_function(qualname, edit)


S, C = "semantic", "cosmetic"

# group -> (lake targets, [(kind, description, file, edit)])
GROUPS = {
    "C06": (["TdmsProofs.Properties.C06Tied"], [
        (S, "`chunk_remainder > data_size` -> `>=` (contiguous truncated data)", SEG, sub("if chunk_remainder > data_size:", "if chunk_remainder >= data_size:")),
        (S, "`(n * remainder) // chunk_size` -> `/`", SEG, sub("(obj.number_values * chunk_remainder) // chunk_size", "(obj.number_values * chunk_remainder) / chunk_size")),
        (S, "swapped operands `(n * chunk_size) // remainder`", SEG, sub("(obj.number_values * chunk_remainder) // chunk_size", "(obj.number_values * chunk_size) // chunk_remainder")),
        (S, "dropped `break` after the partial object", SEG, sub("chunk_remainder // obj.data_type.size\n                    break", "chunk_remainder // obj.data_type.size")),
        (S, "`num_chunks = 1 + total // size` -> without `1 +`", SEG, sub("self.num_chunks = 1 + int(total_data_size // data_size)", "self.num_chunks = int(total_data_size // data_size)")),
        (S, "`data_size < 0 or total < 0` -> `and`", SEG, sub("if data_size < 0 or total_data_size < 0:", "if data_size < 0 and total_data_size < 0:")),
        (S, "`total % data_size` -> `total // data_size`", SEG, sub("chunk_remainder = total_data_size % data_size", "chunk_remainder = total_data_size // data_size")),
        (S, "`sum(o.data_size …)` -> `sum(o.number_values …)`", SEG, sub("sum(o.data_size for o in self.ordered_objects if o.has_data)", "sum(o.number_values for o in self.ordered_objects if o.has_data)")),
        (C, "comment added", SEG, after_line("TdmsSegment._calculate_chunks", "data_size = self._get_chunk_size()", "# a harmless comment")),
        (C, "log line added", SEG, after_line("TdmsSegment._calculate_chunks", "data_size = self._get_chunk_size()", 'log.debug("chunk size %d", data_size)')),
        (C, "local `chunk_remainder` renamed in _calculate_chunks", SEG, rename("TdmsSegment._calculate_chunks", "chunk_remainder", "rem_bytes")),
        (C, "loop variable `obj` renamed in _compute_final_chunk_lengths", SEG, rename("TdmsSegment._compute_final_chunk_lengths", "obj", "seg_obj")),
        (C, "docstring changed", SEG, sub('"""Compute object data lengths for a final chunk that has less data than expected\n        """\n        if self._have_daqmx_objects', '"""Lengths of the objects in a truncated final chunk."""\n        if self._have_daqmx_objects')),
        (C, "two independent statements swapped (`data_obj_count = 0` / `daqmx_count = 0`)", SEG, sub("        data_obj_count = 0\n        daqmx_count = 0\n        for o in self.ordered_objects:\n            if o.has_data:\n                data_obj_count += 1\n                if isinstance", "        daqmx_count = 0\n        data_obj_count = 0\n        for o in self.ordered_objects:\n            if o.has_data:\n                data_obj_count += 1\n                if isinstance")),
    ]),
    "C11": (["TdmsProofs.Properties.C11Tied"], [
        (S, "`bytes_remaining > buffer_total_bytes` -> `>=`", DAQ, sub("if bytes_remaining > buffer_total_bytes:", "if bytes_remaining >= buffer_total_bytes:")),
        (S, "`bytes_remaining // width` -> `%`", DAQ, sub("updated_buffer_lengths[i] = bytes_remaining // width", "updated_buffer_lengths[i] = bytes_remaining % width")),
        (S, "dropped `break` after the partial buffer", DAQ, sub("bytes_remaining // width\n            break", "bytes_remaining // width")),
        (S, "`max(current, number_values)` -> `min`", DAQ, sub("max(current_buffer_shape[0], o.number_values)", "min(current_buffer_shape[0], o.number_values)")),
        (S, "`num_values * width` -> `+` in the chunk size", DAQ, sub("sum((num_values * width) for", "sum((num_values + width) for")),
        (S, "`min(...)` over the scaler buffers -> `max`", DAQ, sub("object_lengths[obj.path] = min(", "object_lengths[obj.path] = max(")),
        (S, "dropped `bytes_remaining -= buffer_total_bytes`", DAQ, sub("            bytes_remaining -= buffer_total_bytes\n", "")),
        (C, "comment added", DAQ, after_line("get_daqmx_final_chunk_lengths", "object_lengths = {}", "# a harmless comment")),
        (C, "local `bytes_remaining` renamed", DAQ, rename("get_daqmx_final_chunk_lengths", "bytes_remaining", "left")),
        (C, "loop variable `scaler` renamed in get_buffer_dimensions", DAQ, rename("get_buffer_dimensions", "scaler", "sc")),
        (C, "log line added", DAQ, after_line("get_buffer_dimensions", "dimensions = None", 'log.debug("dims")')),
        (C, "two independent statements swapped (`object_lengths = {}` after `buffer_dims = …`)", DAQ, sub("    object_lengths = {}\n    buffer_dims = get_buffer_dimensions(ordered_objects)\n", "    buffer_dims = get_buffer_dimensions(ordered_objects)\n    object_lengths = {}\n")),
    ]),
    "C04": (["TdmsProofs.Properties.C04Tied"], [
        (S, "start segment `side='right'` -> `'left'`", RD, in_function("TdmsReader.read_raw_data_for_channel", sub("np.searchsorted(segment_offsets, offset, side='right')", "np.searchsorted(segment_offsets, offset, side='left')"))),
        (S, "`num_values_to_trim >= final_chunk_size` -> `>`", RD, sub("if num_values_to_trim >= final_chunk_size:", "if num_values_to_trim > final_chunk_size:")),
        (S, "`chunk_offset = skip // chunk_size` -> `%`", RD, sub("chunk_offset = num_values_to_skip // chunk_size", "chunk_offset = num_values_to_skip % chunk_size")),
        (S, "`segment_index += 1` before `continue` dropped (defect D3 re-introduced)", RD, sub("                segment_index += 1\n                continue", "                continue")),
        (S, "`values_read < length` -> `<=`", RD, sub("trim = 0 if values_read < length else values_read - length", "trim = 0 if values_read <= length else values_read - length")),
        (S, "`segment_offsets[i - first - 1]` -> without `- 1`", RD, in_function("TdmsReader.read_raw_data_for_channel", sub("segment_offsets[segment_index - first_segment - 1]", "segment_offsets[segment_index - first_segment]"))),
        (S, "_trim_channel_chunk: `len(d) - trim` -> `+ trim`", RD, sub("data = chunk.data[skip:len(chunk.data) - trim]", "data = chunk.data[skip:len(chunk.data) + trim]")),
        (C, "comment added", RD, after_line("TdmsReader.read_raw_data_for_channel", "values_read = 0", "# a harmless comment")),
        (C, "local `values_read` renamed", RD, rename("TdmsReader.read_raw_data_for_channel", "values_read", "n_read")),
        (C, "log line added", RD, after_line("TdmsReader.read_raw_data_for_channel", "values_read = 0", 'log.debug("start %d", start_segment)')),
        (C, "local `data` renamed in _trim_channel_chunk", RD, rename("_trim_channel_chunk", "data", "values")),
        (C, "two independent statements swapped (`chunk_offset = 0` / `num_chunks = segment.num_chunks`)", RD, sub("            chunk_offset = 0\n            num_chunks = segment.num_chunks\n", "            num_chunks = segment.num_chunks\n            chunk_offset = 0\n")),
    ]),
    "C04Seg": (["TdmsProofs.Properties.C04SegTied"], [
        (S, "segment read: seek by `chunk_size + chunk_offset`", SEG, sub("f.seek(chunk_size * chunk_offset, os.SEEK_CUR)", "f.seek(chunk_size + chunk_offset, os.SEEK_CUR)")),
        (S, "segment read: relative seek made absolute", SEG, sub("f.seek(chunk_size * chunk_offset, os.SEEK_CUR)", "f.seek(chunk_size * chunk_offset)")),
        (S, "segment read: `stop_chunk = num_chunks + chunk_offset` -> `num_chunks`", SEG, sub("else num_chunks + chunk_offset", "else num_chunks")),
        (S, "segment read: tests kTocMetaData instead of kTocRawData", SEG, in_function("TdmsSegment.read_raw_data_for_channel", sub("toc_properties['kTocRawData']", "toc_properties['kTocMetaData']"))),
        (S, "segment read: `f.seek(self.data_position)` dropped", SEG, in_function("TdmsSegment.read_raw_data_for_channel", sub("        f.seek(self.data_position)\n", ""))),
        (C, "comment added", SEG, after_line("TdmsSegment.read_raw_data_for_channel", "chunk_size = self._get_chunk_size()", "# a harmless comment")),
        (C, "local `stop_chunk` renamed", SEG, rename("TdmsSegment.read_raw_data_for_channel", "stop_chunk", "last")),
        (C, "local `chunk_size` renamed", SEG, rename("TdmsSegment.read_raw_data_for_channel", "chunk_size", "csize")),
    ]),
    "C19": (["TdmsProofs.Properties.C19Tied", "TdmsProofs.Properties.C04SliceTied"], [
        (S, "chunk for index: `side='right'` -> `'left'`", RD, in_function("TdmsReader.read_channel_chunk_for_index", sub("side='right'", "side='left'"))),
        (S, "chunk for index: `index_in_segment // chunk_size` -> `%`", RD, sub("chunk_index = index_in_segment // chunk_size", "chunk_index = index_in_segment % chunk_size")),
        (S, "chunk for index: offsets index without `- 1`", RD, in_function("TdmsReader.read_channel_chunk_for_index", sub("segment_offsets[segment_index - first_segment - 1]", "segment_offsets[segment_index - first_segment]"))),
        (S, "_read_at_index: `index < bounds[1]` -> `<=`", TD, sub("if bounds[0] <= index < bounds[1]:", "if bounds[0] <= index <= bounds[1]:")),
        (S, "_read_at_index: `index >= self._length` -> `>`", TD, sub("if index < 0 or index >= self._length:", "if index < 0 or index > self._length:")),
        (S, "_read_slice: `start >= self._length` -> `>` in the empty-range test", TD, sub("if step > 0 and (stop < start or start >= self._length or stop < 0):", "if step > 0 and (stop < start or start > self._length or stop < 0):")),
        (S, "_read_slice: `stop + 1` -> `stop` for negative steps", TD, sub("read_data = self.read_data(stop + 1, start - stop)", "read_data = self.read_data(stop, start - stop)")),
        (C, "comment added in _read_slice", TD, after_line("TdmsChannel._read_slice", "# Replace None values with defaults", "# a harmless comment")),
        (C, "local `bounds` renamed in _read_at_index", TD, rename("TdmsChannel._read_at_index", "bounds", "lohi")),
        (C, "local `chunk_index` renamed", RD, rename("TdmsReader.read_channel_chunk_for_index", "chunk_index", "ci")),
    ]),
    "C16": (["TdmsProofs.Properties.C16Tied"], [
        (S, "`char != '/'` -> `==`", CM, sub("if char != '/':", "if char == '/':")),
        (S, "escape `\"''\"` -> `\"'\"`", CM, sub("""c.replace("'", "''")""", """c.replace("'", "'")""")),
        (S, "dropped `break` after the closing quote", CM, sub('yield "".join(component)\n                    break', 'yield "".join(component)')),
        (S, "dropped `next(chars)` after a doubled quote", CM, sub("""                    # Consume second "'"\n                    next(chars)\n""", "")),
        (S, "channel before group", CM, sub("        components.append(group)\n    if channel is not None:\n        components.append(channel)", "        components.append(channel)\n    if channel is not None:\n        components.append(group)")),
        (C, "comment added", CM, after_line("_path_components", "component = []", "# a harmless comment")),
        (C, "local `component` renamed", CM, rename("_path_components", "component", "comp")),
        (C, "local `components` renamed in _components_to_path", CM, rename("_components_to_path", "components", "parts")),
    ]),
    "C12": (["TdmsProofs.Properties.C12Tied"], [
        (S, "scalar reader `>> 64` -> `>> 63`", TS, sub("(fractions * steps_per_second) >> 64", "(fractions * steps_per_second) >> 63")),
        (S, "scalar reader `min(` -> `max(`", TS, sub("fractions = min(int(self.second_fractions)", "fractions = max(int(self.second_fractions)")),
        (S, "_multiply_high: mask 0xFFFFFFFF -> 0xFFFFFFF", TS, sub("mask = np.uint64(0xFFFFFFFF)", "mask = np.uint64(0xFFFFFFF)")),
        (S, "_multiply_high: `factor_high`/`factor_low` swapped in `mid`", TS, sub("mid = values_high * factor_low + (low >> shift)", "mid = values_high * factor_high + (low >> shift)")),
        (S, "writer `// 10 ** 6` -> `// 10 ** 5`", TY, sub("second_fractions = (microseconds << 64) // 10 ** 6", "second_fractions = (microseconds << 64) // 10 ** 5")),
        (S, "writer `remainder < zero_delta` -> `<=`", TY, sub("if remainder < zero_delta:", "if remainder <= zero_delta:")),
        (S, "tolerance constant 2 ** 11 -> 2 ** 10", TS, sub("_FRACTIONS_TOLERANCE = 2 ** 11", "_FRACTIONS_TOLERANCE = 2 ** 10")),
        (C, "comment added", TS, after_line("_multiply_high", "shift = np.uint64(32)", "# a harmless comment")),
        (C, "local `mid_2` renamed in _multiply_high", TS, rename("_multiply_high", "mid_2", "mid2")),
        (C, "local `fractions` renamed in the scalar reader", TS, rename("TdmsTimestamp.as_datetime64", "fractions", "fr")),
        (C, "two independent statements swapped (`mask = …` / `shift = …`)", TS, sub("    mask = np.uint64(0xFFFFFFFF)\n    shift = np.uint64(32)\n", "    shift = np.uint64(32)\n    mask = np.uint64(0xFFFFFFFF)\n")),
    ]),
    "C02": (["TdmsProofs.Properties.C02Tied"], [
        (S, "_reuse_previous_object: NO_DATA sets `has_data = True`", SEG, in_function("TdmsSegment._reuse_previous_object", sub("segment_obj.has_data = False", "segment_obj.has_data = True"))),
        (S, "_reuse_previous_object: tests NO_DATA / MATCHES_PREVIOUS swapped", SEG, in_function("TdmsSegment._reuse_previous_object", lambda t: t.replace("RAW_DATA_INDEX_NO_DATA", "@@").replace("RAW_DATA_INDEX_MATCHES_PREVIOUS", "RAW_DATA_INDEX_NO_DATA").replace("@@", "RAW_DATA_INDEX_MATCHES_PREVIOUS"))),
        (S, "constant RAW_DATA_INDEX_NO_DATA changed", SEG, sub("RAW_DATA_INDEX_NO_DATA = 0xFFFFFFFF", "RAW_DATA_INDEX_NO_DATA = 0xFFFFFFFE")),
        (S, "_update_existing_object: new index without `has_data = True`", SEG, in_function("TdmsSegment._update_existing_object", sub("            segment_obj.has_data = True\n", ""))),
        (S, "_number_of_segment_values: `num_chunks - 1` -> `num_chunks`", RD, sub("segment_object.number_values * (segment.num_chunks - 1)", "segment_object.number_values * (segment.num_chunks)")),
        (C, "comment added", SEG, after_line("TdmsSegment._reuse_previous_object", "object_path = previous_segment_obj.path", "# a harmless comment")),
        (C, "local `segment_obj` renamed in _reuse_previous_object", SEG, rename("TdmsSegment._reuse_previous_object", "segment_obj", "so")),
        (C, "local `new_obj` renamed in _update_existing_object", SEG, rename("TdmsSegment._update_existing_object", "new_obj", "replacement")),
    ]),
    "C13": (["TdmsProofs.Properties.C13TiedBuild", "TdmsProofs.Properties.C13TiedEval", "TdmsProofs.Properties.C14Tied"], [
        (S, "Linear: default input source RAW_DATA_INPUT_SOURCE -> 0", SC, in_function("LinearScaling.from_properties", sub("input_source = RAW_DATA_INPUT_SOURCE", "input_source = 0"))),
        (S, "Linear: `properties.get(...) or RAW_DATA_INPUT_SOURCE` (input source 0 swallowed)", SC, in_function("LinearScaling.from_properties", sub('        try:\n            input_source = properties[\n                "NI_Scale[%d]_Linear_Input_Source" % scale_index]\n        except KeyError:\n            input_source = RAW_DATA_INPUT_SOURCE\n', '        input_source = properties.get("NI_Scale[%d]_Linear_Input_Source" % scale_index) or RAW_DATA_INPUT_SOURCE\n'))),
        (S, "Linear: slope and intercept swapped in the constructor call", SC, in_function("LinearScaling.from_properties", lambda t: t.replace("Linear_Y_Intercept", "@@").replace("Linear_Slope", "Linear_Y_Intercept").replace("@@", "Linear_Slope"))),
        (S, "Linear.scale: `data * slope + intercept` -> `data * intercept + slope`", SC, sub("return data * self.slope + self.intercept", "return data * self.intercept + self.slope")),
        (S, "Subtract.scale: `right - left` -> `left - right`", SC, sub("return right_data - left_data", "return left_data - right_data")),
        (S, "_compute_scaled_data: left operand computed from the right input source", SC, in_function("MultiScaling._compute_scaled_data", sub("left_input_data = self._compute_scaled_data(\n                scaling.left_input_source", "left_input_data = self._compute_scaled_data(\n                scaling.right_input_source"))),
        (S, "_compute_scaled_data: operands passed to `scale` in the other order", SC, sub("return scaling.scale(left_input_data, right_input_data)", "return scaling.scale(right_input_data, left_input_data)")),
        (S, "Polynomial: default number of coefficients 4 -> 3", SC, sub("number_of_coefficients = 4", "number_of_coefficients = 3")),
        (S, "_get_channel_scaling: `scaling_status == \"scaled\"` -> `!=`", SC, sub('if scaling_status == "scaled":', 'if scaling_status != "scaled":')),
        (S, "_get_channel_scaling: scale type 'Linear' -> 'linear'", SC, sub("elif scale_type == 'Linear':", "elif scale_type == 'linear':")),
        (S, "_get_channel_scaling: unknown scale type skipped instead of `return None`", SC, sub('            log.warning("Unsupported scale type: %s", scale_type)\n            return None', '            log.warning("Unsupported scale type: %s", scale_type)\n            continue')),
        (S, "get_scaling: group properties before channel properties", SC, sub("for p in [channel_properties, group_properties, file_properties]", "for p in [group_properties, channel_properties, file_properties]")),
        (S, "_get_number_of_scalings: `+ 1` dropped", SC, sub("for m in matches if m is not None) + 1", "for m in matches if m is not None)")),
        (S, "constant RAW_DATA_INPUT_SOURCE changed", SC, sub("RAW_DATA_INPUT_SOURCE = 0xFFFFFFFF", "RAW_DATA_INPUT_SOURCE = 0xFFFFFFFE")),
        (S, "Table: only the scaled values are flipped", SC, sub("            scaled_values = np.flip(scaled_values)\n            pre_scaled_values = np.flip(pre_scaled_values)\n", "            scaled_values = np.flip(scaled_values)\n")),
        (S, "_compute_scale_dtype: other scalings declare float32", SC, sub("return np.dtype('float64')", "return np.dtype('float32')")),
        (S, "_compute_scale_dtype: NoOp scaling declares float64 instead of its input's type", SC, sub("        elif isinstance(scaling, NoOpScaling):\n            return self._compute_scale_dtype(scaling.input_source, raw_data_type, scaler_data_types)\n", "")),
        (S, "Thermocouple: default type code 10072 -> 10073", SC, sub('"%s_Thermocouple_Type" % prefix, 10072)', '"%s_Thermocouple_Type" % prefix, 10073)')),
        (C, "comment added", SC, after_line("_get_channel_scaling", "num_scalings = _get_number_of_scalings(properties)", "# a harmless comment")),
        (C, "log line added", SC, after_line("_get_channel_scaling", "num_scalings = _get_number_of_scalings(properties)", 'log.debug("scales %s", num_scalings)')),
        (C, "local `scaling_status` renamed", SC, rename("_get_channel_scaling", "scaling_status", "status")),
        (C, "local `input_data` renamed in _compute_scaled_data", SC, rename("MultiScaling._compute_scaled_data", "input_data", "x")),
        (C, "local `final_scale` renamed in MultiScaling.scale", SC, rename("MultiScaling.scale", "final_scale", "last")),
        (C, "docstring of _compute_scaled_data changed", SC, sub('""" Compute output data from a single scale in the set of all scalings,\n            computing any required input scales recursively.\n        """', '""" One scale of the graph. """')),
    ]),
    "C17": (["TdmsProofs.Properties.C17Tied"], [
        (S, "_adjust_for_lead_resistance: `resistance_configuration == 3` -> `== 4`", SC, sub("if resistance_configuration == 3:", "if resistance_configuration == 4:")),
        (S, "_adjust_for_lead_resistance: `2.0 * lead_wire_resistance` -> `lead_wire_resistance`", SC, sub("return measured_resistance - 2.0 * lead_wire_resistance", "return measured_resistance - lead_wire_resistance")),
        (S, "_adjust_for_lead_resistance: `excitation == CURRENT and config == 2` -> `or`", SC, sub("if excitation_type == CURRENT_EXCITATION and resistance_configuration == 2:", "if excitation_type == CURRENT_EXCITATION or resistance_configuration == 2:")),
        (S, "RtdScaling.scale passes VOLTAGE_EXCITATION to the lead correction", SC, sub("r_t, CURRENT_EXCITATION, self.resistance_configuration, self.lead_wire_resistance)", "r_t, VOLTAGE_EXCITATION, self.resistance_configuration, self.lead_wire_resistance)")),
        (S, "StrainScaling: constant FULL_BRIDGE_2 changed", SC, sub("FULL_BRIDGE_2 = 10184", "FULL_BRIDGE_2 = 10186")),
        (S, "StrainScaling.scale: `(1.0 + poisson_ratio)` -> `(1.0 - …)` in full bridge II", SC, sub("self.voltage_excitation * self.gage_factor * (1.0 + self.poisson_ratio)))", "self.voltage_excitation * self.gage_factor * (1.0 - self.poisson_ratio)))")),
        (S, "StrainScaling.scale: `initial_bridge_voltage != 0.0` -> `== 0.0`", SC, sub("if self.initial_bridge_voltage != 0.0:", "if self.initial_bridge_voltage == 0.0:")),
        (S, "ThermistorScaling.scale: current / voltage excitation branches swapped", SC, in_function("ThermistorScaling.scale", lambda t: t.replace("== CURRENT_EXCITATION", "== @@").replace("== VOLTAGE_EXCITATION", "== CURRENT_EXCITATION").replace("== @@", "== VOLTAGE_EXCITATION"))),
        (S, "RtdScaling.from_properties: properties RTD_A / RTD_B swapped", SC, in_function("RtdScaling.from_properties", lambda t: t.replace('"%s_RTD_A"', "@@").replace('"%s_RTD_B"', '"%s_RTD_A"').replace("@@", '"%s_RTD_B"'))),
        (S, "StrainScaling.from_properties: gage factor read from the gain adjustment property", SC, in_function("StrainScaling.from_properties", sub('properties["%s_Gage_Factor" % prefix]', 'properties["%s_Bridge_Shunt_Calibration_Gain_Adjustment" % prefix]'))),
        (C, "comment added", SC, after_line("_adjust_for_lead_resistance", "if resistance_configuration == 3:", "# a harmless comment")),
        (C, "local `lead_adjustment` renamed in StrainScaling.scale", SC, rename("StrainScaling.scale", "lead_adjustment", "adj")),
        (C, "local `temp` renamed in StrainScaling.scale", SC, rename("StrainScaling.scale", "temp", "denominator")),
        (C, "local `prefix` renamed in RtdScaling.from_properties", SC, rename("RtdScaling.from_properties", "prefix", "pre")),
    ]),
    "C18": (["TdmsProofs.Properties.C18Tied"], [
        (S, "Range.within_range: `value < self.end` -> `<=` (unbounded start)", TC, sub("            return value < self.end", "            return value <= self.end")),
        (S, "Range.within_range: `self.start <= value` -> `<` (unbounded end)", TC, sub("            return self.start <= value", "            return self.start < value")),
        (S, "Range.within_range: `&` -> `|`", TC, sub("return (self.start <= value) & (value < self.end)", "return (self.start <= value) | (value < self.end)")),
        (S, "_verify_contiguous: `start != prev_end` -> `==`", TC, sub("polynomial.applicable_range.start != prev_end", "polynomial.applicable_range.start == prev_end")),
        (S, "Range.__init__: `start >= end` -> `>`", TC, sub("and start >= end:", "and start > end:")),
        (C, "comment added", TC, after_line("Range.within_range", "if self.start is None:", "# a harmless comment")),
        (C, "local `prev_end` renamed in _verify_contiguous", TC, rename("_verify_contiguous", "prev_end", "last_end")),
        (C, "docstring of class Range changed", TC, sub('""" A range with inclusive start and exclusive end\n    """', '""" Half open range. """')),
    ]),
    "C07": (["TdmsProofs.Properties.C07Tied", "TdmsProofs.Properties.C08Tied"], [
        (S, "to_int_property_value: `value >= 2 ** 63` -> `>`", WR, sub("if value >= 2 ** 63:", "if value > 2 ** 63:")),
        (S, "to_int_property_value: `value < -2 ** 31` -> `<=`", WR, sub("if value >= 2 ** 31 or value < -2 ** 31:", "if value >= 2 ** 31 or value <= -2 ** 31:")),
        (S, "_infer_dtype: int64 threshold 2**32 -> 2**31", WR, sub("elif max_value >= 2**32 or min_value < -1 * 2**31:", "elif max_value >= 2**31 or min_value < -1 * 2**31:")),
        (S, "_infer_dtype: `max >= 2**31 and min >= 0` -> `or`", WR, sub("elif max_value >= 2**31 and min_value >= 0:", "elif max_value >= 2**31 or min_value >= 0:")),
        (S, "_path_ordering_key: keys of groups and channels swapped", WR, in_function("_path_ordering_key", lambda t: t.replace("return 1", "return @").replace("return 2", "return 1").replace("return @", "return 2"))),
        (S, "ObjectPath.is_group: `self.channel is None` -> `is not None`", CM, sub("return self.group is not None and self.channel is None", "return self.group is not None and self.channel is not None")),
        (S, "raw_data_index: index length 20 -> 24", WR, sub("data_index = [Uint32(20), data_type, dimension, num_values]", "data_index = [Uint32(24), data_type, dimension, num_values]")),
        (S, "raw_data_index: total size of string data not appended", WR, sub("                data_index.append(Uint64(total_size))\n", "")),
        (S, "raw_data_index: `!= Void` -> `== Void`", WR, sub("if hasattr(obj, 'data') and obj.data_type != Void:", "if hasattr(obj, 'data') and obj.data_type == Void:")),
        (S, "object_data_size: `4 + len(s)` -> `8 + len(s)`", WR, sub("return sum(4 + len(s) for s in encoded_strings)", "return sum(8 + len(s) for s in encoded_strings)")),
        (S, "leadin: `toc_mask | flag` -> `&`", WR, sub("toc_mask = toc_mask | toc_properties[toc_flag]", "toc_mask = toc_mask & toc_properties[toc_flag]")),
        (S, "leadin: next segment offset without the metadata size", WR, sub("next_segment_offset = metadata_size + self._data_size()", "next_segment_offset = self._data_size()")),
        (S, "leadin: tags of data file and index file swapped", WR, sub("Bytes(b'TDSh' if self.is_index_file else b'TDSm')", "Bytes(b'TDSm' if self.is_index_file else b'TDSh')")),
        (S, "_data_size: `hasattr(obj, 'data')` -> `hasattr(obj, 'properties')`", WR, in_function("TdmsSegment._data_size", sub("if hasattr(obj, 'data'):", "if hasattr(obj, 'properties'):"))),
        (S, "_to_tdms_value: `int` tested before `bool` (a bool is written as Int32)", WR, in_function("_to_tdms_value", sub("    if isinstance(value, bool) or isinstance(value, np.bool_):\n        return Boolean(value)\n    if isinstance(value, int):\n        return to_int_property_value(value)\n", "    if isinstance(value, int):\n        return to_int_property_value(value)\n    if isinstance(value, bool) or isinstance(value, np.bool_):\n        return Boolean(value)\n"))),
        (S, "_to_tdms_value: a float is written as a String", WR, in_function("_to_tdms_value", sub("        return DoubleFloat(value)", "        return String(value)"))),
        (S, "_to_tdms_value: `datetime` branch removed", WR, in_function("_to_tdms_value", sub("    if isinstance(value, datetime):\n        return TimeStamp(value)\n", ""))),
        (S, "_to_tdms_value: `float` tested before `np.number` (np.float64 loses its numpy type)", WR, in_function("_to_tdms_value", lambda t: t.replace("    if isinstance(value, np.number):\n        return numpy_data_types[value.dtype](value)\n", "").replace("    if isinstance(value, float):\n        return DoubleFloat(value)\n", "    if isinstance(value, float):\n        return DoubleFloat(value)\n    if isinstance(value, np.number):\n        return numpy_data_types[value.dtype](value)\n"))),
        (C, "comment added in _to_tdms_value", WR, after_line("_to_tdms_value", "if isinstance(value, np.number):", "# a harmless comment")),
        (C, "comment added", WR, after_line("TdmsSegment.leadin", "toc_mask = 0", "# a harmless comment")),
        (C, "local `data_index` renamed in raw_data_index", WR, rename("TdmsSegment.raw_data_index", "data_index", "index")),
        (C, "local `toc_mask` renamed in leadin", WR, rename("TdmsSegment.leadin", "toc_mask", "mask")),
        (C, "local `max_value` renamed in _infer_dtype", WR, rename("_infer_dtype", "max_value", "hi")),
    ]),
    "C08": (["TdmsProofs.Properties.C08TiedSegment"], [
        (S, "write_segment: `add_root = not written and not any(root)` -> `or`", WR, sub("add_root = (not self._root_written) and (not any(p[0].is_root for p in path_object_pairs))", "add_root = (not self._root_written) or (not any(p[0].is_root for p in path_object_pairs))")),
        (S, "write_segment: groups already written are added again", WR, sub("groups_to_add = sorted(groups_required - groups_included - self._groups_written)", "groups_to_add = sorted(groups_required - groups_included)")),
        (S, "write_segment: the objects are not sorted (root / groups / channels)", WR, sub("        path_object_pairs.sort(key=lambda p: _path_ordering_key(p[0]))\n", "")),
        (S, "write_segment: `is_group` / `is_channel` swapped in the included groups", WR, sub("groups_included = set(p[0].group for p in path_object_pairs if p[0].is_group)", "groups_included = set(p[0].group for p in path_object_pairs if p[0].is_channel)")),
        (S, "write_segment: added groups appended BEFORE the root object", WR, sub("        if add_root:\n            path_object_pairs.append((ObjectPath(), RootObject()))\n        if groups_to_add:\n            path_object_pairs.extend((ObjectPath(g), GroupObject(g)) for g in groups_to_add)\n", "        if groups_to_add:\n            path_object_pairs.extend((ObjectPath(g), GroupObject(g)) for g in groups_to_add)\n        if add_root:\n            path_object_pairs.append((ObjectPath(), RootObject()))\n")),
        (S, "write_segment: type guard `written_type != data_type` -> `==`", WR, sub("if written_type != data_type:", "if written_type == data_type:")),
        (S, "write_segment: Void data takes part in the type guard", WR, sub("for o in objects if hasattr(o, 'data') and o.data_type != Void)", "for o in objects if hasattr(o, 'data'))")),
        (S, "TdmsSegment.__init__: duplicate check `!=` -> `>`", WR, sub("if len(paths) != len(objects):", "if len(paths) > len(objects):")),
        (S, "write_segment: `_root_written` stays False", WR, sub("self._root_written = True", "self._root_written = False")),
        (S, "write_segment: the added groups are not remembered", WR, sub("        self._groups_written.update(groups_to_add)\n", "")),
        (C, "comment added", WR, after_line("TdmsWriter.write_segment", "add_root = ", "# a harmless comment")),
        (C, "local `groups_required` renamed", WR, rename("TdmsWriter.write_segment", "groups_required", "needed")),
        (C, "local `add_root` renamed", WR, rename("TdmsWriter.write_segment", "add_root", "need_root")),
        (C, "lambda parameter renamed in the sort key", WR, sub("key=lambda p: _path_ordering_key(p[0])", "key=lambda pair: _path_ordering_key(pair[0])")),
    ]),
    "C20": (["TdmsProofs.Properties.C20Tied"], [
        (S, "TdmsReader.close: closes `_file` whenever it is set (also a caller's stream)", RD, in_function("TdmsReader.close", sub("if self._file_path is not None:", "if self._file is not None:"))),
        (S, "TdmsReader.close: the index file is not closed", RD, in_function("TdmsReader.close", sub("            self._index_file.close()\n", "            pass\n"))),
        (S, "TdmsReader.close: `_file is None and _index_file is None` -> `or`", RD, in_function("TdmsReader.close", sub("if self._file is None and self._index_file is None:", "if self._file is None or self._index_file is None:"))),
        (S, "TdmsReader.close: the reference to the index file is kept", RD, in_function("TdmsReader.close", sub("\n        self._index_file = None", ""))),
        (S, "TdmsWriter.open: the index file is opened from the data file's path", WR, in_function("TdmsWriter.open", sub("self._index_file = open(self._index_file_path,", "self._index_file = open(self._file_path,"))),
        (S, "TdmsWriter.close: the index file is closed when the DATA path is set", WR, in_function("TdmsWriter.close", sub("if self._index_file_path is not None:", "if self._file_path is not None:"))),
        (S, "TdmsReader.__init__: a TDSm stream is stored as the index file", RD, in_function("TdmsReader.__init__", sub('            elif tag == b"TDSm":\n                self._file = tdms_file', '            elif tag == b"TDSm":\n                self._index_file = tdms_file'))),
        (S, "TdmsReader.__init__: index path recognised by `.tdms` instead of `.tdms_index`", RD, in_function("TdmsReader.__init__", sub('if source_path.endswith(".tdms_index"):', 'if source_path.endswith(".tdms"):'))),
        (S, "TdmsReader.__init__: the index file beside the data file is opened but its path is not remembered (never closed)", RD, in_function("TdmsReader.__init__", sub("                    self._index_file_path = filepath\n                    self._index_file = open(self._index_file_path, \"rb\")", "                    self._index_file = open(filepath, \"rb\")"))),
        (S, "TdmsReader.__init__: `if os.path.isfile(filepath)` -> `if not …`", RD, in_function("TdmsReader.__init__", sub("if os.path.isfile(filepath):", "if not os.path.isfile(filepath):"))),
        (S, "TdmsReader.__init__: an unknown tag is accepted as a data file", RD, in_function("TdmsReader.__init__", sub('            elif tag == b"TDSm":\n', '            elif tag != b"TDSh":\n'))),
        (C, "local `filepath` renamed in TdmsReader.__init__", RD, rename("TdmsReader.__init__", "filepath", "index_path")),
        (C, "comment added", RD, after_line("TdmsReader.close", "self._file = None", "# a harmless comment")),
        (C, "docstring added to TdmsWriter.close", WR, after_line("TdmsWriter.close", "def close(self):", '    """ Close what was opened. """')),
    ]),
}


GENERATED = ("Code.lean", "Code2.lean")


def prepare_project(idx):
    """a private copy of the lake project (with its build directory, so that only changed modules rebuild)"""
    dst = os.path.join(SCRATCH, "p%d" % idx)
    if os.path.exists(dst):
        shutil.rmtree(dst)
    shutil.copytree(LEAN, dst, symlinks=True)
    return dst


def run_case(project, group, targets, kind, desc, rel, edit, baseline):
    t0 = time.time()
    with open(os.path.join(REPO, rel)) as f:
        original = f.read()
    try:
        mutated = edit(original)
    except AssertionError as ex:
        return dict(group=group, kind=kind, desc=desc, outcome="EDIT-FAILED: %s" % ex, ok=False, secs=0.0)
    assert mutated != original, desc
    try:
        codes = (pyast2lean.generate(REPO, overrides={rel: mutated}, strict=True),
                 pyast2lean.generate2(REPO, overrides={rel: mutated}, strict=True))
    except pyast2lean.Untranslatable as ex:
        outcome = "untranslatable: %s" % ex.reason[:70]
        return dict(group=group, kind=kind, desc=desc, outcome=outcome, ok=(kind == S), secs=time.time() - t0)
    if codes == baseline:
        return dict(group=group, kind=kind, desc=desc, outcome="same Code.lean / Code2.lean", ok=(kind == C), secs=time.time() - t0)
    for fname, code in zip(GENERATED, codes):
        with open(os.path.join(project, "Tdms", "Generated", fname), "w") as f:
            f.write(code)
    r = subprocess.run(["lake", "build"] + targets, cwd=project, stdout=subprocess.PIPE, stderr=subprocess.STDOUT, text=True)
    built = r.returncode == 0
    where = ""
    if not built:
        m = re.search(r"error: (\S+\.lean):(\d+)", r.stdout)
        where = " (%s:%s)" % (os.path.basename(m.group(1)), m.group(2)) if m else ""
    outcome = "builds" if built else "build FAILS" + where
    return dict(group=group, kind=kind, desc=desc, outcome=outcome, ok=(built == (kind == C)), secs=time.time() - t0)


def worker(idx, cases, baseline):
    project = prepare_project(idx)
    out = []
    for case in cases:
        out.append(run_case(project, *case, baseline))
    # leave the scratch project with the baseline files
    for fname, code in zip(GENERATED, baseline):
        with open(os.path.join(project, "Tdms", "Generated", fname), "w") as f:
            f.write(code)
    return out


def main():
    ap = argparse.ArgumentParser()
    ap.add_argument("--jobs", type=int, default=6)
    ap.add_argument("--only", default="")
    ap.add_argument("--keep", action="store_true")
    args = ap.parse_args()
    t0 = time.time()
    baseline = (pyast2lean.generate(REPO), pyast2lean.generate2(REPO))
    for fname, code in zip(GENERATED, baseline):
        with open(os.path.join(LEAN, "Tdms", "Generated", fname)) as f:
            assert f.read() == code, "lean/Tdms/Generated/%s is not up to date: run harness/translate.py first" % fname
    only = [x for x in args.only.split(",") if x]
    cases = []
    for group, (targets, muts) in GROUPS.items():
        if only and group not in only:
            continue
        prop = os.path.join(LEAN, *targets[0].split(".")) + ".lean"
        if not os.path.exists(prop):
            print("(skipping %s: %s does not exist)" % (group, os.path.relpath(prop, LEAN)))
            continue
        for (kind, desc, rel, edit) in muts:
            cases.append((group, targets, kind, desc, rel, edit))
    os.makedirs(SCRATCH, exist_ok=True)
    jobs = max(1, min(args.jobs, len(cases)))
    buckets = [cases[i::jobs] for i in range(jobs)]
    results = []
    with concurrent.futures.ThreadPoolExecutor(jobs) as ex:
        for res in ex.map(lambda a: worker(a[0], a[1], baseline), enumerate(buckets)):
            results += res
    order = {g: i for i, g in enumerate(GROUPS)}
    results.sort(key=lambda r: (order[r["group"]], r["kind"] != S))
    print("| group | kind | edit | result | expected | ok | s |")
    print("|---|---|---|---|---|---|---|")
    for r in results:
        print("| %s | %s | %s | %s | %s | %s | %.0f |" % (
            r["group"], r["kind"], r["desc"], r["outcome"], "tie breaks" if r["kind"] == S else "tie holds",
            "yes" if r["ok"] else "NO", r["secs"]))
    bad = [r for r in results if not r["ok"]]
    print("\n%d cases, %d as expected, %d not; %.0f s" % (len(results), len(results) - len(bad), len(bad), time.time() - t0))
    if not args.keep:
        shutil.rmtree(SCRATCH, ignore_errors=True)
    return 1 if bad else 0


if __name__ == "__main__":
    sys.exit(main())
