"""Seeded generator of DAQmx file encodings (same description format as gen_files.py).

1-3 segments; 1-3 channels with 1-3 format-changing scalers or digital-line scalers; 1-3 raw buffers with
arbitrary widths >= the scalers they hold (padding allowed) and per-buffer chunk lengths; 1-3 chunks;
both byte orders; random buffer bytes.
"""
from gen_files import path_of, rand_prop

DAQ_TYPES = {0: 1, 1: 1, 2: 2, 3: 2, 4: 4, 5: 4, 6: 8, 7: 8, 8: 4, 9: 8, 0xFFFFFFFF: 16}   # DAQmx code -> size
DAQ_TO_TDMS = {0: 5, 1: 1, 2: 6, 3: 2, 4: 7, 5: 3, 6: 8, 7: 4, 8: 9, 9: 10, 0xFFFFFFFF: 0x44}
INT_CODES = [0, 1, 2, 3, 4, 5, 6, 7]
T_RAW = 0xFFFFFFFF


def draw(rnd, byte_digital_only=False, max_segs=3, allow_props=True, disjoint=False, switch_off=True, reenable=False):
    nbuf = rnd.randint(1, 3)
    lens = [rnd.randint(0, 4) for _ in range(nbuf)]
    if all(l == 0 for l in lens):
        lens[0] = rnd.randint(1, 4)
    digital = rnd.random() < 0.3
    nch = rnd.randint(1, 3)
    # every buffer with rows must be used: assign buffers to channels round-robin first
    widths = [0] * nbuf
    chans = []
    used = set()
    cursor = [0] * nbuf
    fields = []
    for ci in range(nch):
        name = "c%d" % ci
        # buffers of one length class
        b0 = rnd.randrange(nbuf)
        same = [b for b in range(nbuf) if lens[b] == lens[b0]]
        n = lens[b0]
        raw_type = rnd.random() < 0.7
        nsc = rnd.randint(1, 3) if raw_type else 1
        scalers = []
        for si in range(nsc):
            b = rnd.choice(same)
            used.add(b)
            if digital:
                code = rnd.choice([0, 1] if byte_digital_only else INT_CODES)
                size = DAQ_TYPES[code]
                bit = rnd.randint(0, 8 * 6 - 1)
                if disjoint:
                    bit = 8 * (cursor[b] + rnd.choice([0, 0, 1])) + rnd.randint(0, 7)
                    cursor[b] = bit // 8 + size
                off = bit
                need = bit // 8 + size
                fields.append((b, bit // 8, size))
            elif disjoint:
                code = rnd.choice(list(DAQ_TYPES)[:-1])
                size = DAQ_TYPES[code]
                off = cursor[b] + rnd.choice([0, 0, 1, 2])
                cursor[b] = off + size
                need = off + size
                fields.append((b, off, size))
            else:
                code = rnd.choice(list(DAQ_TYPES)[:-1])  # timestamp scalers (code 0xFFFFFFFF) cannot be stored by DaqmxDataReceiver: see DESIGN 6.9
                size = DAQ_TYPES[code]
                off = rnd.randint(0, 10)
                need = off + size
            widths[b] = max(widths[b], need + rnd.choice([0, 0, 1, 3]))
            scalers.append([code, b, off, rnd.getrandbits(8 if digital else 16), si if rnd.random() < 0.7 else si + 10])
        ty = T_RAW if raw_type else DAQ_TO_TDMS[scalers[0][0]]
        chans.append(dict(path=path_of("daq", name), ty=ty, n=n, scalers=scalers))
    for b in range(nbuf):
        if b not in used:
            lens[b] = 0
        if widths[b] == 0:
            widths[b] = rnd.randint(1, 4)
    segs = []
    nseg = rnd.randint(1, max_segs)
    live = set(range(len(chans)))        # channels that currently have data
    listed = set()                       # channels in the current object list
    defined = set()                      # channels whose DAQmx index was stated in full at least once
    off_now = set()                      # channels last declared "no data"
    for si in range(nseg):
        big = rnd.random() < 0.5
        objs = []
        if si == 0 or rnd.random() < 0.5:
            has_meta, new_list = True, (si == 0 or rnd.random() < 0.5)
            if new_list:
                listed = set()
                keep = [ci for ci in range(len(chans)) if si == 0 or rnd.random() < 0.8] or [rnd.randrange(len(chans))]
                live = set()
            else:
                keep = [ci for ci in range(len(chans)) if rnd.random() < 0.6]
            for ci in keep:
                c = chans[ci]
                was_live = ci in live
                r = rnd.random()
                if si > 0 and not new_list and switch_off and r < 0.2:
                    idx = ("N",)         # an object of the list switched off: it keeps its place but has no data from here on
                    live.discard(ci)
                elif si > 0 and was_live and ci in listed and r < 0.6:
                    idx = ("M",)
                elif reenable and ci in off_now and ci in defined and r < 0.8:
                    idx = ("M",)         # switched off earlier, re-enabled by "same as before": the index stated before the switch-off applies again
                    live.add(ci)
                else:
                    idx = ("D", digital, c["ty"], c["n"], c["scalers"], widths)
                    live.add(ci)
                listed.add(ci)
                if idx[0] == "D":
                    defined.add(ci)
                (off_now.add if idx[0] == "N" else off_now.discard)(ci)
                props = [rand_prop(rnd) for _ in range(rnd.choice([0, 0, 1]))] if allow_props else []
                objs.append(dict(path=c["path"], idx=idx, props=props))
            if si == 0 and rnd.random() < 0.5:
                objs = [dict(path=path_of(), idx=("N",), props=[]), dict(path=path_of("daq"), idx=("N",), props=[])] + objs
        else:
            has_meta, new_list = False, False
        # a raw buffer has rows only while a channel with data has a scaler in it
        eff = [lens[b] if any(sc[1] == b for ci in live for sc in chans[ci]["scalers"]) else 0 for b in range(nbuf)]
        chunk_bytes = sum(eff[b] * widths[b] for b in range(nbuf))
        nchunks = rnd.randint(1, 3) if chunk_bytes > 0 else 0
        chunks = [[[bytes(rnd.getrandbits(8) for _ in range(widths[b])) for _ in range(eff[b])] for b in range(nbuf)] for _ in range(nchunks)]
        segs.append(dict(hasMeta=has_meta, newList=new_list, interleaved=False, big=big, rawFlag=nchunks > 0, daqmxFlag=True,
                         lengthUnknown=False, version=4713, padding=0, objs=objs, chunks=chunks))
    segs[0]["_fields"] = fields
    return segs


def reorder(segs, bigs):
    """the same scaler VALUES with a different byte order per segment (needs draw(disjoint=True)): reverse each scaler field in every row"""
    import copy
    fields = segs[0]["_fields"]
    out = copy.deepcopy(segs)
    for s, big in zip(out, bigs):
        if s["big"] != big:
            s["big"] = big
            for ch in s["chunks"]:
                for b, rows in enumerate(ch):
                    for ri, row in enumerate(rows):
                        row = bytearray(row)
                        for fb, off, size in fields:
                            if fb == b:
                                row[off:off + size] = row[off:off + size][::-1]
                        rows[ri] = bytes(row)
    return out


def expected_values(segs):
    """direct byte arithmetic: {path: {scale_id or None: [value bytes LE]}} — the C11 oracle, independent of model and code"""
    out = {}
    active = {}
    order = []
    off_now = set()
    for s in segs:
        if s["hasMeta"]:
            if s["newList"]:
                order = []
            for ob in s["objs"]:
                if ob["idx"][0] == "D":
                    active[ob["path"]] = ob["idx"]
                    off_now.discard(ob["path"])
                if ob["idx"][0] == "N" and ob["path"] in active:
                    off_now.add(ob["path"])
                if ob["idx"][0] in ("D", "M") and ob["path"] not in order:
                    order.append(ob["path"])
        for ch in s["chunks"]:
            for p in order:
                if p in off_now:
                    continue
                _, dg, ty, n, scalers, widths = active[p]
                for code, b, off, _bm, sid in scalers:
                    size = DAQ_TYPES[code]
                    vals = []
                    for row in ch[b]:
                        boff = off // 8 if dg else off
                        raw = row[boff:boff + size]
                        if dg:
                            v = int.from_bytes(raw, "big" if s["big"] else "little")
                            vals.append(((v >> (off % 8)) & 1).to_bytes(size, "little"))
                        elif s["big"]:
                            vals.append(raw[::-1])
                        else:
                            vals.append(raw)
                    key = sid if ty == T_RAW else None
                    out.setdefault(p, {}).setdefault(key, [])
                    out[p][key] += vals
    return out
