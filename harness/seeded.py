#!/venv/bin/python
"""Runs the checks against the seeded changes kept under /verif/seeded/<id>/ (patch.diff, demo, meta.json).

  harness/seeded.py list
  harness/seeded.py run <id> [--all] [--tier quick|thorough] [--seeds 0,1]   apply the patch to /repo, run the check(s) of the
                                                                             property it breaks (or all 20), undo the patch
  harness/seeded.py matrix                                                   run every seeded change, write seeded/MATRIX.md

The patch is applied with `git -C /repo apply` and ALWAYS undone with `git -C /repo checkout -- .`; nothing is committed.
Not part of any registered check.
"""
import json
import os
import subprocess
import sys
import time

HERE = os.path.dirname(os.path.abspath(__file__))
VERIF = os.path.dirname(HERE)
SEEDED = os.path.join(VERIF, "seeded")
REPO = "/repo"
ALL = ["C%02d" % i for i in range(1, 21)]


def sh(cmd, **kw):
    return subprocess.run(cmd, stdout=subprocess.PIPE, stderr=subprocess.STDOUT, text=True, **kw)


def repo_clean():
    return sh(["git", "-C", REPO, "status", "--porcelain", "--untracked-files=no"]).stdout.strip() == ""


def run_check(pid, tier, seed):
    env = dict(os.environ, VERIF_SEED=str(seed))
    t0 = time.time()
    p = sh([os.path.join(VERIF, "check"), pid, "--tier", tier], env=env, cwd=VERIF, timeout=3600)
    lines = [l for l in p.stdout.split("\n") if l.startswith(("VIOLATION", "KNOWN-FINDING", "OK ", "FAIL ", "INFRA"))]
    first = next((l for l in p.stdout.split("\n") if l.startswith("  ")), "")
    return dict(property=pid, tier=tier, seed=seed, exit=p.returncode, wall_s=round(time.time() - t0, 1),
                violation_lines=[l for l in lines if l.startswith("VIOLATION")][:3], first_detail=first.strip()[:300],
                no_failing_input=any("no-failing-input-found" in l for l in lines))


def run_one(sid, all_checks=False, tier="quick", seeds=(0,)):
    d = os.path.join(SEEDED, sid)
    meta = json.load(open(os.path.join(d, "meta.json")))
    if not repo_clean():
        raise SystemExit("/repo has uncommitted changes; refusing to apply a seeded patch")
    results = []
    try:
        p = sh(["git", "-C", REPO, "apply", os.path.join(d, "patch.diff")])
        if p.returncode != 0:
            raise SystemExit("patch does not apply: " + p.stdout)
        props = ALL if all_checks else [meta["property"]] + [x for x in meta.get("also", [])]
        for pid in props:
            for seed in seeds:
                results.append(run_check(pid, tier, seed))
    finally:
        sh(["git", "-C", REPO, "checkout", "--", "."])
        # generated Lean files follow the tree: regenerate for the clean tree
        sh(["/venv/bin/python", os.path.join(HERE, "translate.py")])
    caught = [r for r in results if r["exit"] == 1]
    out = dict(id=sid, property=meta["property"], summary=meta.get("summary"), results=results,
               caught_by=sorted({r["property"] for r in caught}), caught=bool(caught),
               with_failing_input=any(r["exit"] == 1 and not r["no_failing_input"] for r in results))
    with open(os.path.join(d, "result.json"), "w") as f:
        json.dump(out, f, indent=1)
    return out


def main():
    a = sys.argv[1:]
    if not a or a[0] == "list":
        for sid in sorted(os.listdir(SEEDED)):
            mp = os.path.join(SEEDED, sid, "meta.json")
            if os.path.exists(mp):
                m = json.load(open(mp))
                print(sid, m["property"], m.get("summary", "")[:100])
        return 0
    if a[0] == "run":
        sid = a[1]
        tier = a[a.index("--tier") + 1] if "--tier" in a else "quick"
        seeds = tuple(int(x) for x in a[a.index("--seeds") + 1].split(",")) if "--seeds" in a else (0,)
        out = run_one(sid, "--all" in a, tier, seeds)
        for r in out["results"]:
            print("%s %s seed=%d exit=%d %.0fs %s %s" % (sid, r["property"], r["seed"], r["exit"], r["wall_s"],
                                                        "no-failing-input-found" if r["no_failing_input"] else "", r["first_detail"][:140]))
        print("CAUGHT" if out["caught"] else "MISSED", sid, out["caught_by"])
        return 0
    if a[0] == "matrix":
        rows = []
        for sid in sorted(os.listdir(SEEDED)):
            if os.path.exists(os.path.join(SEEDED, sid, "meta.json")):
                out = run_one(sid, "--all" in a)
                rows.append(out)
                print(sid, "CAUGHT" if out["caught"] else "MISSED", out["caught_by"])
        with open(os.path.join(SEEDED, "MATRIX.md"), "w") as f:
            f.write("| seeded change | breaks | caught by | with failing input | summary |\n|---|---|---|---|---|\n")
            for o in rows:
                f.write("| %s | %s | %s | %s | %s |\n" % (o["id"], o["property"], ", ".join(o["caught_by"]) or "MISSED", o["with_failing_input"], (o["summary"] or "")[:120]))
        return 0
    return 2


if __name__ == "__main__":
    sys.exit(main())
