"""Lazy reads: correspondence of the Lean lazy model with `TdmsFile.open`, and the property oracles
of C03/C04/C05/C19 evaluated on the real implementation only."""
import io
import os
import sys

import numpy as np

sys.path.insert(0, os.path.dirname(os.path.abspath(__file__)))
import canon
from leanio import hx


class RecordingStream(io.BytesIO):
    """BytesIO that logs (position, bytes returned) of every read/readinto"""

    def __init__(self, data):
        super().__init__(data)
        self.log = []

    def read(self, n=-1):
        pos = self.tell()
        b = super().read(n)
        if len(b):
            self.log.append((pos, len(b)))
        return b

    def readinto(self, buf):
        pos = self.tell()
        k = super().readinto(buf)
        if k:
            self.log.append((pos, k))
        return k

    def take_log(self):
        lg, self.log = self.log, []
        return lg


def merge_ranges(log):
    """set of fetched byte ranges: sorted, adjacent/overlapping ranges merged"""
    rs = sorted((p, p + n) for p, n in log if n > 0)
    out = []
    for a, b in rs:
        if out and a <= out[-1][1]:
            out[-1][1] = max(out[-1][1], b)
        else:
            out.append([a, b])
    return out


def canon_out(x):
    """result of a real read -> the model's ReadOut shape"""
    if isinstance(x, dict):
        return dict(data=None, scalers=[[int(k), canon.value_bytes(v)] for k, v in x.items()])
    return dict(data=canon.value_bytes(x), scalers=[])


def call(fn):
    try:
        return ("ok", fn())
    except Exception as ex:  # noqa
        return ("err", canon.err_kind(ex), "%s: %s" % (type(ex).__name__, str(ex)[:160]))


def open_real(data, nptdms, raw_timestamps=True, **kw):
    st = RecordingStream(data)
    f = nptdms.TdmsFile.open(st, raw_timestamps=raw_timestamps, **kw)
    st.take_log()
    return f, st


def channels_of(f):
    return [c for g in f.groups() for c in g.channels()]


def full_raw(ch):
    """full unscaled data through the eager path of a *separate* eager read is done by callers; here lazy full read"""
    return ch.read_data(scaled=False)


def slice_list(vals, a, b, c):
    return vals[slice(a, b, c)]


def windows_for(n, rnd, exhaustive, k=2, sample=40):
    ws = [(o, l) for o in range(0, n + k + 1) for l in list(range(0, n + k + 1)) + [None]]
    if exhaustive or len(ws) <= sample:
        return ws
    return rnd.sample(ws, sample)


def slices_for(n, rnd, exhaustive, k=2, sample=60):
    rng = [None] + list(range(-n - k, n + k + 1))
    steps = sorted({None, 1, -1, 2, -2, 3, -3, 0, max(n, 1), -max(n, 1)}, key=lambda x: (x is None, x))
    allc = [(a, b, c) for a in rng for b in rng for c in steps]
    if exhaustive or len(allc) <= sample:
        return allc
    return rnd.sample(allc, sample)


def tok(x):
    return "N" if x is None else str(x)


def compare_windows(model, data, f, st, ch, windows, eager_vals, check_trace=True):
    """returns (disagreements, violations) for read_data(off, len) of one channel.
    eager_vals: list of hex values of the full channel (oracle), or None for DAQmx"""
    p = ch.path.encode("utf-8")
    dis, vio = [], []
    mres = None
    if model is not None:
        r = model.ask("wins %s %s %s" % (hx(data), hx(p), " ".join("%d:%s" % (o, tok(l)) for o, l in windows)))
        mres = r.get("results") if r.get("ok") else [dict(err=r.get("err"))] * len(windows)
    for i, (o, l) in enumerate(windows):
        st.take_log()
        real = call(lambda: ch.read_data(o, l, scaled=False))
        trace = merge_ranges(st.take_log())
        if real[0] == "ok":
            rc = canon_out(real[1])
        if eager_vals is not None:
            exp = eager_vals[o:] if l is None else eager_vals[o:o + l]
            if real[0] != "ok":
                vio.append(dict(what="read_data(%d, %s) raised %s" % (o, l, real[2]), path=p.hex(), offset=o, length=l, expected=exp))
            elif (rc["data"] or []) != exp:
                vio.append(dict(what="read_data(%d, %s) != full[%d:%s]" % (o, l, o, "" if l is None else o + l), path=p.hex(),
                                offset=o, length=l, expected=exp, got=rc["data"]))
        if mres is not None:
            m = mres[i]
            if real[0] == "ok":
                if "err" in m:
                    dis.append(dict(what="window (%d,%s) of %r: model error %s, real ok" % (o, l, p, m["err"])))
                else:
                    mo = m["out"] if m["out"] is not None else dict(data=[], scalers=[])
                    if (mo["data"] or []) != (rc["data"] or []) or canon.norm(mo["scalers"]) != canon.norm(rc["scalers"]):
                        dis.append(dict(what="window (%d,%s) of %r: values differ" % (o, l, p), model=mo, real=rc))
                    elif check_trace and merge_ranges(m["trace"]) != trace:
                        dis.append(dict(what="window (%d,%s) of %r: I/O trace differs" % (o, l, p), model=merge_ranges(m["trace"]), real=trace))
            else:
                if "err" not in m or m["err"] != real[1]:
                    dis.append(dict(what="window (%d,%s) of %r: real raised %s, model %s" % (o, l, p, real[2], m.get("err", "ok"))))
    return dis, vio


def compare_slices(model, data, f, st, ch, slices, eager_vals):
    p = ch.path.encode("utf-8")
    dis, vio = [], []
    mres = None
    if model is not None:
        r = model.ask("slices %s %s %s" % (hx(data), hx(p), " ".join("%s:%s:%s" % (tok(a), tok(b), tok(c)) for a, b, c in slices)))
        mres = r.get("results") if r.get("ok") else [dict(err=r.get("err"))] * len(slices)
    for i, (a, b, c) in enumerate(slices):
        real = call(lambda: ch[a:b:c])
        if eager_vals is not None:
            if c == 0:
                if real[0] == "ok" or real[1] != "stepZero":
                    vio.append(dict(what="channel[%s:%s:0] did not raise ValueError" % (a, b), path=p.hex(), slice=[a, b, c]))
            else:
                exp = eager_vals[slice(a, b, c)]
                if real[0] != "ok":
                    vio.append(dict(what="channel[%s:%s:%s] raised %s" % (a, b, c, real[2]), path=p.hex(), slice=[a, b, c], expected=exp))
                elif canon.value_bytes(real[1]) != exp:
                    vio.append(dict(what="channel[%s:%s:%s] != full[...]" % (a, b, c), path=p.hex(), slice=[a, b, c], expected=exp,
                                    got=canon.value_bytes(real[1])))
        if mres is not None:
            m = mres[i]
            if real[0] == "ok":
                if "err" in m or m["out"] != canon.value_bytes(real[1]):
                    dis.append(dict(what="slice [%s:%s:%s] of %r: model %s real %s" % (a, b, c, p, str(m)[:120], str(canon.value_bytes(real[1]))[:120])))
            elif m.get("err") != real[1]:
                dis.append(dict(what="slice [%s:%s:%s] of %r: real raised %s, model %s" % (a, b, c, p, real[2], str(m)[:80])))
    return dis, vio


def observe_chunk(kind, chunk):
    """what a delivered chunk object says about itself NOW (a chunk must stay what it was when it was delivered)"""
    if kind == "c":
        return dict(v=chan_chunk(chunk._raw_data), offset=int(chunk.offset))
    cc, offs = [], []
    for g in chunk.groups():
        for c in g.channels():
            raw = c._raw_data
            if raw.data is not None or raw.scaler_data is not None:
                cc.append([c._channel.path.encode("utf-8").hex(), chan_chunk(raw)])
            offs.append([c._channel.path.encode("utf-8").hex(), int(c.offset)])
    return dict(v=cc, offsets=offs)


def real_op(f, its, op, keep=None):
    """execute one op of a history on the real open file; returns canonical output. `keep`: a list that receives every delivered
    chunk object (kind, chunk) BEFORE it is looked at, so that the caller can look at it later"""
    chans = {c.path.encode("utf-8"): c for c in channels_of(f)}
    k = op[0]
    try:
        if k == "I":
            v = chans[op[1]][op[2]]
            return dict(k="value", v=canon.scalar_hex(v))
        if k == "S":
            return dict(k="values", v=canon.value_bytes(chans[op[1]][op[2]:op[3]:op[4]]))
        if k == "R":
            out = chans[op[1]].read_data(op[2], op[3], scaled=False)
            return dict(k="read", v=canon_out(out))
        if k == "C":
            its.append(("c", chans[op[1]].data_chunks(), chans[op[1]]))
            return dict(k="iter", v=len(its) - 1)
        if k == "F":
            its.append(("f", f.data_chunks(), None))
            return dict(k="iter", v=len(its) - 1)
        if k == "X":
            if op[1] >= len(its):
                return dict(k="baditer")
            kind, gen, ch = its[op[1]]
            try:
                chunk = next(gen)
            except StopIteration:
                return dict(k="stop")
            if keep is not None:
                keep.append((kind, chunk))
                # looked at only after the history has gone on (first look = late look): report what a fresh look gives now
            if kind == "c":
                raw = chunk._raw_data
                return dict(k="chanchunk", v=chan_chunk(raw), offset=int(chunk.offset))
            groups = chunk.groups()
            cc = []
            offs = []
            for g in groups:
                for c in g.channels():
                    raw = c._raw_data
                    if raw.data is not None or raw.scaler_data is not None:
                        cc.append([c._channel.path.encode("utf-8").hex(), chan_chunk(raw)])
                    offs.append([c._channel.path.encode("utf-8").hex(), int(c.offset)])
            return dict(k="filechunk", v=cc, offsets=offs)
    except Exception as ex:  # noqa
        return dict(k="error", v=canon.err_kind(ex), exc="%s: %s" % (type(ex).__name__, str(ex)[:160]))
    raise ValueError(op)


def chan_chunk(raw):
    data = canon.value_bytes(raw.data) if raw.data is not None else None
    sc = None
    if raw.scaler_data is not None:
        sc = [[int(k), canon.value_bytes(v)] for k, v in raw.scaler_data.items()]
    return dict(data=data, scalers=sc)


def op_token(op):
    k = op[0]
    if k == "I":
        return "I,%s,%d" % (hx(op[1]), op[2])
    if k == "S":
        return "S,%s,%s,%s,%s" % (hx(op[1]), tok(op[2]), tok(op[3]), tok(op[4]))
    if k == "R":
        return "R,%s,%d,%s" % (hx(op[1]), op[2], tok(op[3]))
    if k == "C":
        return "C,%s" % hx(op[1])
    if k == "F":
        return "F"
    return "X,%d" % op[1]


def gen_history(rnd, chan_lens, nops=None):
    """random operation history over the channels {path: len}"""
    paths = sorted(chan_lens)
    nops = nops or rnd.randint(1, 30)
    ops = []
    nit = 0
    for _ in range(nops):
        k = rnd.choice(["I", "S", "R", "C", "F", "X", "X", "X", "X"])
        p = rnd.choice(paths)
        n = chan_lens[p]
        if k == "I":
            ops.append(("I", p, rnd.randint(-n - 1, n)))
        elif k == "S":
            ops.append(("S", p, rnd.choice([None] + list(range(-n - 1, n + 2))), rnd.choice([None] + list(range(-n - 1, n + 2))),
                        rnd.choice([None, 1, 2, -1, -2, 3])))
        elif k == "R":
            ops.append(("R", p, rnd.randint(0, n + 1), rnd.choice([None] + list(range(n + 2)))))
        elif k == "C" and nit < 3:
            ops.append(("C", p))
            nit += 1
        elif k == "F" and nit < 3:
            ops.append(("F",))
            nit += 1
        elif k == "X" and nit > 0:
            ops.append(("X", rnd.randrange(nit)))
    return ops


def model_filechunk_canon(m, known_paths):
    """model file chunk -> same shape as real_op's (only channel paths the API exposes)"""
    cc = [[p, c] for p, c in m["v"] if p in known_paths]
    return cc


def compare_out(m, r, known_paths, all_offsets_paths):
    """compare a model Out (json) with the real canonical output"""
    if m["k"] != r["k"]:
        return "kind model=%s real=%s %s" % (m["k"], r["k"], r.get("exc", ""))
    k = m["k"]
    if k in ("value", "values", "iter"):
        return None if m["v"] == r["v"] else "model=%s real=%s" % (str(m["v"])[:100], str(r["v"])[:100])
    if k == "read":
        mv = m["v"] if m["v"] is not None else dict(data=[], scalers=[])
        if (mv["data"] or []) != (r["v"]["data"] or []) or canon.norm(mv["scalers"]) != canon.norm(r["v"]["scalers"]):
            return "read model=%s real=%s" % (str(mv)[:100], str(r["v"])[:100])
        return None
    if k == "chanchunk":
        if m["offset"] != r["offset"]:
            return "chunk offset model=%d real=%d" % (m["offset"], r["offset"])
        return None if canon.norm(m["v"]) == canon.norm(r["v"]) else "chanchunk model=%s real=%s" % (str(m["v"])[:100], str(r["v"])[:100])
    if k == "filechunk":
        mc = {p: c for p, c in m["v"] if p in known_paths}
        rc = {p: c for p, c in r["v"]}
        if canon.norm(mc) != canon.norm(rc):
            return "filechunk model=%s real=%s" % (str(mc)[:120], str(rc)[:120])
        mo = dict((p, n) for p, n in m["offsets"])
        for p, n in r["offsets"]:
            if mo.get(p, 0) != n:
                return "filechunk offset of %s model=%s real=%d" % (p, mo.get(p, 0), n)
        return None
    if k == "error":
        return None if m["v"] == r["v"] else "error model=%s real=%s (%s)" % (m["v"], r["v"], r.get("exc"))
    return None
