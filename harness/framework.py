"""Common check driver: translate -> build proofs -> axiom audit -> correspondence + property oracle ->
failing-input search -> known-findings filter -> evidence -> exit code.

Exit codes: 0 property held on everything explored (KNOWN-FINDING lines allowed), 1 violation,
2 infrastructure failure / timeout (never a verdict).
"""
import hashlib
import importlib
import json
import os
import random
import sys
import time
import traceback

HERE = os.path.dirname(os.path.abspath(__file__))
VERIF = os.path.dirname(HERE)
sys.path.insert(0, HERE)

import leanio  # noqa: E402
import translate  # noqa: E402

REPLAY_DIR = os.path.join(VERIF, "replay")
# evidence describes runs against /repo itself; a self-test run against a scratch worktree (NPTDMS_REPO) writes elsewhere
EVIDENCE_DIR = os.path.join(VERIF, "evidence" if os.path.abspath(os.environ.get("NPTDMS_REPO", "/repo")) == "/repo" else "replay/selftest-evidence")
OBLIGATIONS = os.path.join(VERIF, "lean", "obligations.json")
FINDINGS = os.path.join(VERIF, "known_findings.json")

TRUSTED_BASE_COMMON = [
    "Lean 4.33.0 kernel; axioms of every headline theorem audited with `#print axioms` to be a subset of {propext, Classical.choice, Quot.sound}; no native_decide / bv_decide / sorry / own axioms (textual scan of all .lean sources)",
    "translator harness/translate.py (tables and constants re-extracted from /repo's working tree into lean/Tdms/Generated on every run)",
    "source-to-Lean translator harness/pyast2lean.py (its subset, signature / attribute tables and abstract callees) and lean/Tdms/Generated/CodePrelude.lean (Python //, %, min, sum, dict and loop combinators) for the *_tied theorems",
    "lean/Tdms/FormatReference.lean: hand-written transcription of the TDMS format constants (type codes and sizes, ToC masks, index sentinels, DAQmx tags and scaler type codes)",
    "correspondence harness (generators, canonical dumps, diff) tying the hand-written Lean model to the real implementation",
    "modelled, not verified: CPython/NumPy primitives (struct, bytes.decode, dict order, slicing, searchsorted, cumsum, view/reshape, BytesIO), IEEE-754 evaluation, the operating system",
]


class Violation:
    def __init__(self, what, replay, signature=None, found_input=True):
        self.what = what            # one-line description
        self.replay = replay        # JSON-serialisable replay object
        self.signature = signature  # known-findings signature string (or None)
        self.found_input = found_input


# quick-tier case budgets were first tuned to 2-6 s per check; measured on 8 seeds they leave room, so the cheap checks
# explore more per run (still well under a minute each)
QUICK_SCALE = {"C01": 4, "C02": 4, "C03": 4, "C05": 4, "C07": 4, "C08": 5, "C09": 5, "C10": 6, "C11": 3, "C12": 4, "C13": 3,
               "C14": 5, "C15": 4, "C16": 4, "C17": 3, "C18": 3, "C19": 3, "C20": 3}


class Ctx:
    def __init__(self, prop, tier, seed):
        self.prop = prop
        self.tier = tier
        self.seed = seed
        self.rnd = random.Random((hash(prop) & 0xFFFF) * 1000003 + seed)
        self.rnd = random.Random("%s-%d" % (prop, seed))
        self.t0 = time.time()
        self.budget_factor = 1.0
        self.dis_limit = 20         # a run stops collecting after this many model/implementation disagreements; the search lifts it
        self.model = None
        self.build_ok = True
        self.notes = []
        self._nptdms = None

    def get_model(self):
        if self.model is None:
            self.model = leanio.Model()
        return self.model

    def nptdms(self):
        if self._nptdms is None:
            import canon
            self._nptdms = canon.import_nptdms()
            here = os.path.dirname(os.path.dirname(os.path.abspath(self._nptdms.__file__)))
            if os.path.abspath(here) != os.path.abspath(os.environ.get("NPTDMS_REPO", "/repo")):
                raise RuntimeError("nptdms imported from %s, not from the tree under test" % self._nptdms.__file__)
        return self._nptdms

    def n(self, quick, thorough):
        """case budget for this tier"""
        base = quick * QUICK_SCALE.get(self.prop, 1) if self.tier == "quick" else thorough
        return max(1, int(base * self.budget_factor))

    def elapsed(self):
        return time.time() - self.t0


def load_obligations(prop):
    with open(OBLIGATIONS) as f:
        ob = json.load(f)
    return ob.get(prop, {"modules": [], "theorems": [], "imports": []})


def load_findings():
    if not os.path.exists(FINDINGS):
        return {"known": [], "fixed": []}
    with open(FINDINGS) as f:
        return json.load(f)


def write_replay(prop, seed, n, obj):
    os.makedirs(REPLAY_DIR, exist_ok=True)
    path = os.path.join(REPLAY_DIR, "%s-%d-%d.json" % (prop, seed, n))
    with open(path, "w") as f:
        json.dump(obj, f, indent=1, default=str)
    return os.path.relpath(path, VERIF)


def fingerprint_delta():
    """which anchor functions changed relative to the committed fingerprints (steers effort, never an alarm)"""
    ref_path = os.path.join(VERIF, "reference", "anchor_fingerprints.json")
    cur = translate.anchor_fingerprints()
    if not os.path.exists(ref_path):
        return cur, []
    with open(ref_path) as f:
        ref = json.load(f)
    changed = sorted(k for k in set(ref) | set(cur) if ref.get(k) != cur.get(k))
    return cur, changed


def main(prop, tier, seed, replay=None):
    import warnings
    warnings.filterwarnings("ignore")      # RuntimeWarnings of NumPy inside the code under test are not verdicts
    import signal
    signal.signal(signal.SIGPIPE, signal.SIG_DFL)     # `./check Cxx | head` must not end in a traceback
    t0 = time.time()
    os.environ.setdefault("NPTDMS_VERIF", "1")
    ctx = Ctx(prop, tier, seed)
    mod = importlib.import_module("props.%s" % prop)
    if replay:
        return mod.replay(ctx, replay)
    ob = load_obligations(prop)
    broken = []        # proof obligations / build / audit problems: [(what, detail)]
    violations = []    # Violation objects

    # 1. translate
    try:
        changed, terrors = translate.run()
    except Exception as ex:
        print("INFRA translate crashed: %r" % ex)
        return 2
    for fn, msg in terrors.items():
        broken.append(("translator could not extract %s" % fn, msg))
    _, changed_anchors = fingerprint_delta()
    relevant = [a for a in changed_anchors if any(a.startswith(p) for p in getattr(mod, "ANCHOR_FILES", []))]
    if relevant:
        ctx.budget_factor = 10.0 if tier == "quick" else 2.0
        ctx.notes.append("anchor functions changed (budget x%g): %s" % (ctx.budget_factor, ", ".join(relevant[:8])))

    # 2. build model, executable and this property's proof modules
    discharged = 0
    obligations = len(ob["theorems"])
    br = leanio.lake_build(["Tdms", "tdms-model"])
    if not br.ok:
        ctx.build_ok = False
        broken.append(("Lean model / driver does not build against the regenerated constants", br.output[-3000:]))
    axioms_report = {}
    if ob["modules"]:
        bp = leanio.lake_build(ob["modules"])
        if not bp.ok:
            broken.append(("proof modules do not build: %s" % ", ".join(bp.failed_modules or ob["modules"]), bp.output[-4000:]))
        else:
            # 3. audit
            hits = leanio.textual_scan(leanio.lean_sources())
            if hits:
                broken.append(("forbidden construct in Lean sources", json.dumps(hits[:10])))
            names = [t["name"] for t in ob["theorems"]]
            try:
                axioms_report, raw = leanio.print_axioms(names, ob["modules"])
            except Exception as ex:
                print("INFRA axiom audit crashed: %r" % ex)
                return 2
            for t in ob["theorems"]:
                ax = axioms_report.get(t["name"])
                if ax is None:
                    broken.append(("theorem %s not found by #print axioms" % t["name"], raw[-1500:]))
                elif not set(ax) <= leanio.STANDARD_AXIOMS:
                    broken.append(("theorem %s depends on non-standard axioms %s" % (t["name"], ax), ""))
                else:
                    discharged += 1
            if tier == "thorough" and not hits:
                import subprocess
                try:
                    p = subprocess.run(["lake", "env", "leanchecker"] + ob["modules"], cwd=leanio.LEAN_DIR,
                                       stdout=subprocess.PIPE, stderr=subprocess.STDOUT, text=True, timeout=1500)
                    if p.returncode != 0:
                        broken.append(("leanchecker rejected the compiled proof modules", p.stdout[-2000:]))
                    else:
                        ctx.notes.append("leanchecker re-checked %s" % ", ".join(ob["modules"]))
                except subprocess.TimeoutExpired:
                    ctx.notes.append("leanchecker timed out (not a verdict)")

    # 4. correspondence + oracle: the corpus of minimised past failures first, then generated inputs
    corpus_dir = os.path.join(VERIF, "corpus", prop)
    corpus_viol, corpus_dis, corpus_n = [], [], 0
    if hasattr(mod, "corpus") and os.path.isdir(corpus_dir):
        try:
            for fn in sorted(os.listdir(corpus_dir)):
                if fn.endswith(".json"):
                    with open(os.path.join(corpus_dir, fn)) as f:
                        entry = json.load(f)
                    d, v = mod.corpus(ctx, entry)
                    corpus_n += 1
                    for x in d:
                        x["corpus"] = fn
                    corpus_dis += d
                    corpus_viol += v
        except Exception as ex:
            tb = traceback.format_exc()
            repo = os.path.abspath(os.environ.get("NPTDMS_REPO", "/repo"))
            inside = [fr for fr in traceback.extract_tb(ex.__traceback__) if os.path.abspath(fr.filename).startswith(repo + os.sep)]
            if not inside:
                print("INFRA corpus check crashed:\n" + tb)
                if ctx.model is not None:
                    ctx.model.close()
                return 2
            # the code under test raised on an input of the regression corpus (all of them are well-formed inputs it used to handle)
            corpus_viol.append(Violation("unhandled %s from the code under test at %s:%d (%s) on a corpus input: %s" % (
                type(ex).__name__, os.path.relpath(inside[-1].filename, repo), inside[-1].lineno, inside[-1].name, str(ex)[:200]),
                dict(kind="exception", traceback=tb[-3000:], seed=seed, tier=tier)))
    try:
        ctx.t0 = time.time()      # exploration time budgets start after translation, build and audit
        res = mod.run(ctx)
        res.setdefault("violations", [])
        res.setdefault("disagreements", [])
        res["violations"] = corpus_viol + res["violations"]
        res["disagreements"] = corpus_dis + res["disagreements"]
        res.setdefault("coverage", {})["corpus_entries"] = corpus_n
    except Exception as ex:
        tb = traceback.format_exc()
        repo = os.path.abspath(os.environ.get("NPTDMS_REPO", "/repo"))
        frames = traceback.extract_tb(ex.__traceback__)
        if any(os.path.abspath(fr.filename).startswith(repo + os.sep) for fr in frames):
            # raised inside the code under test on an input the harness did not guard: that is a verdict, not an infrastructure failure
            inside = [fr for fr in frames if os.path.abspath(fr.filename).startswith(repo + os.sep)][-1]
            res = dict(violations=[Violation("unhandled %s from the code under test at %s:%d (%s) while checking generated inputs: %s" % (
                type(ex).__name__, os.path.relpath(inside.filename, repo), inside.lineno, inside.name, str(ex)[:200]),
                dict(kind="exception", traceback=tb[-3000:], seed=seed, tier=tier))], disagreements=[], coverage={})
        else:
            print("INFRA check crashed:\n" + tb)
            if ctx.model is not None:
                ctx.model.close()
            return 2
    violations.extend(res.get("violations", []))
    disagreements = res.get("disagreements", [])

    # 5. a broken obligation or correspondence without a failing input is still reported (a violation that is a listed known
    #    finding is no explanation for a broken obligation)
    known_sigs = set(k.get("signature") for k in load_findings().get("known", []) if k.get("property") == prop)

    def unexplained(vs):
        return [v for v in vs if not (v.signature and v.signature in known_sigs)]
    if (broken or disagreements) and not unexplained(violations):
        # directed search on the real implementation
        try:
            ctx.dis_limit = 10 ** 9     # the search looks for a failing input on the real code: disagreements must not end it early
            ctx.t0 = time.time()
            extra = mod.search(ctx, broken, disagreements) if hasattr(mod, "search") else []
        except Exception as ex:
            tb = traceback.format_exc()
            repo = os.path.abspath(os.environ.get("NPTDMS_REPO", "/repo"))
            frames = traceback.extract_tb(ex.__traceback__)
            inside = [fr for fr in frames if os.path.abspath(fr.filename).startswith(repo + os.sep)]
            if not inside:
                print("INFRA search crashed:\n" + tb)
                if ctx.model is not None:
                    ctx.model.close()
                return 2
            # raised inside the code under test on a generated (well-formed) input: a verdict, as in the main run
            extra = [Violation("unhandled %s from the code under test at %s:%d (%s) during the failing-input search: %s" % (
                type(ex).__name__, os.path.relpath(inside[-1].filename, repo), inside[-1].lineno, inside[-1].name, str(ex)[:200]),
                dict(kind="exception", traceback=tb[-3000:], seed=seed, tier=tier))]
        violations.extend(extra)
        if not unexplained(violations):
            what = "; ".join([b[0] for b in broken] + ["model/implementation correspondence broken: %s" % d.get("what", "") for d in disagreements[:3]])
            violations.append(Violation(what, dict(property=prop, broken=[dict(what=b[0], detail=b[1]) for b in broken],
                                                  disagreements=disagreements[:5],
                                                  note="no input violating the property was found on the real implementation"),
                                        found_input=False))

    if ctx.model is not None:
        ctx.model.close()

    # 6. known findings filter, output, evidence
    findings = load_findings()
    known = [k for k in findings.get("known", []) if k.get("property") == prop]
    n_reported = 0
    exit_code = 0
    printed_known = set()
    for i, v in enumerate(violations):
        match = next((k for k in known if v.signature and k.get("signature") == v.signature), None)
        if match:
            if v.signature not in printed_known:
                printed_known.add(v.signature)
                print("KNOWN-FINDING: property=%s %s" % (prop, match.get("what", v.what)))
            continue
        path = write_replay(prop, seed, i, dict(property=prop, what=v.what, replay=v.replay,
                                                replay_cmd="./check %s --replay <this file>" % prop))
        line = "VIOLATION property=%s replay=%s" % (prop, path)
        if not v.found_input:
            line += " no-failing-input-found"
        print(line)
        print("  " + v.what[:500])
        n_reported += 1
        exit_code = 1
        if n_reported >= 5:
            break

    level = getattr(mod, "LEVEL", "proof")
    cov = dict(res.get("coverage", {}))
    cov.setdefault("evaluations", 0)
    cov.setdefault("distinct_nontrivial", 0)
    cov.setdefault("rule", "")
    cov.setdefault("samples", [])
    cov["obligations"] = obligations
    cov["discharged"] = discharged
    cov["obligation_names"] = [dict(name=t["name"], kind=t.get("kind", "full"), axioms=axioms_report.get(t["name"])) for t in ob["theorems"]]
    cov["checker_cmd"] = "cd lean && lake build %s && lake env lean <#print axioms of every obligation>%s" % (
        " ".join(ob["modules"]), " && lake env leanchecker %s" % " ".join(ob["modules"]) if tier == "thorough" else "")
    cov["trusted_base"] = TRUSTED_BASE_COMMON + list(getattr(mod, "TRUSTED_EXTRA", []))
    cov["traces_validated_against_impl"] = res.get("coverage", {}).get("traces_validated_against_impl", cov["evaluations"])
    cov["disagreements_checked"] = len(disagreements)
    cov["broken_obligations"] = [b[0] for b in broken]
    cov["notes"] = ctx.notes + res.get("notes", [])
    cov["nptdms_file"] = getattr(ctx._nptdms, "__file__", None)
    if obligations == 0 or level != "proof":
        level_out = level if level != "proof" else "translation_validation"
    else:
        level_out = "proof"
    if level_out == "translation_validation":
        cov.setdefault("programs", cov["evaluations"])
    ev = dict(property_id=prop, tier=tier, seed=seed, level=level_out, coverage=cov,
              assumptions=list(getattr(mod, "ASSUMPTIONS", [])), wall_s=round(time.time() - t0, 2),
              violations=n_reported)
    os.makedirs(EVIDENCE_DIR, exist_ok=True)
    with open(os.path.join(EVIDENCE_DIR, "%s.json" % prop), "w") as f:
        json.dump(ev, f, indent=1, default=str)
    print("%s %s tier=%s seed=%d obligations=%d/%d evaluations=%d nontrivial=%d violations=%d wall=%.1fs" % (
        "OK" if exit_code == 0 else "FAIL", prop, tier, seed, discharged, obligations, cov["evaluations"],
        cov["distinct_nontrivial"], n_reported, time.time() - t0))
    return exit_code


if __name__ == "__main__":
    import argparse
    ap = argparse.ArgumentParser()
    ap.add_argument("prop")
    ap.add_argument("--tier", default=os.environ.get("VERIF_TIER", "quick"))
    ap.add_argument("--replay", default=None)
    a = ap.parse_args()
    seed = int(os.environ.get("VERIF_SEED", "0"))
    sys.exit(main(a.prop, a.tier, seed, a.replay))
