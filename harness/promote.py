#!/venv/bin/python
"""Promote a replay file written by a check to the corpus that runs first on every later run:
   harness/promote.py replay/C04-0-0.json <short-name> ["why it is here"]"""
import json, os, sys
HERE = os.path.dirname(os.path.abspath(__file__)); VERIF = os.path.dirname(HERE)
src, name = sys.argv[1], sys.argv[2]
why = sys.argv[3] if len(sys.argv) > 3 else ""
r = json.load(open(src))
prop = r["property"]
if not isinstance(r.get("replay"), dict) or "broken" in r["replay"]:
    sys.exit("this replay names a broken obligation / correspondence, it holds no failing input: nothing to promote")
d = os.path.join(VERIF, "corpus", prop)
os.makedirs(d, exist_ok=True)
entry = dict(property=prop, origin=why or r.get("what", "")[:300], replay=r["replay"])
json.dump(entry, open(os.path.join(d, name + ".json"), "w"), indent=1, default=str)
print("corpus/%s/%s.json" % (prop, name))
