#!/venv/bin/python
"""C18 correspondence sweep: the REAL npTDMS thermocouple code against exact rational evaluation.

For each thermocouple type (B E J K N R S T) and each direction

  forward  (deg C -> mV):  nptdms.thermocouples.type_x.celsius_to_mv(x)
                           ThermocoupleScaling(code, 1, 0xFFFFFFFF).scale(x)        (deg C -> uV)
  inverse  (mV -> deg C):  nptdms.thermocouples.type_x.mv_to_celsius(v)
                           ThermocoupleScaling(code, 0, 0xFFFFFFFF).scale(1000 v)   (uV -> deg C)

N points (default 5000; `-n 100000` for the thorough tier) over the range [NIST range, widened by 5 %
on both sides: npTDMS extrapolates with the first/last polynomial] plus every piece boundary and its
float neighbours (numpy.nextafter, +-1 and +-2 steps) are evaluated and compared with

  forward: exact rational (integer/Fraction) evaluation of the VENDORED NIST polynomial
           (nist_its90_forward.json written by vendor_nist.py) at the binary64 input, plus for type K
           a0*exp(a1*(x-a2)**2) for x >= 0 via math.exp (extra slack 1e-12 mV);
  inverse: exact rational evaluation of npTDMS' OWN inverse table, parsed exactly from the source
           text of nptdms/thermocouples.py with `ast` (decimal literals -> Fraction, never float);
           for `scale` the input really seen by the polynomial is float(uV / 1000.0) - that one
           correctly rounded division is mirrored, everything after it is exact.

Piece selection is mirrored as the code does it: comparisons of the binary64 input with the binary64
value of the boundary literal, inclusive start / exclusive end, i.e. the value AT a boundary belongs to
the UPPER piece; `np.piecewise` would take the last accepting piece, the reference takes the unique one
and the sweep also checks that exactly one piece accepts every point.

Tolerance: |got - expected| <= 1e-9 * |expected| + 1e-9   (mV, resp. deg C; for `scale` forward the
result is in uV, so the absolute part is 1e-6 uV).  Justification: the code evaluates the same
polynomial by Horner's rule in binary64; the classical a-priori bound for that is
gamma_2n * sum |c_i| |x|^i with gamma_2n = 2n u / (1 - 2n u), u = 2^-53.  The sweep computes this bound
at every point and reports the largest bound/tolerance ratio inside NIST's range (0.5 at worst, type T at
-270 deg C where the degree-14 polynomial cancels most strongly; the run fails if it reaches 1; in the
5 % extrapolation margin the worst-case bound can exceed the tolerance, observed errors stay below
0.05 tol) - so a correct Horner evaluation
can never trip the tolerance, while a wrong piece, a missing factor 1000, a missing exponential term
or a coefficient wrong in its first ~9 significant digits is far above it.  A change in the last
(10th-12th) digits of a coefficient is BELOW any floating-point tolerance; those are covered by the
exact comparison `tables` below (and by the Lean theorem `forward_tables_are_nist` on the regenerated
tables).  NaN is never allowed.

Additional checks:
  tables     npTDMS' forward table (parsed exactly from the source) equals the vendored NIST table:
             all coefficients, interior boundaries, open ends, exponential term;
  round trip |mv_to_celsius(celsius_to_mv(t)) - t| <= ROUND_TRIP_TOL[type][inverse piece] * 1.05 for the
             sweep temperatures inside the inverse domain (B from 250, E/K/N/T from -200 deg C, else the
             whole NIST range) - the same table as `invTol*` in C18Lemmas.lean (observed maxima rounded
             up to two digits; NOT NIST's stated errors, which are not available offline); this is the
             only check that constrains the inverse coefficients independently of the source;
  defaults   ThermocoupleScaling.from_properties({}) is type J (10072), direction 0, raw input.

Exit status 0 if everything agrees, 1 with one JSON line describing the first failure
{type, direction, api, x, got, expected, tol, reason}, 2 on infrastructure problems.
"""
import argparse
import ast
import decimal
import json
import math
import os
import sys
from fractions import Fraction

import numpy as np

LETTERS = ["B", "E", "J", "K", "N", "R", "S", "T"]
REL = 1e-9
ABS = 1e-9
EXP_SLACK = 1e-12
U = 2.0 ** -53
# deg C, per inverse piece; identical to invTolB ... invTolT in C18Lemmas.lean
ROUND_TRIP_TOL = {
    "B": [0.027, 0.013], "E": [0.022, 0.016], "J": [0.049, 0.038, 0.037], "K": [0.041, 0.047, 0.054],
    "N": [0.027, 0.028, 0.039], "R": [0.019, 0.0048, 0.00073, 0.0011], "S": [0.020, 0.0092, 0.00018, 0.0017],
    "T": [0.039, 0.026],
}
ROUND_TRIP_FROM = {"B": 250.0, "E": -200.0, "J": -210.0, "K": -200.0, "N": -200.0, "R": -50.0, "S": -50.0, "T": -200.0}
ROUND_TRIP_SLACK = 1.05


# ---------------------------------------------------------------------------------------------
# exact tables
# ---------------------------------------------------------------------------------------------

def frac(s):
    a, b = s.split("/")
    return Fraction(int(a), int(b))


class Piece(object):
    """lo/hi: exact Fractions or None (open); coeffs: exact, lowest degree first"""
    def __init__(self, lo, hi, coeffs):
        self.lo, self.hi, self.coeffs = lo, hi, list(coeffs)
        self.flo = None if lo is None else float(lo)      # binary64 value of the literal = what the code compares with
        self.fhi = None if hi is None else float(hi)
        den = 1
        for c in self.coeffs:
            den = den * c.denominator // math.gcd(den, c.denominator)
        self.den = den
        self.nums = [int(c * den) for c in self.coeffs]
        self.abs_f = [abs(float(c)) for c in self.coeffs]

    def accepts(self, x):
        """Range.within_range on a binary64 x"""
        if self.flo is not None and not (self.flo <= x):
            return False
        if self.fhi is not None and not (x < self.fhi):
            return False
        return True

    def eval_exact(self, x):
        """exact value of the polynomial at the binary64 x, as a Fraction (integer Horner)"""
        m, d = float(x).as_integer_ratio()        # x = m / d, d a power of two
        n = len(self.nums) - 1
        acc = 0
        dp = 1                                    # d ** (n - i)
        for c in reversed(self.nums):
            acc = acc * m + c * dp
            dp *= d
        # acc = sum c_i m^i d^(n-i)
        return Fraction(acc, self.den * d ** n)

    def horner_bound(self, x):
        """a-priori binary64 Horner error bound gamma_2n * sum |c_i| |x|^i"""
        n = len(self.coeffs) - 1
        s = 0.0
        ax = abs(x)
        for c in reversed(self.abs_f):
            s = s * ax + c
        g = 2 * max(n, 1) * U
        return g / (1 - g) * s


def load_reference(path):
    with open(path) as f:
        ref = json.load(f)
    assert ref["units"] == {"temperature": "C", "voltage": "mV"}, ref["units"]
    out = {}
    for L in LETTERS:
        t = ref["types"][L]
        ps = t["pieces"]
        pieces = []
        for i, p in enumerate(ps):
            # npTDMS convention: first piece open below, last piece open above (the sweep also
            # extrapolates a little beyond NIST's range, like the code does)
            lo = None if i == 0 else frac(p["lo_frac"])
            hi = None if i == len(ps) - 1 else frac(p["hi_frac"])
            pieces.append(Piece(lo, hi, [frac(c) for c in p["coeffs_frac"]]))
        exps = [(i, p["exp"]) for i, p in enumerate(ps) if p["exp"] is not None]
        exp = None
        if exps:
            assert len(exps) == 1
            i, e = exps[0]
            exp = {"a": [frac(a) for a in e["a_frac"]], "from": frac(ps[i]["lo_frac"])}
            assert i == len(ps) - 1, "exponential term expected on the last piece only"
        out[L] = {"pieces": pieces, "exp": exp, "range": (frac(t["range_frac"][0]), frac(t["range_frac"][1]))}
    return out


def _exact(node, src):
    """numeric literal -> exact Fraction via its source text; None -> None"""
    if isinstance(node, ast.Constant) and node.value is None:
        return None
    sign = 1
    while isinstance(node, ast.UnaryOp) and isinstance(node.op, (ast.USub, ast.UAdd)):
        if isinstance(node.op, ast.USub):
            sign = -sign
        node = node.operand
    if isinstance(node, ast.Constant) and isinstance(node.value, (int, float)) and not isinstance(node.value, bool):
        text = ast.get_source_segment(src, node).replace("_", "")
        return sign * Fraction(decimal.Decimal(text))
    raise ValueError("not a numeric literal: " + ast.dump(node))


def load_nptdms_tables(repo):
    """forward+inverse tables and exponential term of nptdms/thermocouples.py, exactly, via ast;
    type codes from ThermocoupleScaling.__init__ in scaling.py"""
    path = os.path.join(repo, "nptdms", "thermocouples.py")
    with open(path) as f:
        src = f.read()
    tables = {}
    for node in ast.parse(src).body:
        if isinstance(node, ast.Assign) and isinstance(node.value, ast.Call) and getattr(node.value.func, "id", None) == "Thermocouple":
            name = node.targets[0].id
            kw = {k.arg: k.value for k in node.value.keywords}
            entry = {}
            for key in ("forward_polynomials", "inverse_polynomials"):
                ps = []
                for p in kw[key].elts:
                    pk = {k.arg: k.value for k in p.keywords}
                    lo, hi = (_exact(a, src) for a in pk["applicable_range"].args)
                    ps.append(Piece(lo, hi, [_exact(c, src) for c in pk["coefficients"].elts]))
                entry[key] = ps
            entry["exp"] = [_exact(c, src) for c in kw["exponential_term"].elts] if "exponential_term" in kw else None
            tables[name] = entry
    with open(os.path.join(repo, "nptdms", "scaling.py")) as f:
        ssrc = f.read()
    codes = {}
    for node in ast.walk(ast.parse(ssrc)):
        if isinstance(node, ast.Dict) and node.keys and all(
                isinstance(v, ast.Attribute) and getattr(v.value, "id", "") == "thermocouples" for v in node.values):
            codes = {v.attr: int(k.value) for k, v in zip(node.keys, node.values)}
    return tables, codes


# ---------------------------------------------------------------------------------------------
# the sweep
# ---------------------------------------------------------------------------------------------

class Failure(Exception):
    def __init__(self, **kw):
        Exception.__init__(self, kw.get("reason"))
        self.info = kw


def neighbours(x):
    """x and its binary64 neighbours, +-1 and +-2 steps"""
    x = np.float64(x)
    up1 = np.nextafter(x, np.inf)
    up2 = np.nextafter(up1, np.inf)
    dn1 = np.nextafter(x, -np.inf)
    dn2 = np.nextafter(dn1, -np.inf)
    return [float(dn2), float(dn1), float(x), float(up1), float(up2)]


def make_points(lo, hi, n, rng, boundaries):
    """n points over [lo - 5 %, hi + 5 %] (half equally spaced, half uniform random), the ends of the
    range, and all boundaries with their neighbours"""
    lo, hi = float(lo), float(hi)
    w = hi - lo
    a, b = lo - 0.05 * w, hi + 0.05 * w
    n1 = n // 2
    pts = list(np.linspace(a, b, n1)) + list(rng.uniform(a, b, n - n1))
    special = []
    for e in (lo, hi, 0.0):
        special += neighbours(e)
    for bd in boundaries:
        special += neighbours(float(bd))
    return np.array(pts, dtype=np.float64), np.array(special, dtype=np.float64)


def select(pieces, x):
    acc = [i for i, p in enumerate(pieces) if p.accepts(x)]
    return acc


def check_array(L, direction, api, xs, got, pieces, exp, scale_out, stats, special, in_transform=None, rng_=None):
    """compare got[i] with the exact reference at xs[i]"""
    if got.shape != xs.shape:
        raise Failure(type=L, direction=direction, api=api, x=None, got=str(got.shape), expected=str(xs.shape),
                      tol=None, reason="shape")
    if got.dtype != np.float64:
        raise Failure(type=L, direction=direction, api=api, x=None, got=str(got.dtype), expected="float64",
                      tol=None, reason="dtype")
    for i in range(len(xs)):
        x_in = float(xs[i])
        x = x_in if in_transform is None else in_transform(x_in)    # what the polynomial really sees
        g = float(got[i])
        acc = select(pieces, x)
        if len(acc) != 1:
            raise Failure(type=L, direction=direction, api=api, x=x_in, got=g, expected=None, tol=None,
                          reason="%d pieces accept the input" % len(acc))
        k = acc[0]
        p = pieces[k]
        e = p.eval_exact(x)
        expected = float(e)
        slack = 0.0
        if exp is not None and x >= float(exp["from"]):
            a0, a1, a2 = [float(a) for a in exp["a"]]
            expected = float(e + Fraction(a0 * math.exp(a1 * (x - a2) ** 2)))
            slack = EXP_SLACK
        expected_out = expected * scale_out
        tol = (REL * abs(expected) + ABS + slack) * scale_out
        if math.isnan(g):
            raise Failure(type=L, direction=direction, api=api, x=x_in, got="nan", expected=expected_out, tol=tol,
                          reason="NaN")
        bound = p.horner_bound(x)
        ratio = bound / (REL * abs(expected) + ABS)
        in_range = rng_ is None or (rng_[0] <= x <= rng_[1])
        key = "max_bound_ratio" if in_range else "max_bound_ratio_extrapolated"
        if ratio > stats[key]:
            stats[key] = ratio
            stats[key + "_at"] = (L, direction, x)
        if not (abs(g - expected_out) <= tol):
            raise Failure(type=L, direction=direction, api=api, x=x_in, got=g, expected=expected_out, tol=tol,
                          reason="value (piece %d)" % k)
        err = abs(g - expected_out) / tol
        if err > stats["max_err_ratio"]:
            stats["max_err_ratio"] = err
        stats["evaluations"] += 1
        if special and any(abs(x - b) <= 4 * abs(np.spacing(b)) for b in special):
            stats["boundary_evaluations"] += 1
            # does this point tell the neighbouring pieces apart?
            for j in (k - 1, k + 1):
                if 0 <= j < len(pieces):
                    other = float(pieces[j].eval_exact(x))
                    if abs(other - float(e)) * scale_out > 2 * tol:
                        stats["boundary_distinguishing"] += 1
                        break


def run(args):
    repo = os.path.abspath(args.repo)
    if repo not in sys.path:
        sys.path.insert(0, repo)
    try:
        import nptdms
        from nptdms import thermocouples, scaling
    except ImportError:
        raise
    except Exception as e:       # e.g. ValueError("Polynomial ranges must be contiguous") raised by the tables
        raise Failure(type=None, direction=None, api="import nptdms", x=None, got="%s: %s" % (type(e).__name__, e),
                      expected="import succeeds", tol=None, reason="importing the code under test failed")
    nptdms_dir = os.path.dirname(os.path.dirname(os.path.abspath(nptdms.__file__)))
    print("nptdms from %s" % nptdms.__file__)
    if nptdms_dir != repo:
        print("ERROR: nptdms was imported from %s, not from %s" % (nptdms_dir, repo))
        return 2
    ref = load_reference(args.reference)
    own, codes = load_nptdms_tables(repo)
    rng = np.random.default_rng(args.seed)
    stats = {"evaluations": 0, "boundary_evaluations": 0, "boundary_distinguishing": 0,
             "max_bound_ratio": 0.0, "max_bound_ratio_at": None, "max_bound_ratio_extrapolated": 0.0,
             "max_bound_ratio_extrapolated_at": None, "max_err_ratio": 0.0, "far_points": 0,
             "table_entries": 0, "round_trips": 0, "round_trip_max": {}}
    per = {}
    RAW = 0xFFFFFFFF
    for L in LETTERS:
        name = "type_" + L.lower()
        tc = getattr(thermocouples, name)
        code = codes[name]
        r = ref[L]
        o = own[name]
        before = stats["evaluations"]
        # the exponential term the code uses must be the vendored one (also proved in Lean)
        if (o["exp"] is None) != (r["exp"] is None) or (o["exp"] is not None and o["exp"] != r["exp"]["a"]):
            raise Failure(type=L, direction="forward", api="table", x=None, got=str(o["exp"]),
                          expected=str(r["exp"]), tol=None, reason="exponential term differs from NIST")

        # ---------------- tables: source == vendored NIST, exactly ----------------------------------
        src_f = o["forward_polynomials"]
        if len(src_f) != len(r["pieces"]):
            raise Failure(type=L, direction="forward", api="table", x=None, got=len(src_f), expected=len(r["pieces"]),
                          tol=None, reason="number of forward pieces differs from NIST")
        for k, (a, b) in enumerate(zip(src_f, r["pieces"])):
            if (a.lo, a.hi) != (b.lo, b.hi):
                raise Failure(type=L, direction="forward", api="table", x=None, got=str((a.lo, a.hi)),
                              expected=str((b.lo, b.hi)), tol=None, reason="range of forward piece %d differs from NIST" % k)
            if len(a.coeffs) != len(b.coeffs):
                raise Failure(type=L, direction="forward", api="table", x=None, got=len(a.coeffs), expected=len(b.coeffs),
                              tol=None, reason="degree of forward piece %d differs from NIST" % k)
            for i, (ca, cb) in enumerate(zip(a.coeffs, b.coeffs)):
                if ca != cb:
                    raise Failure(type=L, direction="forward", api="table", x=None, got=str(ca), expected=str(cb), tol=None,
                                  reason="coefficient %d of forward piece %d differs from NIST" % (i, k))
                stats["table_entries"] += 1

        # ---------------- forward: reference = VENDORED NIST polynomial -------------------------
        fpieces = r["pieces"]
        lo, hi = r["range"]
        fb = [p.hi for p in fpieces if p.hi is not None]
        pts, special = make_points(lo, hi, args.n, rng, fb)
        s1 = scaling.ThermocoupleScaling(code, 1, RAW)
        fbf = [float(b) for b in fb]
        frange = (float(lo), float(hi))
        for arr, sp in ((pts, None), (special, fbf)):
            check_array(L, "forward", "celsius_to_mv", arr, np.asarray(tc.celsius_to_mv(arr.copy())), fpieces,
                        r["exp"], 1.0, stats, sp, rng_=frange)
            check_array(L, "forward", "ThermocoupleScaling(dir=1).scale", arr, np.asarray(s1.scale(arr.copy())),
                        fpieces, r["exp"], 1000.0, stats, sp, rng_=frange)
        # one-element arrays at the boundaries (as the scaling is called chunk-wise)
        for x in special:
            one = np.array([x])
            check_array(L, "forward", "celsius_to_mv[1]", one, np.asarray(tc.celsius_to_mv(one.copy())), fpieces,
                        r["exp"], 1.0, stats, fbf, rng_=frange)

        # ---------------- inverse: reference = npTDMS' own inverse table, exact -------------------
        ipieces = o["inverse_polynomials"]
        # voltage range = image of NIST's temperature range under the exact reference function
        def fwd_exact(t):
            t = float(t)
            k = select(fpieces, t)[-1]
            v = float(fpieces[k].eval_exact(t))
            if r["exp"] is not None and t >= 0:
                a0, a1, a2 = [float(a) for a in r["exp"]["a"]]
                v += a0 * math.exp(a1 * (t - a2) ** 2)
            return v
        vlo, vhi = fwd_exact(lo), fwd_exact(hi)
        ib = [p.hi for p in ipieces if p.hi is not None]
        vpts, vspecial = make_points(vlo, vhi, args.n, rng, ib)
        s0 = scaling.ThermocoupleScaling(code, 0, RAW)
        ibf = [float(b) for b in ib]
        vrange = (min(vlo, vhi), max(vlo, vhi))
        for arr, sp in ((vpts, None), (vspecial, ibf)):
            check_array(L, "inverse", "mv_to_celsius", arr, np.asarray(tc.mv_to_celsius(arr.copy())), ipieces, None,
                        1.0, stats, sp, rng_=vrange)
            uv = arr * 1000.0
            check_array(L, "inverse", "ThermocoupleScaling(dir=0).scale", uv, np.asarray(s0.scale(uv.copy())),
                        ipieces, None, 1.0, stats, sp, in_transform=lambda d: float(np.float64(d) / 1000.0),
                        rng_=vrange)
        for v in vspecial:
            one = np.array([v])
            check_array(L, "inverse", "mv_to_celsius[1]", one, np.asarray(tc.mv_to_celsius(one.copy())), ipieces,
                        None, 1.0, stats, ibf, rng_=vrange)
        # any direction other than 1 is the inverse direction
        s7 = scaling.ThermocoupleScaling(code, 7, RAW)
        uv = vspecial * 1000.0
        check_array(L, "inverse", "ThermocoupleScaling(dir=7).scale", uv, np.asarray(s7.scale(uv.copy())), ipieces,
                    None, 1.0, stats, ibf, in_transform=lambda d: float(np.float64(d) / 1000.0), rng_=vrange)

        # ---------------- round trip on the real code -------------------------------------------------
        ts = np.concatenate([pts, special])
        ts = ts[(ts >= ROUND_TRIP_FROM[L]) & (ts <= float(hi))]
        back = np.asarray(tc.mv_to_celsius(np.asarray(tc.celsius_to_mv(ts.copy()))))
        vs = np.asarray(tc.celsius_to_mv(ts.copy()))
        for t, v, bk in zip(ts, vs, back):
            k = select(ipieces, float(v))
            tolk = ROUND_TRIP_TOL[L][k[0]] * ROUND_TRIP_SLACK
            err = abs(float(bk) - float(t))
            if not err <= tolk:
                raise Failure(type=L, direction="round trip", api="mv_to_celsius(celsius_to_mv(t))", x=float(t),
                              got=float(bk), expected=float(t), tol=tolk, reason="round-trip error (inverse piece %d)" % k[0])
            cur = stats["round_trip_max"].setdefault(L, [0.0] * len(ipieces))
            cur[k[0]] = max(cur[k[0]], err)
            stats["round_trips"] += 1

        # ---------------- far outside the range: never NaN ----------------------------------------
        far = np.array([-1e6, -1e4, -5e3, 5e3, 1e4, 1e6, -1e-300, 1e-300, 5e-324, -0.0])
        for api, f in (("celsius_to_mv", tc.celsius_to_mv), ("mv_to_celsius", tc.mv_to_celsius),
                       ("scale dir 1", s1.scale), ("scale dir 0", s0.scale)):
            out = np.asarray(f(far.copy()))
            bad = np.flatnonzero(np.isnan(out))
            if len(bad):
                raise Failure(type=L, direction=api, api=api, x=float(far[bad[0]]), got="nan", expected="finite or inf",
                              tol=None, reason="NaN far outside the range")
            stats["far_points"] += len(far)
        per[L] = stats["evaluations"] - before

    # default type / direction of from_properties
    d = scaling.ThermocoupleScaling.from_properties({}, 0)
    if d.thermocouple is not thermocouples.type_j or d.scaling_direction != 0 or d.input_source != RAW:
        raise Failure(type="J", direction="default", api="from_properties", x=None,
                      got=str((d.scaling_direction, d.input_source)), expected="(type_j, 0, 0xFFFFFFFF)", tol=None,
                      reason="defaults")
    print("points per type and direction: %d (+ boundaries/neighbours); seed %d" % (args.n, args.seed))
    print("evaluations compared: %d  (per type: %s)" % (stats["evaluations"], ", ".join("%s %d" % (L, per[L]) for L in LETTERS)))
    print("boundary/neighbour evaluations: %d, of which %d tell the adjacent pieces apart (jump > 2 tol)"
          % (stats["boundary_evaluations"], stats["boundary_distinguishing"]))
    print("far-out-of-range not-NaN checks: %d" % stats["far_points"])
    print("forward table entries equal to NIST exactly: %d coefficients" % stats["table_entries"])
    print("round trips within the per-piece tolerance: %d; observed maxima per inverse piece (deg C): %s"
          % (stats["round_trips"], "; ".join("%s %s" % (L, " ".join("%.3g" % e for e in stats["round_trip_max"][L])) for L in LETTERS)))
    print("largest |got-expected|/tol: %.3g" % stats["max_err_ratio"])
    print("largest a-priori Horner bound / tolerance inside NIST's range: %.3g at %s; in the 5 %% extrapolation margin: %.3g at %s"
          % (stats["max_bound_ratio"], stats["max_bound_ratio_at"], stats["max_bound_ratio_extrapolated"],
             stats["max_bound_ratio_extrapolated_at"]))
    if stats["max_bound_ratio"] >= 1.0:
        print("ERROR: the tolerance is not justified by the Horner bound")
        return 2
    print("C18 sweep: OK")
    return 0


def main(argv):
    here = os.path.dirname(os.path.abspath(__file__))
    ap = argparse.ArgumentParser(description=__doc__.split("\n")[0])
    ap.add_argument("-n", type=int, default=5000, help="points per type and direction (default 5000; 100000 = thorough)")
    ap.add_argument("--seed", type=int, default=int(os.environ.get("VERIF_SEED", "18")))
    ap.add_argument("--repo", default=os.environ.get("NPTDMS_REPO", "/repo"))
    ap.add_argument("--reference", default=os.path.join(here, "nist_its90_forward.json"))
    args = ap.parse_args(argv[1:])
    if not os.path.exists(args.reference):
        print("reference %s missing: run vendor_nist.py first" % args.reference)
        return 2
    try:
        return run(args)
    except Failure as f:
        info = dict(f.info)
        for k, v in list(info.items()):
            if isinstance(v, (np.floating, np.integer)):
                info[k] = v.item()
        print(json.dumps(info, sort_keys=True, default=str))
        return 1


if __name__ == "__main__":
    sys.exit(main(sys.argv))
