#!/bin/sh
# run every registered quick (or thorough) check; usage: harness/run_all.sh [quick|thorough] [seed]
cd "$(dirname "$0")/.." || exit 2
TIER=${1:-quick}; SEED=${2:-0}
rc=0
for i in 01 02 03 04 05 06 07 08 09 10 11 12 13 14 15 16 17 18 19 20; do
  VERIF_SEED=$SEED ./check C$i --tier $TIER 2>/dev/null | grep -E "^(OK|FAIL|VIOLATION|KNOWN|INFRA)" | head -3
  [ $? -ne 0 ] && rc=1
done
exit $rc
