#!/usr/bin/env python3
"""Writes the per-type grid-check files TdmsProofs/C18Grid/{B,E,J,KMono,KInv,N,R,S,T}.lean
(one `decide +kernel` per chunk; separate files so that `lake build` checks them in parallel).
The files only name `monoSpecX` / `invSpecX` / `invTolX` from C18Lemmas.lean, so they are static."""
import os
import sys

HEAD = """import TdmsProofs.C18Lemmas

/-! Grid checks for thermocouple type %s (one kernel evaluation per chunk; see `C18Lemmas` §8). -/

namespace Tdms.Proofs.C18.Grid
open Tdms.Generated Tdms.Model.Thermocouple Tdms.Proofs.C18
"""
TAIL = "\nend Tdms.Proofs.C18.Grid\n"


def mono(L):
    o = []
    for i in range(4):
        o.append("theorem mono%s_%d : enclosuresIncreasing ((monoSpec%s.chunk %d).map (forwardEnclosure monoSpec%s.table)) = true := by\n  decide +kernel" % (L, i, L, i, L))
    o.append("\ntheorem mono%s : IncreasingOnGrid monoSpec%s :=\n  forall_lt_four (P := fun i => enclosuresIncreasing ((monoSpec%s.chunk i).map (forwardEnclosure monoSpec%s.table)) = true)\n    mono%s_0 mono%s_1 mono%s_2 mono%s_3\n" % ((L,) * 8))
    if L == "B":
        o.append("theorem decrB_0 : enclosuresDecreasing ((decrSpecB.chunk 0).map (forwardEnclosure decrSpecB.table)) = true := by\n  decide +kernel\n")
        o.append("theorem decrB : DecreasingOnGrid decrSpecB :=\n  forall_lt_one (P := fun i => enclosuresDecreasing ((decrSpecB.chunk i).map (forwardEnclosure decrSpecB.table)) = true) decrB_0\n")
    return "\n".join(o)


def inv(L):
    o = []
    for i in range(4):
        o.append("theorem inv%s_%d : inverseErrorsWithin invSpec%s.table invTol%s (invSpec%s.chunk %d) = true := by\n  decide +kernel" % (L, i, L, L, L, i))
    o.append("\ntheorem inv%s : InverseErrorOnGrid invSpec%s invTol%s :=\n  forall_lt_four (P := fun i => inverseErrorsWithin invSpec%s.table invTol%s (invSpec%s.chunk i) = true)\n    inv%s_0 inv%s_1 inv%s_2 inv%s_3" % ((L,) * 10))
    return "\n".join(o)


def main(outdir):
    os.makedirs(outdir, exist_ok=True)
    for L in "BEJNRST":
        with open(os.path.join(outdir, L + ".lean"), "w") as f:
            f.write(HEAD % L + "\n" + mono(L) + "\n" + inv(L) + "\n" + TAIL)
    with open(os.path.join(outdir, "KMono.lean"), "w") as f:
        f.write(HEAD % "K, monotonicity" + "\n" + mono("K") + TAIL)
    with open(os.path.join(outdir, "KInv.lean"), "w") as f:
        f.write(HEAD % "K, inverse error" + "\n" + inv("K") + "\n" + TAIL)


if __name__ == "__main__":
    main(sys.argv[1] if len(sys.argv) > 1 else "TdmsProofs/C18Grid")
