"""Seeded generator of TDMS *file encodings* (the `FileEnc` of lean/Tdms/Spec/Format.lean).

The generator never serialises a file: it emits a description, the Lean spec encoder turns it into
bytes (and into its reference meaning).  A description is a list of segment dicts:

  seg = dict(hasMeta, newList, interleaved, big, rawFlag, daqmxFlag, lengthUnknown, version, padding,
             objs=[dict(path=bytes, idx=('N',)|('M',)|('F',ty,n,total)|('D',dg,ty,n,scalers,widths),
                        props=[(name bytes, ty, val bytes)])],
             chunks=[[ [value bytes, ...] per active data object ] per chunk])
"""
import struct

from leanio import hx

# type code -> size (None: string)
STD_TYPES = {1: 1, 2: 2, 3: 4, 4: 8, 5: 1, 6: 2, 7: 4, 8: 8, 9: 4, 10: 8, 0x19: 4, 0x1A: 8, 0x20: None, 0x21: 1,
             0x44: 16, 0x08000c: 8, 0x10000d: 16}
PROP_TYPES = [1, 2, 3, 4, 5, 6, 7, 8, 9, 10, 0x19, 0x1A, 0x20, 0x21, 0x44]
T_STRING, T_TIMESTAMP, T_BOOL = 0x20, 0x44, 0x21

NAME_POOL = ["g", "c", "Group", "a b", "it's", "sl/ash", "", "ünï", "日本", "'", "//", "c1", "c2", "x" * 9, "\U0001F600z", "rack'/'slot", "raw'/", "TDSm", "Load 100%", "%s{0}"]
PROP_NAMES = ["p", "unit_string", "wf_increment", "名", "NI_x", "q q", "", "\ufeffp"]


def path_of(group=None, channel=None):
    comps = [c for c in (group, channel) if c is not None]
    return ("/" + "/".join("'" + c.replace("'", "''") + "'" for c in comps)).encode("utf-8")


def rand_string(rnd, maxlen=6):
    n = rnd.choice([0, 1, 1, 2, 3, maxlen])
    alphabet = "abcXYZ '/\\0ü€日\U0001F600"
    return "".join(rnd.choice(alphabet) for _ in range(n)).encode("utf-8")


def rand_value(rnd, ty):
    """canonical little-endian value bytes of a fixed-width type"""
    size = STD_TYPES[ty]
    if ty == T_BOOL:
        return bytes([rnd.choice([0, 1])])  # other byte values are not canonical under numpy bool scalar conversion
    if ty == T_TIMESTAMP:
        frac = rnd.choice([0, 2 ** 64 - 1, rnd.getrandbits(64), rnd.getrandbits(64), (rnd.randrange(10 ** 6) << 64) // 10 ** 6])
        sec = rnd.choice([0, -1, rnd.randint(-2 ** 31, 2 ** 32), rnd.randint(-2 ** 40, 2 ** 40), 3771234567])
        return struct.pack("<Qq", frac, sec)
    k = rnd.random()
    if k < 0.08:
        return b"\x00" * size
    if k < 0.16:
        return b"\xff" * size
    if k < 0.22:
        return b"\xff" * (size - 1) + b"\x7f"
    if k < 0.28:
        return b"\x00" * (size - 1) + b"\x80"
    if k < 0.40:
        return rnd.randrange(200).to_bytes(size, "little")
    return bytes(rnd.getrandbits(8) for _ in range(size))


def rand_prop(rnd):
    name = rnd.choice(PROP_NAMES).encode("utf-8")
    ty = rnd.choice(PROP_TYPES)
    if ty == T_STRING:
        val = rand_string(rnd, 8)
    else:
        val = rand_value(rnd, ty)
    return (name, ty, val)


class FileGen:
    """Draws one file encoding.  `opts`:
         max_segs, max_paths, types (list of type codes), big ('mixed'|'little'|'big'),
         allow_interleaved, allow_props, allow_unknown, p_nometa, p_prev, p_nodata, max_chunks, max_n
    """

    def __init__(self, rnd, **opts):
        self.rnd = rnd
        self.o = dict(max_segs=6, max_paths=4, types=list(STD_TYPES), big="mixed", allow_interleaved=True,
                      allow_props=True, allow_unknown=True, p_nometa=0.15, max_chunks=3, max_n=5,
                      allow_padding=True, groups_objects=True)
        self.o.update(opts)

    def draw(self):
        rnd, o = self.rnd, self.o
        # object pool: channels (with a fixed data type each), plus their groups and the root
        ngroups = rnd.choice([1, 1, 2])
        gnames = rnd.sample(NAME_POOL, ngroups)
        chans = []
        for _ in range(rnd.randint(1, o["max_paths"])):
            g = rnd.choice(gnames)
            c = rnd.choice(NAME_POOL)
            p = path_of(g, c)
            if p not in [x[0] for x in chans]:
                chans.append((p, rnd.choice(o["types"])))
        dtype = dict(chans)
        others = [path_of()] + [path_of(g) for g in gnames] if o["groups_objects"] else []
        last_idx = {}          # path -> ('F', ty, n, total)
        prev_active = None     # list of [path, hasData, idx]
        segs = []
        nseg = rnd.randint(1, o["max_segs"])
        version = rnd.choice([4712, 4713, 4713])
        for si in range(nseg):
            big = {"mixed": rnd.random() < 0.5, "little": False, "big": True}[o["big"]]
            inter = o["allow_interleaved"] and rnd.random() < 0.3
            has_meta = prev_active is None or rnd.random() >= o["p_nometa"]
            new_list = has_meta and (prev_active is None and rnd.random() < 0.9 or rnd.random() < 0.5)
            objs = []
            if not has_meta:
                active = [list(a) for a in prev_active]
            else:
                active = [] if (new_list or prev_active is None) else [list(a) for a in prev_active]
                listed = rnd.sample([c[0] for c in chans], rnd.randint(0 if prev_active else 1, len(chans)))
                if others and rnd.random() < 0.6:
                    listed = rnd.sample(others, rnd.randint(1, len(others))) + listed
                    if rnd.random() < 0.3:
                        rnd.shuffle(listed)
                common_n = rnd.randint(0, o["max_n"])
                for p in listed:
                    if p in dtype:
                        kind = rnd.choice(["full", "full", "full", "prev", "prev", "nodata"])
                        if kind == "prev" and p not in last_idx:
                            kind = "full"
                    else:
                        kind = "nodata"
                    if kind == "full":
                        ty = dtype[p]
                        n = common_n if inter else rnd.randint(0, o["max_n"])
                        total = 0
                        if ty == T_STRING:
                            total = 4 * n + (rnd.randint(0, 9) if n > 0 else 0)
                        idx = ("F", ty, n, total)
                        last_idx[p] = idx
                        ent = [p, True, idx]
                    elif kind == "prev":
                        idx = ("M",)
                        ent = [p, True, last_idx[p]]
                    else:
                        idx = ("N",)
                        ent = [p, False, last_idx.get(p)]
                    props = [rand_prop(rnd) for _ in range(rnd.choice([0, 0, 1, 2, 3]))] if o["allow_props"] else []
                    objs.append(dict(path=p, idx=idx, props=props))
                    pos = [i for i, a in enumerate(active) if a[0] == p]
                    if pos:
                        for i in pos:
                            active[i] = ent
                    else:
                        active.append(ent)
            data_objs = [a for a in active if a[1]]
            if inter and (len(set(a[2][2] for a in data_objs)) > 1 or any(a[2][1] == T_STRING for a in data_objs)):
                inter = False
            chunk_bytes = sum((a[2][3] if a[2][1] == T_STRING else a[2][2] * STD_TYPES[a[2][1]]) for a in data_objs)
            nchunks = rnd.randint(0, o["max_chunks"]) if chunk_bytes > 0 else 0
            chunks = []
            for _ in range(nchunks):
                ch = []
                for p, _, idx in data_objs:
                    _, ty, n, total = idx
                    if ty == T_STRING:
                        ch.append(self._strings(n, total - 4 * n))
                    else:
                        ch.append([rand_value(rnd, ty) for _ in range(n)])
                chunks.append(ch)
            segs.append(dict(hasMeta=has_meta, newList=new_list, interleaved=inter, big=big,
                             rawFlag=nchunks > 0 or rnd.random() < 0.3, daqmxFlag=False,
                             lengthUnknown=False, version=version,
                             padding=(rnd.randint(1, 9) if has_meta and o["allow_padding"] and rnd.random() < 0.1 else 0),
                             objs=objs, chunks=chunks))
            prev_active = active
        if o["allow_unknown"] and rnd.random() < 0.12:
            segs[-1]["lengthUnknown"] = True
        return segs

    def _strings(self, n, nbytes):
        """n valid UTF-8 strings with nbytes bytes in total"""
        rnd = self.rnd
        if n == 0:
            return []
        pieces = [b""] * n
        remaining = nbytes
        units = [b"a", b"Z", b" ", "é".encode(), "日".encode(), "\U0001F600".encode(), b"'", b"/", b"\x00", "\ufeff".encode()]
        guard = 0
        while remaining > 0 and guard < 1000:
            guard += 1
            u = rnd.choice(units)
            if len(u) <= remaining:
                i = rnd.randrange(n)
                pieces[i] += u
                remaining -= len(u)
        return pieces


def to_line(segs, cmd="enc"):
    """serialise a file encoding to the token line understood by lean/Tdms/Driver.lean"""
    t = [cmd, str(len(segs))]
    for s in segs:
        t += [str(int(s[k])) for k in ("hasMeta", "newList", "interleaved", "big", "rawFlag", "daqmxFlag", "lengthUnknown")]
        t += [str(s["version"]), str(s["padding"]), str(len(s["objs"]))]
        for ob in s["objs"]:
            t.append(hx(ob["path"]))
            idx = ob["idx"]
            if idx[0] in ("N", "M"):
                t.append(idx[0])
            elif idx[0] == "F":
                t += ["F", str(idx[1]), str(idx[2]), str(idx[3])]
            else:
                _, dg, ty, n, scalers, widths = idx
                t += ["D", str(int(dg)), str(ty), str(n), str(len(scalers))]
                for sc in scalers:
                    t += [str(x) for x in sc]
                t += [str(len(widths))] + [str(w) for w in widths]
            t.append(str(len(ob["props"])))
            for name, ty, val in ob["props"]:
                t += [hx(name), str(ty), hx(val)]
        t.append(str(len(s["chunks"])))
        for ch in s["chunks"]:
            t.append(str(len(ch)))
            for vals in ch:
                t.append(str(len(vals)))
                t += [hx(v) for v in vals]
    return " ".join(t)


def features(segs):
    """feature tags of an encoding, for the distribution counters in the evidence"""
    f = set()
    for s in segs:
        if not s["hasMeta"]:
            f.add("no-metadata")
        if s["hasMeta"] and not s["newList"]:
            f.add("carry-over-list")
        if s["interleaved"]:
            f.add("interleaved")
        if s["big"]:
            f.add("big-endian")
        if s["padding"]:
            f.add("padding")
        if s["lengthUnknown"]:
            f.add("length-unknown")
        if len(s["chunks"]) > 1:
            f.add("multi-chunk")
        if len(s["chunks"]) == 0:
            f.add("no-data-segment")
        for ob in s["objs"]:
            f.add({"N": "hdr-nodata", "M": "hdr-matches-prev", "F": "hdr-full", "D": "hdr-daqmx"}[ob["idx"][0]])
            if ob["idx"][0] == "F":
                f.add("type-%x" % ob["idx"][1])
                if ob["idx"][2] == 0:
                    f.add("zero-length-index")
            if ob["props"]:
                f.add("props")
    if len(segs) > 1:
        f.add("multi-segment")
    if len({s["big"] for s in segs}) > 1:
        f.add("mixed-endian")
    return f
