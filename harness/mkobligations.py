#!/venv/bin/python
"""Regenerates lean/obligations.json: every `theorem` declared in lean/TdmsProofs/Properties/Cxx*.lean is an
obligation of property Cxx (kind `partial` when its name ends in `_partial`)."""
import json, os, re, sys
HERE = os.path.dirname(os.path.abspath(__file__))
sys.path.insert(0, HERE)
from leanio import strip_comments
PROPS = os.path.join(os.path.dirname(HERE), "lean", "TdmsProofs", "Properties")

def main():
    ob = {}
    for fn in sorted(os.listdir(PROPS)):
        m = re.match(r"(C\d\d)(\w*)\.lean$", fn)
        if not m:
            continue
        pid = m.group(1)
        src = strip_comments(open(os.path.join(PROPS, fn)).read())
        ns = []
        names = []
        for line in src.split("\n"):
            mm = re.match(r"\s*namespace\s+([\w.]+)", line)
            if mm:
                ns.append(mm.group(1))
            mm = re.match(r"\s*end\s+([\w.]+)\s*$", line)
            if mm and ns and ns[-1] == mm.group(1):
                ns.pop()
            mm = re.match(r"\s*(?:@\[[^\]]*\]\s*)?(?:protected\s+|private\s+)?theorem\s+([\w.'?!]+)", line)
            if mm:
                names.append(".".join(ns + [mm.group(1)]))
        e = ob.setdefault(pid, dict(modules=[], theorems=[], imports=[]))
        e["modules"].append("TdmsProofs.Properties." + fn[:-5])
        e["theorems"] += [dict(name=n, kind="partial" if n.endswith("_partial") else "full") for n in names]
    for i in range(1, 21):
        ob.setdefault("C%02d" % i, dict(modules=[], theorems=[], imports=[]))
    with open(os.path.join(os.path.dirname(HERE), "lean", "obligations.json"), "w") as f:
        json.dump(ob, f, indent=1, sort_keys=True)
    print({k: len(v["theorems"]) for k, v in ob.items() if v["theorems"]})

if __name__ == "__main__":
    main()
