"""Build of the Lean project (under an exclusive lock), axiom / sorry audit, and a line-protocol
client for the compiled model executable."""
import fcntl
import json
import os
import re
import subprocess
import time

HERE = os.path.dirname(os.path.abspath(__file__))
VERIF = os.path.dirname(HERE)
LEAN_DIR = os.path.join(VERIF, "lean")
EXE = os.path.join(LEAN_DIR, ".lake", "build", "bin", "tdms-model")
LOCK = os.path.join(LEAN_DIR, ".build.lock")

STANDARD_AXIOMS = {"propext", "Classical.choice", "Quot.sound"}
FORBIDDEN = re.compile(r"\b(sorry|admit|native_decide|bv_decide|implemented_by|unsafe)\b|^\s*axiom\s|maxHeartbeats\s+0\b")


class BuildResult:
    def __init__(self, ok, output, failed_modules, wall_s):
        self.ok = ok
        self.output = output
        self.failed_modules = failed_modules
        self.wall_s = wall_s


def lake_build(targets, timeout=3000):
    """`lake build <targets>` under an exclusive lock. Returns BuildResult."""
    t0 = time.time()
    os.makedirs(LEAN_DIR, exist_ok=True)
    with open(LOCK, "w") as lockf:
        fcntl.flock(lockf, fcntl.LOCK_EX)
        try:
            p = subprocess.run(["lake", "build"] + list(targets), cwd=LEAN_DIR, stdout=subprocess.PIPE,
                               stderr=subprocess.STDOUT, text=True, timeout=timeout)
        finally:
            fcntl.flock(lockf, fcntl.LOCK_UN)
    out = p.stdout
    failed = sorted(set(re.findall(r"^- ([\w.«»-]+)$", out, flags=re.M)))
    return BuildResult(p.returncode == 0, out, failed, time.time() - t0)


def strip_comments(text):
    """Remove Lean block comments (nesting) and line comments."""
    out = []
    i, depth, n = 0, 0, len(text)
    while i < n:
        if text.startswith("/-", i):
            depth += 1
            i += 2
        elif depth and text.startswith("-/", i):
            depth -= 1
            i += 2
        elif depth:
            if text[i] == "\n":
                out.append("\n")
            i += 1
        elif text.startswith("--", i):
            while i < n and text[i] != "\n":
                i += 1
        else:
            out.append(text[i])
            i += 1
    return "".join(out)


def textual_scan(paths):
    """Reject sorry/admit/axiom/native_decide/... outside comments. Returns list of (file, line, text)."""
    hits = []
    for path in paths:
        with open(path) as f:
            src = strip_comments(f.read())
        # string literals may legitimately contain words; drop them
        src = re.sub(r'"(\\.|[^"\\])*"', '""', src)
        for ln, line in enumerate(src.split("\n"), 1):
            if FORBIDDEN.search(line):
                hits.append((os.path.relpath(path, VERIF), ln, line.strip()))
    return hits


def lean_sources(subdirs=("Tdms", "TdmsProofs")):
    res = []
    for sd in subdirs:
        for root, _, files in os.walk(os.path.join(LEAN_DIR, sd)):
            for fn in files:
                if fn.endswith(".lean"):
                    res.append(os.path.join(root, fn))
    for fn in ("Main.lean", "Tdms.lean", "TdmsProofs.lean"):
        p = os.path.join(LEAN_DIR, fn)
        if os.path.exists(p):
            res.append(p)
    return sorted(res)


def print_axioms(theorems, imports, timeout=1200):
    """Run `#print axioms` for each theorem name. Returns {name: [axioms]} or {name: None} if unknown."""
    if not theorems:
        return {}
    lines = ["import %s" % m for m in imports]
    for t in theorems:
        lines.append("#print axioms %s" % t)
    src = "\n".join(lines) + "\n"
    tmp = os.path.join(LEAN_DIR, ".lake", "audit_%d.lean" % os.getpid())
    os.makedirs(os.path.dirname(tmp), exist_ok=True)
    with open(tmp, "w") as f:
        f.write(src)
    try:
        p = subprocess.run(["lake", "env", "lean", tmp], cwd=LEAN_DIR, stdout=subprocess.PIPE,
                           stderr=subprocess.STDOUT, text=True, timeout=timeout)
    finally:
        try:
            os.unlink(tmp)
        except OSError:
            pass
    out = p.stdout
    res = {t: None for t in theorems}
    for m in re.finditer(r"^'(\S+)' depends on axioms: \[([^\]]*)\]", out, flags=re.S | re.M):
        res[m.group(1)] = [a.strip() for a in m.group(2).replace("\n", " ").split(",") if a.strip()]
    for m in re.finditer(r"^'(\S+)' does not depend on any axioms", out, flags=re.M):
        res[m.group(1)] = []
    return res, out


class Model:
    """Line-protocol client for the compiled model executable."""

    def __init__(self):
        if not os.path.exists(EXE):
            raise RuntimeError("model executable missing: %s (run setup / lake build)" % EXE)
        self.p = subprocess.Popen([EXE], stdin=subprocess.PIPE, stdout=subprocess.PIPE, text=True, bufsize=1 << 20)
        self.requests = 0

    def ask(self, line):
        self.requests += 1
        self.p.stdin.write(line + "\n")
        self.p.stdin.flush()
        out = self.p.stdout.readline()
        if not out:
            raise RuntimeError("model executable died on request: %s" % line[:200])
        return json.loads(out)

    def ask_many(self, lines):
        """Pipelined: write all, then read all (caller must keep batches small enough for pipe buffers)."""
        res = []
        for ln in lines:
            res.append(self.ask(ln))
        return res

    def close(self):
        try:
            self.p.stdin.close()
            self.p.wait(timeout=10)
        except Exception:
            self.p.kill()


def hx(b):
    return b.hex() if b else "-"
