#!/venv/bin/python
"""Writes MANIFEST.json from the table below (kept in one place so that levels never run ahead of what is built)."""
import json, os
HERE = os.path.dirname(os.path.abspath(__file__))
VERIF = os.path.dirname(HERE)

CHECKS = {
    # id: (level category, text, level_note, technique, design_ref)
}
NOT_YET = {}

def load():
    import sys
    sys.path.insert(0, HERE)
    import manifest_table as mt
    return dict(checks=mt.CHECKS, not_applicable=mt.NOT_APPLICABLE, notes=mt.NOTES)

def main():
    t = load()
    checks = []
    for pid, c in sorted(t["checks"].items()):
        checks.append(dict(
            property_id=pid,
            quick_cmd="./check %s --tier quick" % pid,
            thorough_cmd="./check %s --tier thorough" % pid,
            evidence_file="evidence/%s.json" % pid,
            replay_cmd_template="./check %s --replay {path}" % pid,
            engine="lean4-model+correspondence",
            level_claimed=dict(category=c["category"], text=c["text"], design_ref=c.get("design_ref", "DESIGN.md section 5, " + pid)),
            level_note=c["level_note"],
            technique=c["technique"]))
    m = dict(
        version=1,
        setup_cmd="/venv/bin/python harness/translate.py && cd lean && lake build Tdms tdms-model TdmsProofs",
        hooks=dict(guard="NPTDMS_VERIF", enable="no source hooks are needed: every observation is made through the public API, "
                   "a recording stream, /proc/self/fd or attributes of TdmsFile._reader; ./check exports NPTDMS_VERIF=1 (unused by the source)",
                   baseline_off_cmd="cd /repo && /venv/bin/python -m pytest -q -p no:cacheprovider --timeout=900",
                   source_commits=[], add_only=True),
        engines=[dict(name="lean4-model+correspondence", path="lean/ + harness/",
                      serves_properties=sorted(t["checks"]),
                      kind_free_text="Lean 4 theorems about an executable model of npTDMS (lean/Tdms, proofs in lean/TdmsProofs), tied to /repo by a "
                                     "translator for tables/constants (harness/translate.py) and by a differential correspondence check that runs the "
                                     "compiled model and the real implementation on the same generated inputs (harness/props/*.py)")],
        checks=checks,
        notes=t.get("notes", ""),
        not_applicable=[dict(property_id=k, reason=v) for k, v in sorted(t["not_applicable"].items())])
    with open(os.path.join(VERIF, "MANIFEST.json"), "w") as f:
        json.dump(m, f, indent=1)
    print("MANIFEST.json: %d checks, %d not_applicable" % (len(checks), len(m["not_applicable"])))

if __name__ == "__main__":
    main()
