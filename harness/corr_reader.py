"""Correspondence of the reader model with the real reader, and the C01 oracle (spec `denote` vs real read)."""
import random
import sys
import os

sys.path.insert(0, os.path.dirname(os.path.abspath(__file__)))
import canon
import gen_files
from leanio import Model, hx


def compare_state(m, r):
    """compare model `read`/`meta` JSON with the real dump; returns list of differing fields"""
    diffs = []
    if m.get("ok") != r.get("ok"):
        return ["ok: model=%s(%s) real=%s(%s)" % (m.get("ok"), m.get("err"), r.get("ok"), r.get("err") or r.get("exc"))]
    if not m["ok"]:
        if m["err"] != r["err"]:
            diffs.append("err: model=%s real=%s (%s)" % (m["err"], r["err"], r.get("exc")))
        return diffs
    if m["version"] != r["version"]:
        diffs.append("version %s %s" % (m["version"], r["version"]))
    if len(m["segments"]) != len(r["segments"]):
        diffs.append("segment count %d %d" % (len(m["segments"]), len(r["segments"])))
    for i, (ms, rs) in enumerate(zip(m["segments"], r["segments"])):
        for k in ("pos", "toc", "dataPos", "nextPos", "numChunks", "incomplete", "override", "objects"):
            if canon.norm(ms[k]) != canon.norm(rs[k]):
                diffs.append("segment[%d].%s model=%s real=%s" % (i, k, ms[k], rs[k]))
    mo = [(o["path"], o["ty"], o["scalerTypes"], o["numValues"], canon.norm(canon.model_props_normalised(o["props"]))) for o in m["objects"]]
    ro = [(o["path"], o["ty"], o["scalerTypes"], o["numValues"], canon.norm(o["props"])) for o in r["objects"]]
    if mo != ro:
        for a, b in zip(mo, ro):
            if a != b:
                diffs.append("object model=%s real=%s" % (a, b))
                break
        else:
            diffs.append("object lists differ in length %d %d" % (len(mo), len(ro)))
    if "channels" in m and "channels" in r:
        mc = {c["path"]: (c["data"], canon.norm(c["scalers"])) for c in m["channels"]}
        rc = {c["path"]: (c["data"], canon.norm(c["scalers"])) for c in r["channels"]}
        if mc != rc:
            for p in sorted(set(mc) | set(rc)):
                if mc.get(p) != rc.get(p):
                    diffs.append("channel %s model=%s real=%s" % (bytes.fromhex(p), str(mc.get(p))[:200], str(rc.get(p))[:200]))
                    break
    return diffs


def compare_content(content, r):
    """C01 oracle: the spec's `denote` against the real read"""
    diffs = []
    if not r.get("ok"):
        return ["real read failed on a well-formed file: %s" % r.get("exc")]
    spec_objs = [(o["path"], o["ty"], canon.norm(canon.model_props_normalised(o["props"]))) for o in content]
    real_objs = [(o["path"], o["ty"], canon.norm(o["props"])) for o in r["objects"]]
    if spec_objs != real_objs:
        diffs.append("objects/properties: spec=%s real=%s" % (spec_objs, real_objs))
    # groups and channels: declared groups in order of first appearance, then groups named only through their channels;
    # channels per group in order of first appearance (independent re-statement, from the spec content's object order)
    def comps(ph):
        b = bytes.fromhex(ph).decode("utf-8")
        out, i = [], 0
        while i < len(b) and b[i] == "/" and i + 1 < len(b) and b[i + 1] == "'":
            i += 2
            cur = ""
            while i < len(b):
                if b[i] == "'" and i + 1 < len(b) and b[i + 1] == "'":
                    cur += "'"
                    i += 2
                elif b[i] == "'":
                    i += 1
                    break
                else:
                    cur += b[i]
                    i += 1
            out.append(cur)
        return out
    declared, implied, chans = [], [], {}
    for o in content:
        c = comps(o["path"])
        if len(c) == 1 and c[0] not in declared:
            declared.append(c[0])
        elif len(c) == 2:
            chans.setdefault(c[0], [])
            if c[1] not in chans[c[0]]:
                chans[c[0]].append(c[1])
            if c[0] not in implied:
                implied.append(c[0])
    order = declared + [g for g in implied if g not in declared]
    exp_groups = [[g.encode("utf-8").hex(), [c.encode("utf-8").hex() for c in chans.get(g, [])]] for g in order]
    if "groups" in r and r["groups"] != exp_groups:
        diffs.append("group/channel order: expected %s got %s" % (exp_groups, r["groups"]))
    rc = {c["path"]: c for c in r["channels"]}
    robj = {o["path"]: o for o in r["objects"]}
    for o in content:
        p = o["path"]
        is_channel = bytes.fromhex(p).count(b"/'") >= 1 and p in rc
        if o["values"] or o["scalers"]:
            if p not in rc:
                diffs.append("channel %s has values in the spec but no data in the real read" % bytes.fromhex(p))
                continue
        if p in rc:
            rd = rc[p]
            if o["ty"] == 0xFFFFFFFF:
                if canon.norm(o["scalers"]) != canon.norm(rd["scalers"]):
                    diffs.append("scalers of %s" % bytes.fromhex(p))
            elif (rd["data"] or []) != o["values"]:
                diffs.append("values of %s: spec=%s real=%s" % (bytes.fromhex(p), o["values"][:8], (rd["data"] or [])[:8]))
            if robj[p]["numValues"] != (len(o["values"]) if o["ty"] != 0xFFFFFFFF else (len(o["scalers"][0][1]) if o["scalers"] else 0)):
                diffs.append("len of %s" % bytes.fromhex(p))
    return diffs


if __name__ == "__main__":
    n = int(sys.argv[1]) if len(sys.argv) > 1 else 200
    seed = int(sys.argv[2]) if len(sys.argv) > 2 else 0
    rnd = random.Random(seed)
    model = Model()
    nptdms = canon.import_nptdms()
    print(nptdms.__file__)
    stats = dict(files=0, wf=0, reject=0, corr_diff=0, oracle_diff=0)
    for i in range(n):
        segs = gen_files.FileGen(rnd).draw()
        e = model.ask(gen_files.to_line(segs))
        stats["files"] += 1
        if not e["ok"]:
            stats["reject"] += 1
            continue
        stats["wf"] += e["wf"]
        data = bytes.fromhex(e["file"])
        m = model.ask("read " + hx(data))
        r, _ = canon.real_read(data, nptdms)
        d = compare_state(m, r)
        if d:
            stats["corr_diff"] += 1
            if stats["corr_diff"] <= 5:
                print("CORR", i, d[:3])
        if e["wf"]:
            d2 = compare_content(e["content"], r)
            if d2:
                stats["oracle_diff"] += 1
                if stats["oracle_diff"] <= 5:
                    print("ORACLE", i, d2[:3])
    print(stats)
